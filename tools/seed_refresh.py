#!/venv/bin/python
"""Re-confirm every kept seed against /repo's current HEAD and refresh meta.json.

usage: seed_refresh.py [--jobs N] [--baseline] [seed-id ...]
For each /verif/seeded/<id>: tools/seed_confirm.py logic (fresh worktree; demo passes unchanged, fails with the patch;
all claimed checks run against the patched worktree).  meta.checks_firing is rewritten with what fires now;
problems (patch no longer applies, demo verdicts wrong, nothing fires, exit 2 from a check) are listed at the end.
Exit 1 if any problem.
"""
import json, os, subprocess, sys
from concurrent.futures import ThreadPoolExecutor

VERIF = os.path.dirname(os.path.dirname(os.path.abspath(__file__)))


def one(sid, baseline):
    sd = os.path.join(VERIF, "seeded", sid)
    cmd = ["/venv/bin/python", os.path.join(VERIF, "tools", "seed_confirm.py"), sd] + ([] if baseline else ["--no-baseline"])
    r = subprocess.run(cmd, capture_output=True, text=True)
    try:
        out = json.loads(r.stdout)
    except Exception:
        return sid, None, (r.stdout + r.stderr)[-400:]
    return sid, out, None


def main():
    args = sys.argv[1:]
    jobs = int(args[args.index("--jobs") + 1]) if "--jobs" in args else 8
    baseline = "--baseline" in args
    ids = [a for i, a in enumerate(args) if not a.startswith("--") and (i == 0 or args[i - 1] != "--jobs")]
    if not ids:
        ids = sorted(os.listdir(os.path.join(VERIF, "seeded")))
    problems = []
    with ThreadPoolExecutor(max_workers=jobs) as ex:
        for sid, out, err in ex.map(lambda s: one(s, baseline), ids):
            if out is None:
                problems.append((sid, "confirm crashed: %s" % err))
                continue
            mp = os.path.join(VERIF, "seeded", sid, "meta.json")
            meta = json.load(open(mp))
            fired = out.get("fired", {})
            why = []
            if not out.get("patch_applies"):
                why.append("patch does not apply")
            if out.get("demo_unchanged") != 0:
                why.append("demo fails on the unchanged tree (exit %s)" % out.get("demo_unchanged"))
            if out.get("patch_applies") and out.get("demo_changed", 0) == 0:
                why.append("demo passes with the patch")
            if baseline and out.get("patch_applies") and not out.get("baseline_ok"):
                why.append("baseline: %s" % out.get("baseline"))
            if out.get("patch_applies") and not any(v.get("exit") == 1 for v in fired.values()):
                why.append("no check reports a violation")
            for pid, v in fired.items():
                if v.get("exit") not in (0, 1):
                    why.append("%s exits %s (%s)" % (pid, v.get("exit"), "; ".join(v.get("lines", []))[:160]))
            if out.get("patch_applies"):
                meta["checks_firing"] = {k: v for k, v in fired.items() if v.get("exit") == 1}
                json.dump(meta, open(mp, "w"), indent=1)
            print("%-12s %s  fires=%s" % (sid, "ok " if not why else "PROBLEM", ",".join(sorted(k for k, v in fired.items() if v.get("exit") == 1))), flush=True)
            if why:
                problems.append((sid, "; ".join(why)))
    for sid, w in problems:
        print("PROBLEM %s: %s" % (sid, w))
    sys.exit(1 if problems else 0)


if __name__ == "__main__":
    main()
