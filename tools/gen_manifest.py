#!/venv/bin/python
"""Generate /verif/MANIFEST.json from the table below and validate it against the schema."""
import json
import os
import sys

HERE = os.path.dirname(os.path.dirname(os.path.abspath(__file__)))

CLAIMS = {
    # pid: (technique, level text, level note, design ref)
    "C10": (
        "CFG must-pass-through (dominance) + call-graph who-may-write + def-use provenance of the written bytes",
        "Structural: in GeneratorManager.generate every path to the call reaching CodeGenerator.gen passes the consumed verdict of Verifier.verify under @catch; no filesystem-mutating primitive is reachable from the generate command without passing gen; gen writes each returned record once from result['contents'] to result['path']; no plug-in generate is lazy. Decides the gating mechanism for every schema, plug-in and failing check at once; does not execute anything.",
        "Trusted: the frozen table of filesystem-mutating primitives; resolution of `generator.gen/register_checks` by unique method name over the CodeGenerator hierarchy; plug-ins = plugins/*; Python semantics of @catch (read from fcp.maybe.catch by C11's rule).",
        "DESIGN.md §4 C10",
    ),
    "C11": (
        "exception-escape analysis over the resolved call graph (try/except coverage, @catch frames, lark VisitError re-raise), dominance of add_source over parse, def-use flow of UnexpectedEOF positions",
        "Structural: from get_fcp/get_fcp_from_string, no UnexpectedCharacters/UnexpectedEOF (Lark.parse), VisitError (Transformer.transform, which wraps every semantic-action exception) or attempt()/unwrap() propagation exception can reach the public entry uncaught on any call path; error entries have the shape the renderer unpacks; the cited source is registered before the parse under the cited key; lark's -1 EOF position never reaches a MetaData. Covers every input string because it is a property of handler placement, not of inputs.",
        "Trusted: lark's exception contract (queried from the installed library's class hierarchy; which entry point raises what is a frozen table); Earley termination; implicit raisers outside the table (e.g. MemoryError) ignored.",
        "DESIGN.md §4 C11",
    ),
    "C15": (
        "typed enumeration of every iteration over List[StructField] (types-lite) and every Jinja loop over <Struct>.fields; wire relevance by call-graph reachability of codec cursor methods / layout leaf construction / TypeVisitor struct hooks / reflected field list; order classification of the iterable expression",
        "Structural: every wire-order-relevant iteration over a struct's field list, in the Python codec, the packed layout (hence DBC and C), the type visitor (describe, C++ type names), the reflection record (run-time C++ codec) and the Encode/Decode loops of the C++ struct template, is sorted by field_id ascending. This is a per-site fact that covers every struct and every permutation of its declarations.",
        "Trusted: sorted()/jinja sort semantics; that the C templates iterate message.signals in the layout order they receive (C06 provenance); relevance classification by the frozen sink set (cursor class of fcp.serde.encode/decode, encoding.Value, TypeVisitor.struct).",
        "DESIGN.md §4 C15",
    ),
    "C09": (
        "registered-check inventory (registry edges) reduced to normalised error paths (substitution, alpha-renaming, comparator decided on the ordering domain {0,1,>=2}) and matched against the frozen specification table; category-table agreement; unconditional attempt() consumption under @catch",
        "Structural: the set of functions registered on the general verifier and by the DBC and C plug-ins equals the specification table both ways (no missing row, no check outside the table, each with the specified population, key and predicate); the category tables of Verifier, FcpV2.get and the register sites agree and hand every node of the category to the checks; every check and category verdict is attempt()ed unconditionally for every element inside @catch; checks do not write the schema. Order independence follows from the symmetric predicate forms.",
        "Trusted: the specification table frozen from the property text (DESIGN.md A.2); Python list.count/len/in; checks written outside the recognised predicate forms are reported UNDECIDED, not decided.",
        "DESIGN.md §4 C09",
    ),
    "C12": (
        "record/schema agreement: dict literals returned by reflection() compared with reflection.fcp parsed by the repository's own grammar (key sets, value-kind inference via types-lite, attribute provenance), typed method resolution, dispatcher coverage",
        "Structural: every reflection() record has exactly the keys of the like-named struct of reflection.fcp with value kinds encodable as the declared FCP types; each key is fed from the like-named attribute and no serialised attribute is dropped; every method called while building a record resolves on the receiver's class; every concrete type class flattens its chain; every type constructor used by reflection.fcp is dispatched by the Python codec; the CLI encodes struct Fcp. Byte-level losslessness is C01/C02 applied to this schema.",
        "Trusted: class-to-struct name map (frozen, by class name); annotation-driven types (Any-typed values are treated as not encodable as str/int).",
        "DESIGN.md §4 C12",
    ),
    "C20": (
        "structural rules on FcpV2.merge (field inventory from the class body) and on the import callback: def-use provenance of the module path and of the nested transformer's root, CFG must-pass-through of the merge, error-branch provenance",
        "Structural: merge concatenates every List[...] declaration field of FcpV2 unconditionally and in order; the module path derives from all dotted components joined as a path + '.fcp' under the importing file's directory; the nested transformer is rooted at the imported file; the attempted nested result is merged on every success path; each failure branch mentions the module file. These are necessary conditions of split-schema == single-file schema for every split; equality of the resulting trees additionally relies on C07/C08 rules.",
        "Trusted: handler coverage at the nested parse/transform sites is C11's; pathlib semantics.",
        "DESIGN.md §4 C20",
    ),
    "C08": (
        "return-path extraction with normalised path conditions (control dependence of StructType/EnumType on the matching lookup), writer inventory of the accumulated declaration lists, Result-child discipline from grammar child kinds x callback return annotations",
        "Structural: in the composed-type callback a struct (enum) tag is returned only on paths with a positive struct (enum) lookup of the same name in the tree accumulated so far, and the remaining path returns an error carrying the name and a position; the lookups are exact-name searches; the declaration lists are appended only by their declaring callbacks and the import merge (so, with lark's bottom-up left-to-right traversal, declare-before-use and no self reference); every Result-valued child is attempt()ed under @catch or is_err()-tested before unwrap, never stored raw or dropped; the struct callback's chained message names the struct.",
        "Trusted: lark Transformer traversal order; grammar child kinds as computed from the grammar extracted from parser.py.",
        "DESIGN.md §4 C08",
    ),
    "C01": (
        "effect-grammar extraction by abstract interpretation of the codec handlers (encoder vs decoder agreement per type constructor), cursor typestate of the buffer class, linear normal forms of the bit mappings, threshold ordering of the sign test",
        "Structural (writer/reader agreement): for each of the 10 type classes the parser can produce, encoder and decoder perform the same sequence of primitive transfers (widths, counts, order, granularity, prefix/flag relations); both dispatchers are exhaustive; only the bit primitives touch the store and every transfer advances the cursor by its width on every path, at any alignment; push/read and set/get have equal bit-mapping normal forms; the signed decoder takes the negative branch exactly for word >= 2^(N-1); pack/unpack formats agree; no module-level state on the codec path. Necessary for round-trip for every schema and alignment; with Python's unbounded ints and exact struct packing it is the whole mechanism. Value plumbing beyond prefix/flag relations is not decided.",
        "Trusted: struct.pack/unpack exactness and little-endian host; handlers outside the supported statement forms are UNDECIDED. KNOWN FINDING D3 (sign threshold `>`), not repairable without breaking a pinned test.",
        "DESIGN.md §4 C01, §2.3",
    ),
    "C02": (
        "effect grammars and primitive normal forms compared with the canonical wire grammar frozen from the property (oracle table self-checked against the project's vectors); masked-write flow rule; thorough: same comparison on buffer.h/decoders.h through clang",
        "Structural (agreement with the canonical grammar): encoder and decoder effect grammars equal the canonical grammar for all 10 constructors (W(N) from the declared width, u32 count prefix, u8 presence flag {1,0}, enum packed size, fields in ascending id, nothing between); the primitives implement bit i -> address cursor+i, byte = a div 8, bit = a mod 8 placed by <<, zero growth; word writes are masked to their width. A symmetric deviation passes round-trip and fails here.",
        "Trusted: the canonical table (validated each run against tests/standardized/fcp_tests.json by the checker's own interpreter); struct native formats. KNOWN FINDING D3.",
        "DESIGN.md §4 C02, Appendix A.1",
    ),
    "C16": (
        "bounds-test dominance (CFG) for every store read of the buffer class with comparator decided on the three orderings; taint of decoded values into loop bounds and allocations; per-call freshness of the decode buffer",
        "Structural: every subscript read of the byte store is dominated by a test that raises exactly for index >= len(store) (slices are not accepted without a raising test on their upper bound); a decoded count may bound only a loop that performs a guarded read on every iteration and never sizes an allocation; decode() builds its buffer per call, fills it once from the input and starts at bit 0. Covers every schema and every truncation point because it is a fact about the read primitive and the handlers' loops.",
        "Trusted: list indexing semantics; arithmetic sufficiency of a rewritten (slice-based) read is UNDECIDED, not decided.",
        "DESIGN.md §4 C16",
    ),
    "C04": (
        "cursor typestate of the layout encoder: dominance of the reset over the first layout step, emit/advance agreement on every path (CFG), attribute-write inventory, return-path extraction of the type-length function, provenance of option lookups, copy-only mutation",
        "Structural (tiling by construction): generate() rebinds a fresh output list and sets the cursor to 0 before any layout step; during layout only the list and the cursor are written; every leaf is emitted at the cursor with length L and the cursor then advances by the same L on every path; L comes from the type-length function, which returns the declared width / size x element / get_packed_size() unmodified and raises for every other class; fields are visited in ascending id; options are looked up under exactly the emitted field's name by an exact-name match and option dicts are never mutated; only copies of schema objects are written. Covers every fixed-size struct shape and every sequence of generate() calls.",
        "Trusted: uniqueness of hierarchical names and option propagation to unrolled array elements are not decided; an enum width re-implemented in a helper is UNDECIDED unless it uses a float log formula.",
        "DESIGN.md §4 C04",
    ),
    "C14": (
        "guard dominance in the DBC signal builder (CFG) with the threshold decided on the orderings 63/64/65 against the constant; exhaustive-raise of the type-length function; C size check matched against the specification row; exception-propagation (no swallowing handler) up to the plug-in's generate",
        "Structural: every construction of a DBC signal/message is dominated by a raising test `layout total bits > 64`; the type-length function raises for every class without a static size, so no such field can become a leaf; the C plug-in registers the layout-size > 64 check and the command registers and verifies before generating; no handler between the raise sites and the plug-in's generate() swallows the rejection and generate() is eager, so nothing is written. Covers every CAN binding whatever field carries the excess.",
        "Trusted: leaf extents come from the tiling cursor (C04); the DBC/C text for accepted messages is C05/C06's concern.",
        "DESIGN.md §4 C14",
    ),
    "C17": (
        "inventory + use classification of nondeterminism sources over the call graph from the plug-ins' generate() (including functions installed as Jinja globals), stamp-variable placement in template ASTs, write/read analysis of long-lived objects, freshness propagation for stores on schema-typed objects",
        "Structural: every source of run-to-run variation reachable from a plug-in's generate() (set order, hash/id, clock, uid, host, listings, random/uuid/env) is either order-insensitive in its use, reaches only the order of the returned record list, or feeds a stamp variable that occurs in templates only on // comment lines; no written long-lived object (mutable default, module-level or class-level mutable, memoised function) is read on a generate path; every store on a schema-typed object on a generate path targets an object created during that generation (freshness propagated over all call sites), so the caller's schema is not changed.",
        "Trusted: determinism of jinja2/cantools/dict order; uses of a set stored in a variable are UNDECIDED.",
        "DESIGN.md §4 C17",
    ),
    "C05": (
        "def-use provenance of every argument of the CanSignal/CanMessage constructions (iteration-local resolution, linear forms for the start bit, constant-mapping check for byte order), unconditional-construction rule, per-iteration layout rule",
        "Narrow (provenance of every DBC attribute): each signal attribute derives from the layout attribute the property names, of the leaf being iterated (name, start with +7 exactly on the non-little branch, length, byte order, signedness, float marker, unit, multiplexer flag/ids/selector), every value used is recomputed in each iteration on every path, the construction is unconditional in a loop over the whole layout; each message takes id, name and bus from the binding being iterated and its signals and byte length from the builder call on encoder.generate(<that binding>) of the same iteration; only CAN bindings are iterated; results are keyed by bus. Does NOT decide what cantools prints/reads, Motorola start-bit arithmetic for unaligned big-endian signals, or that frames decode through the DBC.",
        "Trusted: cantools; the layout itself (C04).",
        "DESIGN.md §4 C05",
    ),
    "C07": (
        "grammar child-kind languages (grammar extracted from parser.py, loaded as data) vs. destructuring and def-use provenance of constructor arguments in the semantic actions; frozen child->attribute map; regex ASTs of ignored terminals",
        "Narrow (grammar <-> transformer agreement): every rule has a semantic action whose destructuring fits every child sequence the rule can produce; each constructor parameter of each spec class is fed from the child the grammar puts there (name, id, input/output, value, rest-lists in order, optional binding name); leaf conversions and the field-parameter table are the specified ones and each table entry sets only its own keys; one default binding per struct on every success path; declaration lists are only appended to; %ignore covers space, tab, newline and both comment forms and no ignored terminal is greedy. Does NOT decide Earley ambiguity resolution or print->parse (no printer in the repository).",
        "Trusted: lark's grammar compilation (used as data), the frozen child->attribute map (DESIGN.md A.3).",
        "DESIGN.md §4 C07",
    ),
    "C06": (
        "def-use provenance of the C writer's signal/message attributes; handler inventory from the clang AST of the C run time vs. the scalar types the Python side can emit and the template's call arity; constant-key enumeration; typed-AST narrowing rule on values positioned by `<< start`; sibling rule on signed decoders",
        "Narrow: each C signal takes name, start bit, width, type and signedness from the layout leaf being iterated and each message takes id, name, period (default -1), signals and dlc = ceil((start+length)/8) from its own binding's layout of the same iteration; every scalar type that can reach the template has decode and encode handlers defined and declared in the C run time with the arity the template passes; literal lookup tables are only indexed with keys they contain and short integers get a C member type; in every handler reachable from the template a value positioned by `<< start` is not narrowed below 64 bits before it is returned; every signed decoder sign-extends by its length parameter, guarded where the shift can reach the type width. Does NOT decide the mask table, byte swaps, linear scaling, nor that the rendered C compiles for every schema.",
        "Trusted: clang's typed AST of the run time (parse only); the layout (C04).",
        "DESIGN.md §4 C06",
    ),
    "C03": (
        "visitor/hook exhaustiveness (class hierarchy), f-string constant parts of ToCpp vs class templates declared in decoders.h, Jinja loop-order consistency in the struct block, enum width expressions; compile-fail witness (clang++ -fsyntax-only) for wrapper-interface parametricity; thorough: wire grammar and bit mapping of decoders.h/buffer.h read from clang's AST of requested instantiations",
        "Narrow (generator <-> header agreement; static headers' wire grammar): TypeVisitor.visit dispatches every parser type class and ToCpp overrides every hook; each wrapper name and template arity ToCpp can emit is declared in decoders.h; fcp.h.j2's free names are bound at all render sites; loops that define positional correspondence (constructor parameters, FromJson arguments, Decode's constructor arguments) share one order and the wire loops are id-sorted; enum Encode/Decode/GetSize use enum.get_packed_size(); every container wrapper compiles for an element type exposing only the wrapper interface. Thorough: Encode/Decode of the 8 wrapper classes perform the canonical transfer sequence and fcp::Buffer's PushWord/GetWord are per-bit LSB-first loops advancing the cursor by the width, with no lossy sub-byte shift. Does NOT decide that the rendered fcp.h compiles for every schema, carrier selection, JSON conversion, or sign-extension arithmetic.",
        "Trusted: clang (parse/type-check only) with a declaration-only nlohmann/json stub; jinja2 parser.",
        "DESIGN.md §4 C03",
    ),
    "C19": (
        "abstract instantiation of the two device templates (never rendered) into one C unit typed by clang; shape rules S1-S3 of the reference automaton on the scheduler's AST; Jinja-AST rules for the slot index / array length / message naming; def-use of the period on the Python side",
        "Narrow (conformance of the control skeleton to the reference automaton): the scheduler returns first when the timestamp equals the previous call's and then records it; each message's send is control-dependent on exactly `period != -1 && (uint32_t) time - last_send[idx] >= period`; inside the guard the frame sent is the encoding of the same message's member of the device and last_send[idx] = time follows with the same idx; nothing else writes the state; idx is loop.index0 of the message loop, the array has messages|length slots, both period macros and the encode call name the loop's message; period comes from the binding's 'period' field, default -1. Holds for every device and call history because the generic message block is checked once.",
        "Trusted: clang's typing of the abstract instance; C semantics of unsigned wrap-around; the encode function itself (C06); static zero initialisation.",
        "DESIGN.md §4 C19",
    ),
    "C13": (
        "tag-table agreement (Python type classes vs. both dispatch chains of dynamic.h.j2); transfer sequences of the run-time handlers extracted from the typed clang AST of the template's abstract instantiation (text-level fallback) compared with the canonical grammar; JSON value categories from clang types; composition rule (no byte-padded private buffers joined by Insert); enum width formula",
        "Narrow: the type tags the Python type classes write into reflection equal the tags both dispatch chains of the run-time codec test (and the fall-through throws); each decode handler takes the buffer by reference and performs the canonical transfer sequence of its constructor (widths, counts, prefix/flag, order); encode handlers must compose through the shared bit cursor; the enum width mirrors Enum.get_packed_size; struct handlers iterate the reflected field vector in order. Value-level behaviour (sign arithmetic, enum naming, JSON, LoadBinarySchema's reconstruction) is not decided.",
        "Trusted: the abstract instantiation (each {{expr}} = 0) and the stand-in reflection.h; LoadBinarySchema and the enum width formula are read at text level. KNOWN FINDING D14 (4 sites): encode handlers concatenate byte-padded private buffers.",
        "DESIGN.md §4 C13",
    ),
}

NOT_BUILT = "check not built yet in this session (see DESIGN.md §7 build order); not claimed until it exists"
NA = {
}


CLAIMS["C18"] = (
    "typed clang AST of the abstract instantiations of the four CAN wrapper headers (Jinja expressions become opaque identifiers, loops unrolled once; stand-ins for the generated fcp.h / reflection.h): provenance of the frame_t initialisers, bounds of every copy into the frame's fixed-size arrays, fall-through of the name lookup, padding-insensitive bus comparison; Jinja loop populations of the static tables",
    "Narrow: in both CanStaticSchema and CanDynamicSchema the returned frame is {bus <- bus lookup of the encoded message's name, sid <- id lookup of that name, dlc <- size of the payload the codec produced, data <- that payload}; every std::copy/copy_n into a fixed-size array of the frame is bounded by the array (constant count, min(.., size), or a dominating size test that returns) and does not read past a shorter source; the (id, bus) -> name lookup falls through to nullopt and Decode returns nullopt on it; the 4-character bus tag is compared after removing its zero padding; the static tables are all rendered from the CAN bindings with the keys id/bus/name and the run-time lookups consult only bindings of protocol \"can\" with the same keys. Not decided: payload bytes and decoded values (C03/C13), std::string/JSON run-time behaviour, bus names longer than 4 characters, frame ids above 16 bits.",
    "Trusted: the abstract instantiation and the stand-in fcp.h/reflection.h; the property's quantifier (bus names of 1-4 characters). Designed as not applicable; claimed after the typed reading of templates (DESIGN.md §6, §14) showed that these clauses are visible in the shape of the code and exposed three defects (D29-D31, all repaired).",
    "DESIGN.md §6, §14",
)

# clauses added while strengthening the checks against the second round of seeded changes (DESIGN.md §12)
ADDENDA = {
    "C01": " A container decoder may read its elements directly (bypassing the type dispatcher) only for element classes whose handler returns the raw word (R01.8); a length prefix counts the units the loop transfers (characters vs. encoded bytes).",
    "C02": " The masked-write rule follows the value through locals and accepts masking at every call site.",
    "C03": " No `<<` by a variable count is evaluated in a type narrower than the one its value is converted to (fcp::Buffer).",
    "C04": " The name prefix received by a layout step is handed on to every layout step it calls and the leaf name is built from it (R04.7).",
    "C05": " Each bus is written to directory / (bus name + constant suffix) (R05.4).",
    "C06": " Every run-time handler applies the bit-field primitive to its own (start, length); no byte-granular addressing that drops start % 8; no symmetric clamp on the encode value path; signedness is decided from the type class, not the type name (R06.1, R06.7).",
    "C07": " The fields/signals of a binding are filters of its children by kind (the grammar allows any interleaving).",
    "C09": " The size check lays the message out with the encoder configuration the plug-in's writer emits with (R09.5).",
    "C10": " Any call that reaches a plug-in's generate() counts as gated code; the pre-gate region is computed by dominance inside generate.",
    "C11": " Includes unguarded pop()/[0]/[-1] on a local list that starts empty, and cited files passed through helpers that receive the lark exception.",
    "C13": " The JSON value category (signed / unsigned / always-an-array) of each run-time decode handler equals that of the static wrapper's DecodeJson, from clang types of the static headers (R13.6); values the loader computes per declaration do not carry state between declarations.",
    "C14": " Signal start/length in both writers are the leaf's own extent of the tiling layout (R14.4).",
    "C15": " Orders produced by helper functions are followed; the order is not cached at module level (R15.3).",
    "C16": " Decoded element counts are the unsigned word that was read (R16.4).",
    "C19": " Unknown template variables are instantiated as opaque ints so that the typed rules still apply.",
    "C20": " The module read is followed into a one-level helper and may not be memoised.",
}
ADDENDA3 = {
    "C01": " No bound method object is tested for truth on the codec path (R01.9); slice-based word reads cover the bits they return.",
    "C02": " A raising test of consumed bits against the input length rounds the bits up to bytes (R02.7); a sub-value encoded into a private buffer and appended as bytes is not the canonical grammar.",
    "C03": " Typed reading of the struct template on a model struct declared out of id order with three different field types: the instance type-checks (R03.12) and every decoded / parsed value lands in its own member (R03.2); sizes cached on schema nodes are not stale (R03.9); a pre-sized encode buffer is no larger than the smallest encoding (R03.10); synthesised rpc type names are derived identically at definition and references (R03.11); a decoded count that is clamped before the loop must be clamped in a unit every iteration consumes.",
    "C06": " Grouping containers are not built from one shared mutable default (R06.8).",
    "C07": " Optional numeric parameters are compared with None, not tested for truth (R07.7).",
    "C08": " An index of declared names is written only by declaration/import callbacks (R08.5); the import merges the module whole or a reference-closed subset (R08.6); error mapping extends the incoming error (R08.7).",
    "C12": " Entries built while walking a chain of types read every value from the node the walk is at (R12.7); no fixed-precision number formatting on the reflection cone (R12.8).",
    "C13": " Find-or-insert pools are keyed by everything the pooled object is built from (R13.7), read from a fully type-checked instance (reflection.h stand-in generated from reflection.fcp).",
    "C15": " Typed reading of the generated struct codec on the permuted model struct: Encode/Decode touch the buffer in ascending field id, a decoding constructor in member declaration order, no unsequenced buffer accesses (R15.4).",
    "C16": " Overruns are not swallowed (R16.5); bit and byte quantities are not mixed inside the buffer class (R16.6).",
    "C18": " Lookup keys concatenated from several variable texts keep them apart (R18.6); truth-value filters on the binding list and prefix comparisons of the bus tag are violations.",
    "C19": " A last-send slot taken from a message attribute is followed into the Python writer (keyed by a non-identifying attribute: violation).",
    "C20": " Module text and top-level text are read in the same newline mode (R20.5).",
}
for _pid, _txt in ADDENDA3.items():
    ADDENDA[_pid] = ADDENDA.get(_pid, "") + _txt
# round 4: construct-level rules (DESIGN 3.8) and the new-structure policy (DESIGN 3.7)
ADDENDA4 = {
    "C01": " A key that stands for a schema type reads every field that tells two types apart (R01.10); a work-list walk puts every expansion back at the end it takes from (R01.11); a container decoder that reads raw words admits no class whose handler converts, unless it converts that class afterwards (R01.8).",
    "C02": " Same key rule (R02.9) and work-list rule (R02.10); a smallest-size function used in a rejecting guard - directly, through a local or through a helper's parameter - is a true lower bound (R02.8).",
    "C04": " Type-identity keys are complete (R04.9); a loop that walks down a nested type accumulates the size of every level it is at (R04.8).",
    "C05": " What stands for a binding in the DBC is named by the binding's own name, not by the struct it refers to (R05.5).",
    "C06": " A per-type signal codec that names an integer-type tag names its own (R06.9); groups made by groupby over unsorted input are not stored by key with overwrite (R06.8).",
    "C07": " A record built positionally from variables named like its own fields gets each in its own position (R07.8); every step of a table of fold steps builds on the accumulated value (R07.9).",
    "C09": " By-name struct/enum lookups in checks are fed with the name the node refers to (R09.6); identity keys are not glued from identifier texts with '_' (R09.7); a cycle guard forgets what the walk has left (R09.8).",
    "C10": " Groups of checks are not stored by key from a groupby over the unsorted registry (R10.4); the nodes that checks run over are not read back from a mapping keyed by name (R10.5); a scratch file is not named by replacing the target's extension (R10.6).",
    "C11": " lark's own tree.meta is read only where located meta-data is made (R11.8); a position taken from an exception that can be UnexpectedEOF is tested against the -1 sentinel (R11.9).",
    "C12": " Every step of the annotation fold builds on the accumulated annotations (R12.9).",
    "C14": " Same registry rules as C10 (R14.6, R14.7) and cycle-guard rule (R14.8).",
    "C15": " A sort applied to struct fields has a key the fields carry (R15.5); no wire-relevant iteration - loop, comprehension, explicit iterator, also through helper parameters - takes a struct's fields in declaration order (R15.6).",
    "C16": " A size computed by walking down a nested type accumulates over every level (R16.7); running out of input is not turned into a quiet end of iteration: short islice of a generator that can end, StopIteration inside map() (R16.8). A memo of per-type sizes is keyed by every field that tells two schema types apart, also when the key is built in place (R16.9).",
    "C18": " A generated table that is bisected is emitted in the order the search compares by (R18.7); Encode/Decode do not write into the wrapper object's own storage through references or iterators (R18.8).",
    "C19": " A hand-written distance across a counter wrap counts the step from the maximum to 0 (W1).",
    "C20": " A dotted module name is never used as one path component (R20.6); a copied context record does not keep fields derived from the importer's file (R20.7).",
}
_POLICY = " On code that adds functions or classes the pinned tree does not have, shape rules report UNDECIDED instead of a violation (DESIGN 3.7); construct-level rules still decide."
for _pid, _txt in ADDENDA4.items():
    ADDENDA[_pid] = ADDENDA.get(_pid, "") + _txt
for _pid in list(CLAIMS):
    ADDENDA[_pid] = ADDENDA.get(_pid, "") + _POLICY
for _pid, _txt in ADDENDA.items():
    _t = CLAIMS[_pid]
    CLAIMS[_pid] = (_t[0], _t[1] + _txt, _t[2], _t[3])


def main() -> int:
    props = [json.loads(l) for l in open(os.path.join(HERE, "properties.jsonl"))]
    checks, na = [], []
    for p in props:
        pid = p["id"]
        if pid in CLAIMS:
            tech, text, note, ref = CLAIMS[pid]
            checks.append({
                "property_id": pid,
                "quick_cmd": "./check %s --tier quick -q" % pid,
                "thorough_cmd": "./check %s --tier thorough -q" % pid,
                "evidence_file": "/verif/evidence/%s.json" % pid,
                "replay_cmd_template": "./check %s --replay {path}" % pid,
                "engine": "sa",
                "level_claimed": {"category": "other", "text": text, "design_ref": ref},
                "level_note": note,
                "technique": "static analysis: " + tech,
            })
        else:
            na.append({"property_id": pid, "reason": NA.get(pid, NOT_BUILT)})
    man = {
        "version": 1,
        "setup_cmd": "/venv/bin/python -m compileall -q sa && ./check C10 --tier quick -q >/dev/null",
        "hooks": {
            "guard": "FCP_CORE_VERIF",
            "enable": "none needed: the checks read /repo's sources with ast/jinja2/lark/clang and never run them; no hook commits exist",
            "baseline_off_cmd": "cd /repo && /venv/bin/python -m pytest -ra -q -p no:cacheprovider --timeout=900 --continue-on-collection-errors",
            "source_commits": [],
            "add_only": True,
        },
        "engines": [
            {"name": "sa", "path": "/verif/sa", "serves_properties": sorted(CLAIMS), "kind_free_text": "repo-specific static analyser: ast front end, types-lite, resolved call graph with registry edges, statement CFG with dominance, def-use provenance, effect grammars for the codecs; jinja2/lark/clang used as parsers only"}
        ],
        "checks": checks,
        "not_applicable": na,
        "notes": "Every check decides structural clauses (necessary conditions) of its property from /repo's current sources without running them; see DESIGN.md. exit 0 = clauses hold (KNOWN-FINDING lines for recorded defects), 1 = VIOLATION, 2 = ANALYSIS-ERROR (anchor vanished / floor not met).",
    }
    out = os.path.join(HERE, "MANIFEST.json")
    with open(out, "w") as f:
        json.dump(man, f, indent=1)
        f.write("\n")
    try:
        import jsonschema
        jsonschema.validate(man, json.load(open("/root/.vp/MANIFEST.schema.json")))
        print("MANIFEST.json valid; %d checks, %d not_applicable" % (len(checks), len(na)))
    except ImportError:
        print("jsonschema not importable here; wrote MANIFEST.json unvalidated")
    return 0


if __name__ == "__main__":
    sys.exit(main())
