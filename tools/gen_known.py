#!/usr/bin/env python3
"""Freeze the inventory of functions and module/class-level names of the repository (today's HEAD, plus the pinned
original tree when a worktree of it is given) into sa/known_functions.json.  sa/inline.py treats every function or
constant NOT in this inventory as new structure that may be normalised away before analysis."""
import ast, json, os, sys

V = os.path.dirname(os.path.dirname(os.path.abspath(__file__)))
roots = sys.argv[1:] or ["/repo"]
funcs, names = set(), set()
arity = {}
classes = set()


def units(root):
    src = os.path.join(root, "src", "fcp")
    for dp, dn, fn in os.walk(src):
        for f in fn:
            if f.endswith(".py"):
                p = os.path.join(dp, f)
                parts = os.path.relpath(p, os.path.join(root, "src"))[:-3].split(os.sep)
                if parts[-1] == "__init__":
                    parts = parts[:-1]
                yield ".".join(parts), p
    plug = os.path.join(root, "plugins")
    for d in sorted(os.listdir(plug)) if os.path.isdir(plug) else []:
        inner = os.path.join(plug, d, d)
        for dp, dn, fn in os.walk(inner):
            for f in fn:
                if f.endswith(".py"):
                    p = os.path.join(dp, f)
                    parts = os.path.relpath(p, os.path.join(plug, d))[:-3].split(os.sep)
                    if parts[-1] == "__init__":
                        parts = parts[:-1]
                    yield ".".join(parts), p


for root in roots:
    for mod, p in units(root):
        t = ast.parse(open(p, encoding="utf-8").read())
        for st in t.body:
            if isinstance(st, (ast.FunctionDef, ast.AsyncFunctionDef)):
                funcs.add("%s.%s" % (mod, st.name))
                arity["%s.%s" % (mod, st.name)] = len(st.args.posonlyargs) + len(st.args.args) + len(st.args.kwonlyargs)
            elif isinstance(st, ast.ClassDef):
                classes.add("%s.%s" % (mod, st.name))
                for s2 in st.body:
                    if isinstance(s2, (ast.FunctionDef, ast.AsyncFunctionDef)):
                        funcs.add("%s.%s.%s" % (mod, st.name, s2.name))
                        arity["%s.%s.%s" % (mod, st.name, s2.name)] = len(s2.args.posonlyargs) + len(s2.args.args) + len(s2.args.kwonlyargs)
                    for t2 in (s2.targets if isinstance(s2, ast.Assign) else [s2.target] if isinstance(s2, ast.AnnAssign) else []):
                        if isinstance(t2, ast.Name):
                            names.add("%s.%s.%s" % (mod, st.name, t2.id))
            for t2 in (st.targets if isinstance(st, ast.Assign) else [st.target] if isinstance(st, ast.AnnAssign) else []):
                if isinstance(t2, ast.Name):
                    names.add("%s.%s" % (mod, t2.id))
# non-Python sources shipped by the plug-ins (templates, C, C++): file list and the names each defines
sys.path.insert(0, V)
from sa.newstruct import nonpy_definitions
nonpy = {}
for root in roots:
    for rel, names_ in nonpy_definitions(root).items():
        nonpy.setdefault(rel, set()).update(names_)
json.dump({"nonpy": {k: sorted(v) for k, v in sorted(nonpy.items())}, "roots": roots, "functions": sorted(funcs), "names": sorted(names), "arity": dict(sorted(arity.items())), "classes": sorted(classes)}, open(os.path.join(V, "sa", "known_functions.json"), "w"), indent=0)
print("known: %d functions, %d names" % (len(funcs), len(names)))
