#!/venv/bin/python
"""Regression over the kept corpora: every twin (behaviour-preserving patch) must leave every claimed check silent
(exit 0); every seed (property-breaking patch) must make at least one claimed check exit 1 and none exit 2.

usage: regress.py [--twins] [--seeds] [--jobs N] [--checks C01,C02] [id ...]
Prints one line per case that is wrong, then a summary; exit 1 if anything is wrong.
Works on scratch copies of /repo (sources only); never touches /repo.
"""
import json, os, shutil, subprocess, sys, tempfile
from concurrent.futures import ThreadPoolExecutor

VERIF = os.path.dirname(os.path.dirname(os.path.abspath(__file__)))
sys.path.insert(0, VERIF)
from sa.selftest.run import make_copy, apply_patch  # noqa: E402


def claimed():
    return [c["property_id"] for c in json.load(open(os.path.join(VERIF, "MANIFEST.json")))["checks"]]


def run_case(kind, cid, checks):
    d = os.path.join(VERIF, "twins" if kind == "twin" else "seeded", cid)
    tmp = tempfile.mkdtemp(prefix="fcpverif-rg-")
    try:
        make_copy("/repo", tmp)
        err = apply_patch(tmp, os.path.join(d, "patch.diff"))
        if err:
            return kind, cid, {"_stale": err[:200]}
        res = {}
        for pid in checks:
            r = subprocess.run([os.path.join(VERIF, "check"), pid, "--root", tmp, "--tier", "quick", "-q"], capture_output=True, text=True,
                               env=dict(os.environ, VERIF_NO_EVIDENCE="1", VERIF_NO_SELFTEST="1"))
            if r.returncode != 0:
                lines = [l.strip()[:230] for l in r.stdout.splitlines() if l.strip().startswith(("violation", "ANALYSIS"))][:3]
                res[pid] = (r.returncode, lines)
        return kind, cid, res
    finally:
        shutil.rmtree(tmp, ignore_errors=True)


def main():
    args = sys.argv[1:]
    jobs = int(args[args.index("--jobs") + 1]) if "--jobs" in args else 16
    only = args[args.index("--checks") + 1].split(",") if "--checks" in args else None
    ids = [a for i, a in enumerate(args) if not a.startswith("--") and (i == 0 or args[i - 1] not in ("--jobs", "--checks"))]
    do_twins = "--twins" in args or "--seeds" not in args
    do_seeds = "--seeds" in args or "--twins" not in args
    checks = only or claimed()
    cases = []
    if do_twins and os.path.isdir(os.path.join(VERIF, "twins")):
        cases += [("twin", c) for c in sorted(os.listdir(os.path.join(VERIF, "twins"))) if not ids or c in ids]
    if do_seeds:
        cases += [("seed", c) for c in sorted(os.listdir(os.path.join(VERIF, "seeded"))) if not ids or c in ids]
    bad = 0
    n = {"twin": 0, "seed": 0}
    with ThreadPoolExecutor(max_workers=jobs) as ex:
        for kind, cid, res in ex.map(lambda kc: run_case(kc[0], kc[1], checks), cases):
            n[kind] += 1
            if "_stale" in res:
                bad += 1
                print("STALE %s %s: %s" % (kind, cid, res["_stale"]))
                continue
            if kind == "twin":
                if res:
                    bad += 1
                    for pid, (rc, lines) in sorted(res.items()):
                        print("FALSE-ALARM twin %s: %s exit %d %s" % (cid, pid, rc, lines[:2]))
            else:
                if "--update-meta" in args and not only:
                    mp = os.path.join(VERIF, "seeded", cid, "meta.json")
                    meta = json.load(open(mp))
                    meta["checks_firing"] = {p: {"exit": v[0], "lines": v[1]} for p, v in sorted(res.items()) if v[0] == 1}
                    json.dump(meta, open(mp, "w"), indent=1)
                errs = {p: v for p, v in res.items() if v[0] != 1}
                if not any(v[0] == 1 for v in res.values()):
                    meta_ = json.load(open(os.path.join(VERIF, "seeded", cid, "meta.json")))
                    if meta_.get("documented_miss") and not only:
                        print("DOCUMENTED-MISS seed %s: %s" % (cid, str(meta_["documented_miss"])[:160]))
                    else:
                        bad += 1
                        print("MISSED seed %s (checks run: %s)" % (cid, "all" if not only else ",".join(only)))
                for pid, (rc, lines) in sorted(errs.items()):
                    bad += 1
                    print("EXIT-%d seed %s: %s %s" % (rc, cid, pid, lines[:1]))
    print("regress: %d twins, %d seeds, %d problems" % (n["twin"], n["seed"], bad))
    sys.exit(1 if bad else 0)


if __name__ == "__main__":
    main()
