#!/venv/bin/python
"""Run the repository's pinned suite (BASELINE.json cmd) and compare with stable_pass."""
import json, subprocess, sys, tempfile, os, xml.etree.ElementTree as ET
root = sys.argv[1] if len(sys.argv) > 1 else "/repo"
b = json.load(open("/root/.vp/BASELINE.json"))
with tempfile.TemporaryDirectory() as d:
    x = os.path.join(d, "j.xml")
    env = dict(os.environ)
    if root != "/repo":
        env["PYTHONPATH"] = os.path.join(root, "src")
    subprocess.run(["/venv/bin/python", "-m", "pytest", "-ra", "-q", "-p", "no:cacheprovider", "--timeout=900", "--continue-on-collection-errors", "--junitxml=" + x], cwd=root, env=env, capture_output=True)
    t = ET.parse(x)
    ok = set()
    for tc in t.iter("testcase"):
        if not any(c.tag in ("failure", "error", "skipped") for c in tc):
            ok.add(tc.get("classname") + "::" + tc.get("name"))
missing = [s for s in b["stable_pass"] if s not in ok]
print("stable_pass %d, passing now %d, missing %d" % (len(b["stable_pass"]), len(ok), len(missing)))
for m in missing:
    print("  MISSING", m[:150])
sys.exit(1 if missing else 0)
