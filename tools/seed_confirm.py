#!/venv/bin/python
"""Confirm a seeded change independently, then run every claimed check against it.

usage: seed_confirm.py <seed-dir> [--keep-as <id>]
 1. fresh detached worktree of /repo HEAD under /tmp (removed at the end)
 2. demo on the unchanged tree must PASS (exit 0)
 3. apply patch.diff; demo must FAIL (exit != 0); pinned suite must still pass (missing 0)
 4. every claimed check is run with --root <worktree>; report which ones fire
"""
import json, os, shutil, subprocess, sys, tempfile

VERIF = os.path.dirname(os.path.dirname(os.path.abspath(__file__)))


def sh(cmd, **kw):
    return subprocess.run(cmd, shell=isinstance(cmd, str), capture_output=True, text=True, **kw)


def main():
    sd = os.path.abspath(sys.argv[1])
    keep = sys.argv[sys.argv.index("--keep-as") + 1] if "--keep-as" in sys.argv else None
    skip_baseline = "--no-baseline" in sys.argv
    twin = "--twin" in sys.argv  # behaviour-preserving change: demo must pass both ways, every check must stay silent
    meta = json.load(open(os.path.join(sd, "meta.json")))
    demo = "demo.py" if os.path.exists(os.path.join(sd, "demo.py")) else "demo.sh"
    wt = tempfile.mkdtemp(prefix="fcpverif-confirm-")
    os.rmdir(wt)
    r = sh(["git", "-C", "/repo", "worktree", "add", "--detach", wt, "HEAD"])
    assert r.returncode == 0, r.stderr
    out = {"seed": sd, "property": meta.get("property")}
    try:
        env = dict(os.environ, FCP_ROOT=wt, PYTHONPATH=":".join([wt + "/src"] + [wt + "/plugins/" + p for p in ("fcp_dbc", "fcp_can_c", "fcp_cpp", "fcp_nop")]))
        run_demo = lambda: sh(["/venv/bin/python", os.path.join(sd, demo)] if demo.endswith(".py") else ["bash", os.path.join(sd, demo)], cwd=wt, env=env, timeout=900)
        a = run_demo()
        out["demo_unchanged"] = a.returncode
        ap = sh(["git", "-C", wt, "apply", os.path.join(sd, "patch.diff")])
        out["patch_applies"] = ap.returncode == 0
        if ap.returncode != 0:
            out["apply_err"] = ap.stderr[-300:]
        else:
            b = run_demo()
            out["demo_changed"] = b.returncode
            out["demo_changed_tail"] = (b.stdout + b.stderr)[-300:]
            if not skip_baseline:
                bl = sh(["/venv/bin/python", os.path.join(VERIF, "tools", "baseline.py"), wt])
                out["baseline"] = bl.stdout.strip().splitlines()[0] if bl.stdout else bl.stderr[-200:]
                out["baseline_ok"] = bl.returncode == 0
            man = json.load(open(os.path.join(VERIF, "MANIFEST.json")))
            fired = {}
            for c in man["checks"]:
                pid = c["property_id"]
                rr = sh([os.path.join(VERIF, "check"), pid, "--root", wt, "-q", "--tier", os.environ.get("SEED_TIER", "quick")], env=dict(os.environ, VERIF_NO_EVIDENCE="1"))
                if rr.returncode != 0:
                    fired[pid] = {"exit": rr.returncode, "lines": [l.strip()[:260] for l in rr.stdout.splitlines() if l.strip().startswith(("violation", "ANALYSIS"))][:4]}
            out["fired"] = fired
        if twin:
            out["confirmed"] = out.get("demo_unchanged") == 0 and out.get("demo_changed", 1) == 0 and (skip_baseline or out.get("baseline_ok", False))
            out["false_alarms"] = sorted(out.get("fired", {}))
        else:
            out["confirmed"] = out.get("demo_unchanged") == 0 and out.get("demo_changed", 0) != 0 and (skip_baseline or out.get("baseline_ok", False))
    finally:
        sh(["git", "-C", "/repo", "worktree", "remove", "--force", wt])
        shutil.rmtree(wt, ignore_errors=True)
    print(json.dumps(out, indent=1))
    if keep and out.get("confirmed"):
        dst = os.path.join(VERIF, "twins" if twin else "seeded", keep)
        os.makedirs(dst, exist_ok=True)
        for fn in ("patch.diff", demo):
            shutil.copy(os.path.join(sd, fn), os.path.join(dst, fn))
        meta["confirmed_by"] = "tools/seed_confirm.py: demo exit %s on unchanged worktree, exit %s with patch; %s" % (out["demo_unchanged"], out["demo_changed"], out.get("baseline", "baseline skipped"))
        if twin:
            meta["silent_checks"] = "all claimed checks exit 0 on this patch" if not out.get("fired") else "FALSE ALARMS: %s" % sorted(out.get("fired"))
        else:
            meta["checks_firing"] = out.get("fired", {})
        json.dump(meta, open(os.path.join(dst, "meta.json"), "w"), indent=1)


if __name__ == "__main__":
    main()
