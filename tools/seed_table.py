#!/usr/bin/env python3
"""Markdown rows (seed | caught by | change) for the seeds named on the command line (default: all)."""
import json, os, re, sys
V = os.path.dirname(os.path.dirname(os.path.abspath(__file__)))
ids = sys.argv[1:] or sorted(os.listdir(os.path.join(V, "seeded")))
for sid in ids:
    m = json.load(open(os.path.join(V, "seeded", sid, "meta.json")))
    by = []
    for pid, v in sorted(m.get("checks_firing", {}).items()):
        rule = None
        for l in v.get("lines", []):
            mm = re.match(r"violation (\S+) ", l)
            if mm:
                rule = mm.group(1)
                break
        by.append("%s %s" % (pid, rule or "?"))
    summ = " ".join(str(m.get("summary", "")).split()).replace("|", "/")
    print("| %s | %s | %s |" % (sid, "; ".join(by), summ[:170]))
