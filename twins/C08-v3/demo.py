#!/venv/bin/python
"""C08 demo 3: an undeclared type is reported by name, with its struct.

The undeclared reference sits in a module that is three `mod` levels below
the schema being parsed:

    main.fcp -> bus.fcp -> frames.fcp -> payload.fcp

payload.fcp uses `Checksum`, which nothing declares. Parsing main.fcp has to
return an error that names the type ('Checksum') and the enclosing struct
(Payload), exactly as it does when payload.fcp is parsed on its own.
"""
import sys
import tempfile
from pathlib import Path

from fcp.parser import get_fcp
from fcp.error import Logger

FILES = {
    "main.fcp": 'version: "3"\n\nmod bus;\n\nstruct Node {\n    id @0: u8,\n    bus @1: Bus,\n}\n',
    "bus.fcp": 'version: "3"\n\nmod frames;\n\nstruct Bus {\n    last @0: Frame,\n}\n',
    "frames.fcp": 'version: "3"\n\nmod payload;\n\nstruct Frame {\n    id @0: u16,\n    payload @1: Payload,\n}\n',
    "payload.fcp": 'version: "3"\n\nstruct Payload {\n    data @0: [u8, 8],\n    crc @1: Optional[Checksum],\n}\n',
}


def names_type_and_struct(label: str, result) -> bool:
    if result.is_ok():
        print(f"  {label}: accepted a schema with an undeclared type")
        return False
    text = repr(result.err())
    missing = [what for what in ("'Checksum'", "struct Payload") if what not in text]
    if missing:
        print(f"  {label}: error does not mention {missing}:")
        for line in text.split("\n"):
            print(f"      {line}")
        return False
    print(f"  {label}: error names the type and the struct")
    return True


def main() -> int:
    ok = True
    with tempfile.TemporaryDirectory() as tmp:
        root = Path(tmp)
        for name, text in FILES.items():
            (root / name).write_text(text)

        for entry in ("payload.fcp", "frames.fcp", "bus.fcp", "main.fcp"):
            result = get_fcp(root / entry, Logger({}, enable_file_paths=False))
            ok &= names_type_and_struct(entry, result)

    print("PASS" if ok else "FAIL")
    return 0 if ok else 1


if __name__ == "__main__":
    sys.exit(main())
