#!/venv/bin/python
"""C09 demo 1: the general verifier's verdict must equal the well-formedness spec.

Exercises bindings whose protocol / name contain underscores: the pairs
(name, protocol) are all different, so the schema is well formed and must be
accepted (in every declaration order); a schema with a real duplicate pair must
still be rejected.
"""
import itertools
import sys
from collections import Counter

from fcp.parser import get_fcp_from_string
from fcp.verifier import make_general_verifier

HEADER = 'version: "3"\n'

DECLS_OK = [
    "struct A { x @0: u8, }",
    "struct fd_A { x @0: u8, }",
    "impl can_fd for A { id: 1, }",
    "impl can for fd_A { id: 2, }",
]

DECLS_DUP = [
    "struct A { x @0: u8, }",
    "struct B { x @0: u8, }",
    "impl can for A as msg { id: 1, }",
    "impl can for B as msg { id: 2, }",
]

DECLS_SAME_NAME_OTHER_PROTOCOL = [
    "struct A { x @0: u8, }",
    "impl can for A { id: 1, }",
    "impl uds for A { id: 1, }",
]


def spec_ok(fcp):
    """Independent statement of the well-formedness rules (general part)."""

    def unique(xs):
        return all(n == 1 for n in Counter(xs).values())

    services = {s.name for s in fcp.services}
    return (
        unique([t.name for t in fcp.structs + fcp.enums])
        and unique([(i.name, i.protocol) for i in fcp.impls])
        and all(unique([f.name for f in s.fields]) for s in fcp.structs)
        and all(len(s.fields) > 0 for s in fcp.structs)
        and all(unique([e.name for e in en.enumeration]) for en in fcp.enums)
        and all(unique([e.value for e in en.enumeration]) for en in fcp.enums)
        and all(
            srv in services
            for d in fcp.devices
            for srv in (d.fields.get("services") or [])
        )
    )


def main():
    bad = []
    for label, decls in [
        ("underscore", DECLS_OK),
        ("dup", DECLS_DUP),
        ("other-protocol", DECLS_SAME_NAME_OTHER_PROTOCOL),
    ]:
        # impls are free-standing: every permutation is a legal source file
        for perm in itertools.permutations(decls):
            src = HEADER + "\n".join(perm) + "\n"
            fcp = get_fcp_from_string(src).unwrap()
            got = make_general_verifier().verify(fcp).is_ok()
            want = spec_ok(fcp)
            if got != want:
                bad.append((label, perm, got, want))

    if bad:
        label, perm, got, want = bad[0]
        print(f"FAIL: {len(bad)} schema(s) with wrong verdict; first ({label}):")
        print("  " + "\n  ".join(perm))
        print(f"  verifier says ok={got}, specification says ok={want}")
        return 1
    print("PASS")
    return 0


if __name__ == "__main__":
    sys.exit(main())
