import os
import subprocess
import sys
import tempfile
from pathlib import Path

from fcp.parser import get_fcp
from fcp_cpp import Generator
from fcp.serde import encode as serde_encode
from fcp.reflection import get_reflection_schema

DRIVER = r'''
#include "can.h"
#include "fcp.h"
#include "can_static_schema.h"
#include "can_dynamic_schema.h"

#include <fstream>
#include <iostream>
#include <memory>
#include <sstream>

using json = nlohmann::json;

static std::string Hex(const std::uint8_t* p, std::size_t n) {
    static const char* d = "0123456789abcdef";
    std::string s;
    for (std::size_t i = 0; i < n; i++) { s += d[p[i] >> 4]; s += d[p[i] & 15]; }
    return s;
}

static std::vector<std::uint8_t> UnHex(const std::string& s) {
    std::vector<std::uint8_t> v;
    for (std::size_t i = 0; i + 1 < s.size(); i += 2) {
        v.push_back(static_cast<std::uint8_t>(std::stoi(s.substr(i, 2), nullptr, 16)));
    }
    return v;
}

// script lines:  E <name> <json>            -> encode by name
//                D <bushex> <sid> <dlc> <datahex>  -> decode a frame
// every line is run against each CAN schema named on the command line (static, dynamic)
int main(int argc, char** argv) {
    auto dynamic_schema = fcp::dynamic::DynamicSchema();
    dynamic_schema.LoadBinarySchemaFromFile("output.bin");
    std::vector<std::pair<std::string, fcp::can::Can>> cans{};
    for (int i = 2; i < argc; i++) {
        if (std::string(argv[i]) == "static") {
            cans.push_back({"static", fcp::can::Can{std::make_shared<fcp::can::CanStaticSchema>()}});
        } else {
            cans.push_back({"dynamic", fcp::can::Can{std::make_shared<fcp::can::CanDynamicSchema>(dynamic_schema)}});
        }
    }
    std::ifstream script(argv[1]);
    std::string line;
    while (std::getline(script, line)) {
        if (line.empty()) continue;
        for (auto& [label, can] : cans) {
            std::istringstream in(line);
            std::string op;
            in >> op;
            if (op == "E") {
                std::string name, rest;
                in >> name;
                std::getline(in, rest);
                auto f = can.Encode(name, json::parse(rest));
                if (!f.has_value()) { std::cout << label << " none" << std::endl; continue; }
                std::cout << label << " "
                          << Hex(reinterpret_cast<const std::uint8_t*>(f->bus.data()), 4) << " " << f->sid << " "
                          << static_cast<int>(f->dlc) << " " << Hex(f->data.data(), 8) << std::endl;
            } else {
                std::string bus, data; int sid, dlc;
                in >> bus >> sid >> dlc >> data;
                fcp::can::frame_t f{};
                auto b = UnHex(bus); auto d = UnHex(data);
                for (std::size_t i = 0; i < 4 && i < b.size(); i++) f.bus[i] = static_cast<char>(b[i]);
                for (std::size_t i = 0; i < 8 && i < d.size(); i++) f.data[i] = d[i];
                f.sid = static_cast<std::uint16_t>(sid); f.dlc = static_cast<std::uint8_t>(dlc);
                auto r = can.Decode(f);
                if (!r.has_value()) { std::cout << label << " none" << std::endl; continue; }
                std::cout << label << " " << r->first << " " << r->second.dump() << std::endl;
            }
        }
    }
    return 0;
}
'''


def bus_hex(bus):
    return bus.encode().ljust(4, b"\0").hex()


def run(schema, script_lines, labels=("static", "dynamic")):
    """Generate the C++ for `schema`, build the driver and run the script.

    Returns a list with, per script line, a dict {label: output} for every label."""
    with tempfile.TemporaryDirectory() as d:
        d = Path(d)
        (d / "schema.fcp").write_text(schema)
        fcp_v2 = get_fcp(d / "schema.fcp").unwrap()
        for r in Generator().generate(fcp_v2, {"output": str(d)}):
            (d / Path(r["path"]).name).write_text(str(r["contents"]))
        (d / "output.bin").write_bytes(
            bytes(serde_encode(get_reflection_schema().unwrap(), "Fcp", fcp_v2.reflection()))
        )
        (d / "driver.cpp").write_text(DRIVER)
        (d / "script.txt").write_text("\n".join(script_lines) + "\n")
        inc = os.environ.get("JSON_INCLUDE", "/root/miniconda/include")
        subprocess.run(
            ["g++", "--std=c++17", "-O0", "-isystem", inc, "-I.", "driver.cpp", "-o", "driver"],
            cwd=d, check=True,
        )
        out = subprocess.run(["./driver", "script.txt", *labels], cwd=d, check=True, capture_output=True, text=True).stdout
    lines = out.splitlines()
    n = len(labels)
    assert len(lines) == n * len(script_lines), out
    res = []
    for i in range(len(script_lines)):
        entry = {}
        for line in lines[n * i: n * i + n]:
            label, _, rest = line.partition(" ")
            entry[label] = rest
        res.append(entry)
    return res


def check(schema, cases, labels=("static", "dynamic")):
    """cases: list of (script line, expected output); every schema must give `expected`."""
    results = run(schema, [c[0] for c in cases], labels)
    ok = True
    for (line, expected), got in zip(cases, results):
        for label in labels:
            if got[label] != expected:
                ok = False
                print(f"MISMATCH [{label}] {line!r}: expected {expected!r}, got {got[label]!r}")
    return ok


# Three CAN bindings named after their structs.  Two of the names only differ
# in the case of their second letter (an acronym next to a CamelCase word).
SCHEMA = '''version: "3"

struct IMUData {
    ax @ 0: u8,
    ay @ 1: u16,
}

impl can for IMUData {
    id: 2047,
    bus: "imu",
}

struct ImAlive {
    counter @ 0: u8,
}

impl can for ImAlive {
    id: 0,
    bus: "main",
}

struct Brake {
    pressure @ 0: u16,
    flags @ 1: u8,
}

impl can for Brake {
    id: 513,
    bus: "b",
}
'''

CASES = [
    ('E Brake {"pressure": 258, "flags": 3}', f"{bus_hex('b')} 513 3 0201030000000000"),
    ('E IMUData {"ax": 1, "ay": 515}', f"{bus_hex('imu')} 2047 3 0103020000000000"),
    ('E ImAlive {"counter": 9}', f"{bus_hex('main')} 0 1 0900000000000000"),
    (f"D {bus_hex('b')} 513 3 0201030000000000", 'Brake {"flags":3,"pressure":258}'),
    (f"D {bus_hex('imu')} 2047 3 0103020000000000", 'IMUData {"ax":1,"ay":515}'),
    (f"D {bus_hex('main')} 0 1 0900000000000000", 'ImAlive {"counter":9}'),
    (f"D {bus_hex('main')} 2047 1 0900000000000000", "none"),
    (f"D {bus_hex('imu')} 0 1 0900000000000000", "none"),
]

if __name__ == "__main__":
    if check(SCHEMA, CASES):
        print("PASS")
        sys.exit(0)
    print("FAIL")
    sys.exit(1)
