#!/venv/bin/python
"""C13 demo: the run-time (reflection loaded) C++ codec must agree with the statically generated one.

Run with
  PYTHONPATH=$FCP_ROOT/src:$FCP_ROOT/plugins/fcp_dbc:$FCP_ROOT/plugins/fcp_can_c:$FCP_ROOT/plugins/fcp_cpp:$FCP_ROOT/plugins/fcp_nop /venv/bin/python demo.py
Prints PASS / exits 0 when static and dynamic codecs agree on every case, FAIL / exits 1 otherwise.
"""
import json
import os
import shutil
import subprocess
import sys
import tempfile
from pathlib import Path

from fcp.parser import get_fcp
from fcp.serde import encode as serde_encode
from fcp.reflection import get_reflection_schema
from fcp_cpp import Generator

JSON_INCLUDE = os.environ.get("NLOHMANN_INCLUDE", "/root/miniconda/include")

DRIVER = r'''
#include "fcp.h"
#include "dynamic.h"
#include <iostream>
#include <fstream>
using json = nlohmann::json;
int main() {
    fcp::dynamic::DynamicSchema dyn{};
    dyn.LoadBinarySchemaFromFile("output.bin");
    fcp::StaticSchema sta{};
    std::ifstream f("cases.json");
    json cases = json::parse(f);
    json out = json::array();
    for (const auto& c: cases) {
        json r;
        r["case"] = c;
        std::string name = c["struct"].get<std::string>();
        int repeat = c.value("repeat", 1);
        try {
            for (int k = 0; k < repeat; k++) {
                if (c.contains("bytes")) {
                    auto bytes = c["bytes"].get<std::vector<std::uint8_t>>();
                    auto s = sta.DecodeJson(name, bytes);
                    auto d = dyn.DecodeJson(name, bytes);
                    r["static"] = s.has_value() ? s.value() : json("<nullopt>");
                    r["dynamic"] = d.has_value() ? d.value() : json("<nullopt>");
                } else {
                    auto s = sta.EncodeJson(name, c["value"]);
                    auto d = dyn.EncodeJson(name, c.contains("dvalue") ? c["dvalue"] : c["value"]);
                    r["static"] = s.has_value() ? json(s.value()) : json("<nullopt>");
                    r["dynamic"] = d.has_value() ? json(d.value()) : json("<nullopt>");
                }
            }
        } catch (const std::exception& e) { r["error"] = e.what(); }
        out.push_back(r);
    }
    std::cout << out.dump() << std::endl;
    return 0;
}
'''


def load_schema(schema_text, workdir):
    path = Path(workdir) / "schema.fcp"
    path.write_text(schema_text)
    fcp_v2 = get_fcp(path).unwrap()
    return fcp_v2[0] if isinstance(fcp_v2, tuple) else fcp_v2


def run_cpp(fcp_v2, cases, workdir):
    """Generate the C++ sources, the reflection binary, build the driver and run the cases."""
    d = Path(workdir)
    refl = get_reflection_schema().unwrap()
    refl = refl[0] if isinstance(refl, tuple) else refl
    for r in Generator().generate(fcp_v2, {"output": str(d)}):
        if r.get("type") == "file":
            (d / Path(r["path"]).name).write_text(str(r["contents"]))
    (d / "output.bin").write_bytes(bytes(serde_encode(refl, "Fcp", fcp_v2.reflection())))
    (d / "driver.cpp").write_text(DRIVER)
    (d / "cases.json").write_text(json.dumps(cases))
    r = subprocess.run(
        ["g++", "--std=c++17", "-O0", "-isystem", JSON_INCLUDE, "driver.cpp", "-o", "driver"],
        cwd=d, capture_output=True)
    if r.returncode != 0:
        print(r.stderr.decode()[-3000:])
        print("FAIL (generated C++ does not compile)")
        sys.exit(1)
    r = subprocess.run([str(d / "driver")], cwd=d, capture_output=True)
    if r.returncode != 0:
        print(r.stdout.decode()[-1000:], r.stderr.decode()[-1000:])
        print("FAIL (driver crashed with code %d)" % r.returncode)
        sys.exit(1)
    return json.loads(r.stdout.decode())


def name_enums(value, enums):
    """Rewrite enumerator names (dynamic codec) as numbers (static codec): the one allowed difference."""
    if isinstance(value, dict):
        return {k: name_enums(v, enums) for k, v in value.items()}
    if isinstance(value, list):
        return [name_enums(v, enums) for v in value]
    if isinstance(value, str) and value in enums:
        return enums[value]
    return value


def check(results, enums=None):
    enums = enums or {}
    bad = 0
    for r in results:
        if "error" in r:
            print("ERROR   ", json.dumps(r["case"]), r["error"])
            bad += 1
            continue
        same = name_enums(r["dynamic"], enums) == r["static"]
        print("same    " if same else "DIFFERENT", json.dumps(r["case"]))
        if not same:
            print("    static :", json.dumps(r["static"]))
            print("    dynamic:", json.dumps(r["dynamic"]))
            bad += 1
    return bad


SCHEMA = '''version: "3"

struct Point {
    x @0: i16,
    y @1: i16,
}

struct Log {
    id @0: u8,
    entries @1: [u8],
    points @2: [Point],
    rows @3: [[i8]],
    note @4: str,
    tail @5: u8,
}
'''


def main():
    workdir = tempfile.mkdtemp(prefix="c13_demo3_")
    try:
        fcp_v2 = load_schema(SCHEMA, workdir)
        values = [
            # control: every sequence has at least one element
            {"id": 1, "entries": [1, 2], "points": [{"x": -1, "y": 2}], "rows": [[-1], [2, 3]], "note": "ok", "tail": 9},
            # boundary: sequences of length zero (still canonical, the prefix is simply 0)
            {"id": 2, "entries": [], "points": [{"x": -1, "y": 2}], "rows": [[1]], "note": "", "tail": 9},
            {"id": 3, "entries": [7], "points": [], "rows": [[1], [], [2]], "note": "x", "tail": 9},
            {"id": 4, "entries": [], "points": [], "rows": [], "note": "", "tail": 9},
        ]
        # canonical byte strings come from the reference Python codec
        cases = [{"struct": "Log", "bytes": list(serde_encode(fcp_v2, "Log", value))} for value in values]
        # and the other direction, every field is a whole number of bytes
        cases += [{"struct": "Log", "value": value} for value in values]
        bad = check(run_cpp(fcp_v2, cases, workdir))
    finally:
        shutil.rmtree(workdir, ignore_errors=True)
    if bad:
        print("FAIL")
        sys.exit(1)
    print("PASS")
    sys.exit(0)


if __name__ == "__main__":
    main()
