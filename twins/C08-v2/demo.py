#!/venv/bin/python
"""C08 demo 2: references are checked against the sources as they are *now*.

A three level module graph is parsed twice by the same process:

    main.fcp  --mod-->  vehicle.fcp  --mod-->  common.fcp

Between the two calls only common.fcp is edited:
  step 2: the struct `Position` that vehicle.fcp references is renamed, so the
          reference is now undeclared and parsing must return an error that
          names the type and the enclosing struct;
  step 3: `Position` comes back, but as an enum, so the reference in the
          accepted tree must be tagged as an enum.
"""
import sys
import tempfile
from pathlib import Path

from fcp.parser import get_fcp
from fcp.error import Logger
from fcp.specs.type import EnumType, StructType

MAIN = """version: "3"

mod vehicle;

struct Fleet {
    lead @0: Vehicle,
}
"""

VEHICLE = """version: "3"

mod common;

struct Vehicle {
    id @0: u16,
    where @1: Position,
}
"""

COMMON_STRUCT = """version: "3"

struct Position {
    x @0: i16,
    y @1: i16,
}
"""

COMMON_RENAMED = """version: "3"

struct Location {
    x @0: i16,
    y @1: i16,
}
"""

COMMON_ENUM = """version: "3"

enum Position {
    Front = 0,
    Rear = 1,
}
"""


def parse(path: Path):
    return get_fcp(path, Logger({}, enable_file_paths=False))


def dangling(fcp) -> list:
    """References of the tree that do not resolve to a declaration of their kind."""
    bad = []
    for struct in fcp.structs:
        for field in struct.fields:
            t = field.type
            while hasattr(t, "underlying_type"):
                t = t.underlying_type
            if isinstance(t, StructType) and fcp.get_struct(t.name).is_nothing():
                bad.append(f"{struct.name}.{field.name}: struct {t.name}")
            if isinstance(t, EnumType) and fcp.get_enum(t.name).is_nothing():
                bad.append(f"{struct.name}.{field.name}: enum {t.name}")
    return bad


def main() -> int:
    ok = True
    with tempfile.TemporaryDirectory() as tmp:
        root = Path(tmp)
        (root / "main.fcp").write_text(MAIN)
        (root / "vehicle.fcp").write_text(VEHICLE)

        # step 1: everything is declared
        (root / "common.fcp").write_text(COMMON_STRUCT)
        first = parse(root / "main.fcp")
        if first.is_err() or dangling(first.unwrap()):
            print("  step 1: valid schema not accepted cleanly")
            ok = False
        else:
            print("  step 1: accepted")

        # step 2: `Position` is not declared anywhere any more
        (root / "common.fcp").write_text(COMMON_RENAMED)
        second = parse(root / "main.fcp")
        if second.is_ok():
            print("  step 2: accepted although no file declares 'Position' any more")
            ok = False
        else:
            text = repr(second.err())
            if "'Position'" in text and "struct Vehicle" in text:
                print("  step 2: rejected as expected")
            else:
                print(f"  step 2: rejected, but type/struct not named: {text!r}")
                ok = False

        # step 3: `Position` is an enum now
        (root / "common.fcp").write_text(COMMON_ENUM)
        third = parse(root / "main.fcp")
        if third.is_err():
            print(f"  step 3: valid schema rejected: {third.err()!r}")
            ok = False
        else:
            fcp = third.unwrap()
            where = fcp.get_struct("Vehicle").unwrap().get_field("where").type
            declared_as_enum = (root / "common.fcp").read_text().count("enum Position") == 1
            if declared_as_enum and not isinstance(where, EnumType):
                print(f"  step 3: 'Position' is declared as an enum but the reference is tagged {where.type}")
                ok = False
            else:
                print("  step 3: reference tagged as enum")

    print("PASS" if ok else "FAIL")
    return 0 if ok else 1


if __name__ == "__main__":
    sys.exit(main())
