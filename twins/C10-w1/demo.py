#!/venv/bin/python
"""Differential demo for property C10.

  "Code generation is gated by verification: rejected schemas write nothing;
   accepted schemas write exactly the files the plug-in returned, with exactly
   the returned contents."

Run with the worktree on PYTHONPATH, e.g.

  cd /tmp/twin3-C10 && PYTHONPATH=/tmp/twin3-C10/src:/tmp/twin3-C10/plugins/fcp_dbc:\
/tmp/twin3-C10/plugins/fcp_can_c:/tmp/twin3-C10/plugins/fcp_cpp:/tmp/twin3-C10/plugins/fcp_nop \
  /venv/bin/python demo.py

Prints a DIGEST line (hash over every result, error text, call trace and
written file that is deterministic) and PASS; exits 0 when the property holds.
The DIGEST is identical on the unchanged tree and on the refactored one.
"""

import contextlib
import hashlib
import io
import logging
import os
import shutil
import sys
import tempfile
import textwrap
from pathlib import Path

FCP_ROOT = Path(os.environ.get("FCP_ROOT", "/tmp/twin3-C10"))

from click.testing import CliRunner  # noqa: E402

from fcp.__main__ import main as fcp_main  # noqa: E402
from fcp.codegen import GeneratorManager, CodeGenerator, handle_result  # noqa: E402
from fcp.error import Logger, error  # noqa: E402
from fcp.maybe import Nothing, Some  # noqa: E402
from fcp.parser import get_fcp  # noqa: E402
from fcp.result import Ok, Err  # noqa: E402
from fcp.verifier import Verifier, make_general_verifier, register  # noqa: E402

logging.getLogger().setLevel(logging.CRITICAL)

DIGEST = hashlib.sha256()
CHECKS = 0


def note(*parts):
    """Feed something deterministic into the digest."""
    for part in parts:
        DIGEST.update(repr(part).encode("utf-8", "replace"))
        DIGEST.update(b"\0")


def ensure(cond, msg):
    global CHECKS
    CHECKS += 1
    if not cond:
        print("FAIL:", msg)
        sys.exit(1)


def snapshot(root):
    """Everything observable below `root` (or the fact that it does not exist)."""
    root = Path(root)
    if not root.exists():
        return None
    snap = {}
    for dirpath, dirnames, filenames in os.walk(root):
        rel = Path(dirpath).relative_to(root)
        snap[str(rel) + "/"] = "dir"
        for name in filenames:
            p = Path(dirpath) / name
            st = p.stat()
            snap[str(rel / name)] = (p.read_bytes(), st.st_mtime_ns, st.st_ino)
    return snap


def contents_only(snap):
    if snap is None:
        return None
    return {k: (v if v == "dir" else v[0]) for k, v in snap.items()}


# --------------------------------------------------------------------------
# pre-existing output directory states
# --------------------------------------------------------------------------


def prepare_outdir(base, state):
    out = Path(base) / ("out_" + state)
    if state == "absent":
        return out
    out.mkdir()
    if state == "empty":
        return out
    # "populated": things a generator might overwrite or clean up
    (out / "stale.h").write_text("// stale header\n")
    (out / "stale.c").write_text("// stale source\n")
    (out / "fcp.h").write_text("// old fcp.h\n")
    (out / "default.fcp").write_text("old dbc\n")
    (out / "notes.txt").write_text("keep me\n")
    (out / "sub").mkdir()
    (out / "sub" / "deep.h").write_text("// deep\n")
    return out


OUT_STATES = ["absent", "empty", "populated"]

# --------------------------------------------------------------------------
# schemas
# --------------------------------------------------------------------------

INLINE = {
    "ok_plain": """
        version: "3"

        struct A {
            field1 @0: u8,
            field2 @1: u16,
        }

        impl can for A {
            id: 10,
            device: "ecu1",
        }
    """,
    "ok_nested": """
        version: "3"

        enum E {
            Z = 0,
            O = 1,
        }

        struct Inner {
            a @0: u3,
            e @1: E,
        }

        struct Outer {
            x @0: u5,
            inner @1: Inner,
            arr @2: [u4, 3],
        }

        impl can for Outer {
            id: 20,
            device: "ecu2",
        }
    """,
    "bad_struct_enum_same_name": """
        version: "3"

        struct A {
            field1 @0: u8,
        }

        impl can for A {
            id: 10,
            device: "ecu1",
        }

        enum A {
            Z = 0,
        }
    """,
    "bad_unknown_service": """
        version: "3"

        struct A {
            field1 @0: u8,
        }

        impl can for A {
            id: 10,
            device: "ecu1",
        }

        device ecu {
            services: [Missing],
        }
    """,
    "bad_dup_enum_value": """
        version: "3"

        enum E {
            Z = 0,
            O = 0,
        }

        struct A {
            field1 @0: E,
        }

        impl can for A {
            id: 10,
            device: "ecu1",
        }
    """,
    # only plug-in checks reject these
    "plugin_dup_can_ids": """
        version: "3"

        struct A {
            field1 @0: u8,
        }

        struct B {
            field1 @0: u8,
        }

        impl can for A {
            id: 10,
            device: "ecu1",
        }

        impl can for B {
            id: 10,
            device: "ecu1",
        }
    """,
    "plugin_too_big": """
        version: "3"

        struct A {
            field1 @0: u64,
            field2 @1: u8,
        }

        impl can for A {
            id: 10,
            device: "ecu1",
        }
    """,
    "plugin_impl_without_type": """
        version: "3"

        struct A {
            field1 @0: u8,
        }

        impl can for A {
            id: 10,
            device: "ecu1",
        }

        impl can for Ghost {
            id: 11,
            device: "ecu1",
        }
    """,
}

# schema -> set of generators that must REJECT it (hand written oracle)
ALL = {"dbc", "can_c", "cpp", "nop"}
EXPECT_REJECT = {
    "ok_plain": set(),
    "ok_nested": set(),
    "bad_struct_enum_same_name": ALL,
    "bad_unknown_service": ALL,
    "bad_dup_enum_value": ALL,
    "plugin_dup_can_ids": {"dbc"},
    "plugin_too_big": {"can_c"},
    "plugin_impl_without_type": {"dbc", "can_c"},
    "file:001_duplicate_types": ALL,
    "file:002_duplicate_impls": ALL,
    "file:003_duplicate_signals": ALL,
    "file:004_duplicate_enumeration_names": ALL,
    "file:005_duplicate_enumeration_values": ALL,
    "file:000_no_error": set(),
}
# generation of these (schema, generator) pairs is not interesting / the
# plug-in itself cannot cope with the schema once verification passed
SKIP = {
    ("plugin_too_big", "dbc"),
    ("plugin_impl_without_type", "cpp"),
    ("plugin_impl_without_type", "nop"),
    ("plugin_dup_can_ids", "can_c"),
    ("plugin_dup_can_ids", "cpp"),
    ("plugin_too_big", "cpp"),
}


def schema_files(tmp):
    files = {}
    for name, text in INLINE.items():
        p = Path(tmp) / (name + ".fcp")
        p.write_text(textwrap.dedent(text).lstrip())
        files[name] = p
    for name in EXPECT_REJECT:
        if name.startswith("file:"):
            files[name] = (
                FCP_ROOT / "tests" / "schemas" / "verifier" / (name[5:] + ".fcp")
            )
    return files


# --------------------------------------------------------------------------
# recording what the plug-in returned
# --------------------------------------------------------------------------


@contextlib.contextmanager
def recording(generator_module_name, outdir):
    """Record what Generator.generate returned and the state of outdir right
    after it returned (can_c cleans the directory itself inside generate)."""
    import importlib

    module = importlib.import_module("fcp_" + generator_module_name)
    cls = module.Generator
    original = cls.generate
    record = {"calls": 0, "returned": None, "after_generate": None}

    def spy(self, fcp, ctx):
        record["calls"] += 1
        value = original(self, fcp, ctx)
        record["returned"] = value
        record["after_generate"] = snapshot(outdir)
        return value

    cls.generate = spy
    try:
        yield record
    finally:
        cls.generate = original


def expected_after_write(after_generate, returned, outdir):
    """State the directory must be in after exactly `returned` was written."""
    outdir = Path(outdir)
    if after_generate is None and not any(r.get("type") == "file" for r in returned):
        return None  # nothing to write: the directory is not even created
    state = dict(contents_only(after_generate) or {})
    for res in returned:
        if res.get("type") != "file":
            continue
        rel = Path(res["path"]).relative_to(outdir)
        state[str(rel)] = str(res["contents"]).encode("utf-8")
        parent = rel.parent
        state[str(parent) + "/"] = "dir"
    state["./"] = "dir"
    return state


def run_real_generators(tmp):
    schemas = schema_files(tmp)
    parsed = {}
    for name, path in schemas.items():
        r = get_fcp(str(path), Logger({}))
        ensure(r.is_ok(), f"schema {name} must parse: {r}")
        parsed[name] = r.unwrap()

    for name in sorted(schemas):
        for gen in sorted(ALL):
            if (name, gen) in SKIP:
                continue
            reject = gen in EXPECT_REJECT[name]
            for state in OUT_STATES:
                # ---- API level ------------------------------------------
                with tempfile.TemporaryDirectory(dir=tmp) as base:
                    out = prepare_outdir(base, state)
                    before = snapshot(out)
                    stdout = io.StringIO()
                    with recording(gen, out) as rec, contextlib.redirect_stdout(stdout):
                        manager = GeneratorManager(make_general_verifier())
                        logger = Logger({})
                        fcp = get_fcp(str(schemas[name]), logger).unwrap()
                        result = manager.generate(gen, None, None, fcp, str(out))
                    after = snapshot(out)
                    tag = f"[api {name} x {gen} x {state}]"
                    if reject:
                        ensure(isinstance(result, Err), f"{tag} expected Err, got {result!r}")
                        ensure(rec["calls"] == 0, f"{tag} plug-in generate ran on a rejected schema")
                        ensure(after == before, f"{tag} output directory changed on a rejected schema")
                        ensure(stdout.getvalue() == "", f"{tag} printed output on rejection")
                        note(tag, "Err", repr(result.err()))
                    else:
                        ensure(result == Ok(()), f"{tag} expected Ok(()), got {result!r}")
                        ensure(rec["calls"] == 1, f"{tag} plug-in generate ran {rec['calls']} times")
                        want = expected_after_write(rec["after_generate"], rec["returned"], out)
                        ensure(
                            contents_only(after) == want,
                            f"{tag} files on disk differ from what the plug-in returned:\n"
                            f"  extra/missing: {set(contents_only(after) or {}) ^ set(want or {})}",
                        )
                        prints = [r for r in rec["returned"] if r.get("type") == "print"]
                        ensure(
                            stdout.getvalue() == "".join(str(p.get("contents")) + "\n" for p in prints),
                            f"{tag} printed output differs from returned print results",
                        )
                        # untouched files keep inode + mtime
                        if rec["after_generate"] is not None:
                            written = {
                                str(Path(r["path"]).relative_to(out))
                                for r in rec["returned"]
                                if r.get("type") == "file"
                            }
                            for k, v in rec["after_generate"].items():
                                if k not in written:
                                    ensure(after.get(k) == v, f"{tag} untouched entry {k} was modified")
                        names = sorted(k for k in contents_only(after) or {})
                        note(tag, "Ok", names)
                        if gen != "cpp":  # cpp embeds date/host
                            note(sorted((contents_only(after) or {}).items()))

                # ---- CLI level ------------------------------------------
                with tempfile.TemporaryDirectory(dir=tmp) as base:
                    out = prepare_outdir(base, state)
                    before = snapshot(out)
                    with recording(gen, out) as rec:
                        res = CliRunner().invoke(
                            fcp_main, ["generate", gen, str(schemas[name]), str(out)]
                        )
                    after = snapshot(out)
                    tag = f"[cli {name} x {gen} x {state}]"
                    ensure(res.exception is None, f"{tag} raised {res.exception!r}")
                    ensure(res.exit_code == 0, f"{tag} exit code {res.exit_code}")
                    if reject:
                        ensure("Error:" in res.output, f"{tag} no error reported: {res.output!r}")
                        ensure("Failed to generate fcp" in res.output, f"{tag} no failure trailer")
                        ensure(rec["calls"] == 0, f"{tag} plug-in generate ran")
                        ensure(after == before, f"{tag} output directory changed on a rejected schema")
                        note(tag, res.output)
                    else:
                        ensure("Error:" not in res.output, f"{tag} unexpected error: {res.output!r}")
                        ensure(rec["calls"] == 1, f"{tag} plug-in generate did not run once")
                        want = expected_after_write(rec["after_generate"], rec["returned"], out)
                        ensure(contents_only(after) == want, f"{tag} files differ from plug-in output")
                        if gen != "cpp":
                            note(tag, res.output)


# --------------------------------------------------------------------------
# a configurable fake plug-in: any category, any position, odd results
# --------------------------------------------------------------------------

FAKE_SOURCE = '''
"""Fake generator driven by fcp_twinfake.CONFIG."""
from fcp.codegen import CodeGenerator

CONFIG = {"register": None, "generate": None}


class Generator(CodeGenerator):
    def __init__(self):
        pass

    def register_checks(self, verifier):
        CONFIG["register"](verifier)

    def generate(self, fcp, ctx):
        return CONFIG["generate"](fcp, ctx)
'''

CATEGORIES = ["struct", "field", "enum", "impl", "signal_block", "type", "device"]

RICH_SCHEMA = """
    version: "3"

    enum E {
        Z = 0,
        O = 1,
    }

    enum F {
        P = 3,
    }

    struct A {
        field1 @0: u8,
        field2 @1: E,
    }

    struct B {
        field1 @0: u16,
        nested @1: A,
        arr @2: [u4, 2],
    }

    impl can for A {
        id: 10,
        device: "ecu1",

        signal field1 {
            bitstart: 8,
        },
    }

    impl can for B {
        id: 11,
        device: "ecu1",
    }

    service Service @0 {
        method Foo(A) @0 returns B,
    }

    device ecu {
        services: [Service],
    }

    device ecu1 {
        some_field: 10,
    }
"""


def node_id(node):
    if isinstance(node, tuple):
        return tuple(getattr(n, "name", repr(n)) for n in node)
    return getattr(node, "name", repr(node))


def general_check_counts():
    v = make_general_verifier()
    return {c: len(v.checks[c]) for c in v.categories}


def reference_trace(fcp, general_counts, plugin_checks, fail_at):
    """Independent model of the order in which checks see nodes.

    plugin_checks: list of (category, ident). fail_at: (ident, node_index) or None.
    Returns the expected trace of plug-in check invocations up to the failure.
    """
    order = ["struct", "field", "enum", "impl", "signal_block", "type", "device", "uncategorized"]
    trace = []
    for category in order:
        mine = [ident for (cat, ident) in plugin_checks if cat == category]
        for ident in mine:
            nodes = fcp.get(category).unwrap()
            for i, node in enumerate(nodes):
                trace.append((ident, node_id(node)))
                if fail_at == (ident, i):
                    return trace, True
    return trace, False


def run_fake_plugin(tmp):
    plug_dir = Path(tmp) / "plugdir"
    (plug_dir / "fcp_twinfake").mkdir(parents=True)
    (plug_dir / "fcp_twinfake" / "__init__.py").write_text(FAKE_SOURCE)
    sys.path.insert(0, str(plug_dir))
    import importlib

    importlib.invalidate_caches()
    fake = importlib.import_module("fcp_twinfake")

    schema_path = Path(tmp) / "rich.fcp"
    schema_path.write_text(textwrap.dedent(RICH_SCHEMA).lstrip())
    fcp = get_fcp(str(schema_path), Logger({})).unwrap()
    ensure(make_general_verifier().verify(fcp) == Ok(()), "rich schema passes the general checks")
    counts = {c: len(fcp.get(c).unwrap()) for c in CATEGORIES}
    ensure(all(n >= 1 for n in counts.values()), f"rich schema has nodes in every category: {counts}")
    note(counts)

    def run(register_fn, generate_fn, state="populated", templates=None, skels=None, expect_exc=None):
        fake.CONFIG["register"] = register_fn
        fake.CONFIG["generate"] = generate_fn
        with tempfile.TemporaryDirectory(dir=tmp) as base:
            out = prepare_outdir(base, state)
            before = snapshot(out)
            stdout = io.StringIO()
            exc = None
            result = None
            with contextlib.redirect_stdout(stdout):
                try:
                    result = GeneratorManager(make_general_verifier()).generate(
                        "twinfake", templates, skels, fcp, str(out)
                    )
                except BaseException as e:  # noqa: BLE001
                    exc = e
            after = snapshot(out)
            if expect_exc is None:
                ensure(exc is None, f"unexpected exception {exc!r}")
            else:
                ensure(isinstance(exc, expect_exc), f"expected {expect_exc}, got {exc!r} / {result!r}")
            return result, before, after, out, stdout.getvalue()

    def never_generate(fcp_, ctx):
        raise AssertionError("generate() must not run when a check rejects")

    # ---- one failing check in every category at every position --------------
    for category in CATEGORIES:
        n_nodes = counts[category]
        for n_checks in (1, 3):
            for fail_check in range(n_checks):
                for fail_node in sorted({0, n_nodes - 1}):
                    trace = []
                    errs = {}
                    plugin_checks = [(category, f"{category}#{k}") for k in range(n_checks)]
                    # plus passing checks in every other category
                    plugin_checks += [(c, f"{c}#pass") for c in CATEGORIES if c != category]
                    fail_at = (f"{category}#{fail_check}", fail_node)

                    def register_fn(verifier, plugin_checks=plugin_checks, fail_at=fail_at, trace=trace, errs=errs):
                        for cat, ident in plugin_checks:
                            seen = {"n": 0}

                            def check(self_, fcp_, node, ident=ident, seen=seen):
                                ensure(self_ is fcp_, "check receives the schema twice")
                                i = seen["n"]
                                seen["n"] += 1
                                trace.append((ident, node_id(node)))
                                if (ident, i) == fail_at:
                                    errs["it"] = error(f"rejected by {ident} at node {i}", node=None)
                                    return errs["it"]
                                return Ok(())

                            register(verifier, cat)(check)

                    result, before, after, out, printed = run(register_fn, never_generate)
                    tag = f"[fake {category} checks={n_checks} fail_check={fail_check} fail_node={fail_node}]"
                    ensure(isinstance(result, Err), f"{tag} expected Err, got {result!r}")
                    ensure(result is errs["it"], f"{tag} a different error object was reported")
                    ensure(after == before, f"{tag} output directory changed")
                    ensure(printed == "", f"{tag} something was printed")
                    want_trace, failed = reference_trace(fcp, None, plugin_checks, fail_at)
                    ensure(failed, f"{tag} reference model did not reach the failure")
                    ensure(trace == want_trace, f"{tag} checks ran in a different order\n got  {trace}\n want {want_trace}")
                    note(tag, repr(result.err()), trace)

    # ---- general check fails before plug-in checks of later categories ------
    dup_path = FCP_ROOT / "tests" / "schemas" / "verifier" / "003_duplicate_signals.fcp"
    dup = get_fcp(str(dup_path), Logger({})).unwrap()
    seen_cats = []

    def register_all(verifier):
        for cat in CATEGORIES:
            def check(self_, fcp_, node, cat=cat):
                seen_cats.append(cat)
                return Ok(())
            register(verifier, cat)(check)

    fake.CONFIG["register"] = register_all
    fake.CONFIG["generate"] = never_generate
    with tempfile.TemporaryDirectory(dir=tmp) as base:
        out = prepare_outdir(base, "populated")
        before = snapshot(out)
        result = GeneratorManager(make_general_verifier()).generate("twinfake", None, None, dup, str(out))
        ensure(isinstance(result, Err), "duplicate field must be rejected")
        ensure(snapshot(out) == before, "duplicate field: output directory changed")
        ensure(set(seen_cats) == {"struct"}, f"categories after the failing one ran: {set(seen_cats)}")
        note("general-first", repr(result.err()), seen_cats)

    # ---- odd verdicts ----------------------------------------------------------
    def reg_uncategorized(verifier):
        register(verifier)(lambda s, f, n: Ok(()))

    result, before, after, out, printed = run(reg_uncategorized, never_generate)
    ensure(result == Nothing(), f"uncategorized check: expected Nothing(), got {result!r}")
    ensure(after == before, "uncategorized check: output directory changed")
    note("uncategorized", repr(result))

    def reg_returns_nothing(verifier):
        register(verifier, "enum")(lambda s, f, n: Nothing())

    result, before, after, out, printed = run(reg_returns_nothing, never_generate)
    ensure(result == Nothing(), f"check returning Nothing(): got {result!r}")
    ensure(after == before, "check returning Nothing(): output directory changed")

    def reg_returns_some(verifier):
        register(verifier, "enum")(lambda s, f, n: Some(3))

    wrote = []

    def gen_one(fcp_, ctx):
        wrote.append(1)
        return [{"type": "file", "path": Path(ctx["output"]) / "one.txt", "contents": "1"}]

    result, before, after, out, printed = run(reg_returns_some, gen_one)
    ensure(result == Ok(()) and wrote == [1], "check returning Some(): generation goes ahead")
    ensure((contents_only(after) or {}).get("one.txt") == b"1", "check returning Some(): file written")

    class Boom(Exception):
        pass

    def reg_raises(verifier):
        def check(s, f, n):
            raise Boom("check blew up")
        register(verifier, "device")(check)

    result, before, after, out, printed = run(reg_raises, never_generate, expect_exc=Boom)
    ensure(after == before, "raising check: output directory changed")

    def reg_bad_verdict(verifier):
        register(verifier, "impl")(lambda s, f, n: None)

    result, before, after, out, printed = run(reg_bad_verdict, never_generate, expect_exc=AttributeError)
    ensure(after == before, "check returning None: output directory changed")

    def reg_bad_category(verifier):
        register(verifier, "bogus")(lambda s, f, n: Ok(()))

    result, before, after, out, printed = run(reg_bad_category, never_generate, expect_exc=ValueError)
    ensure(after == before, "invalid category: output directory changed")

    # CLI with an uncategorized check: the command crashes, but writes nothing
    fake.CONFIG["register"] = reg_uncategorized
    fake.CONFIG["generate"] = never_generate
    with tempfile.TemporaryDirectory(dir=tmp) as base:
        out = prepare_outdir(base, "populated")
        before = snapshot(out)
        res = CliRunner().invoke(fcp_main, ["generate", "twinfake", str(schema_path), str(out)])
        ensure(isinstance(res.exception, AttributeError), f"cli uncategorized: {res.exception!r}")
        ensure(snapshot(out) == before, "cli uncategorized: output directory changed")

    # CLI rejection by a plug-in check: error text names the failing check
    def reg_cli_reject(verifier):
        register(verifier, "signal_block")(lambda s, f, n: error("plug-in says no", node=None))

    fake.CONFIG["register"] = reg_cli_reject
    with tempfile.TemporaryDirectory(dir=tmp) as base:
        out = prepare_outdir(base, "populated")
        before = snapshot(out)
        res = CliRunner().invoke(fcp_main, ["generate", "twinfake", str(schema_path), str(out)])
        ensure(res.exception is None, f"cli reject: {res.exception!r}")
        ensure("plug-in says no" in res.output and "Failed to generate fcp" in res.output, res.output)
        ensure(snapshot(out) == before, "cli reject: output directory changed")
        note("cli-reject", res.output)

    # unknown generator: exit(1), nothing written
    with tempfile.TemporaryDirectory(dir=tmp) as base:
        out = prepare_outdir(base, "populated")
        before = snapshot(out)
        try:
            GeneratorManager(make_general_verifier()).generate("does_not_exist", None, None, fcp, str(out))
            ensure(False, "unknown generator must exit")
        except SystemExit as e:
            ensure(e.code == 1, "unknown generator exit code")
        ensure(snapshot(out) == before, "unknown generator: output directory changed")

    # ---- all checks pass: exactly the returned results are handled ----------
    def reg_pass(verifier):
        for cat in CATEGORIES:
            register(verifier, cat)(lambda s, f, n: Ok(()))

    seen_ctx = {}

    def gen_mixed(fcp_, ctx):
        seen_ctx.clear()
        seen_ctx.update(ctx)
        o = Path(ctx["output"])
        return [
            {"type": "file", "path": o / "a.txt", "contents": "alpha\n"},
            {"type": "print", "contents": "hello from plug-in"},
            {"type": "file", "path": str(o / "newdir" / "b.bin"), "contents": 12345},
            {"type": "weird", "path": o / "never.txt", "contents": "x"},
            {"type": "file", "path": o / "sub" / "deep.h", "contents": "// replaced\n"},
            {"type": "file", "path": o / "a.txt", "contents": "alpha v2\n"},
            {"type": "print", "contents": None},
            {"path": o / "typeless.txt", "contents": "x"},
            {"type": "file", "path": o / "empty.txt", "contents": ""},
            {"type": "file", "path": o / "unicode.txt", "contents": "h\u00e9llo \u2192\n"},
        ]

    for state in ("empty", "populated"):
        result, before, after, out, printed = run(reg_pass, gen_mixed, state=state)
        ensure(result == Ok(()), f"mixed results: {result!r}")
        want = dict(contents_only(before))
        want.update(
            {
                "a.txt": b"alpha v2\n",
                "newdir/": "dir",
                "newdir/b.bin": b"12345",
                "sub/": "dir",
                "sub/deep.h": b"// replaced\n",
                "empty.txt": b"",
                "unicode.txt": "h\u00e9llo \u2192\n".encode(),
            }
        )
        ensure(contents_only(after) == want, f"mixed results ({state}): directory is\n {contents_only(after)}\nwant\n {want}")
        ensure(printed == "hello from plug-in\nNone\n", f"mixed results: printed {printed!r}")
        ensure(seen_ctx["output"] == Path(out), "ctx output path")
        ensure(seen_ctx["templates"] == {} and seen_ctx["skels"] == {}, "ctx without template dirs")
        note("mixed", state, sorted(contents_only(after).items()), printed)

    # absent output dir: the parent of a file is created one level only
    result, before, after, out, printed = run(
        reg_pass,
        lambda f, ctx: [{"type": "file", "path": Path(ctx["output"]) / "x.txt", "contents": "x"}],
        state="absent",
    )
    ensure(result == Ok(()) and contents_only(after) == {"./": "dir", "x.txt": b"x"}, "absent outdir is created")

    result, before, after, out, printed = run(
        reg_pass,
        lambda f, ctx: [
            {"type": "file", "path": Path(ctx["output"]) / "first.txt", "contents": "1"},
            {"type": "file", "path": Path(ctx["output"]) / "p" / "q" / "x.txt", "contents": "x"},
            {"type": "file", "path": Path(ctx["output"]) / "last.txt", "contents": "3"},
        ],
        state="empty",
        expect_exc=FileNotFoundError,
    )
    ensure(contents_only(after) == {"./": "dir", "first.txt": b"1"}, f"missing grandparent: {contents_only(after)}")

    # lazily produced results are written as they are produced
    class Late(Exception):
        pass

    def gen_lazy(fcp_, ctx):
        o = Path(ctx["output"])
        yield {"type": "file", "path": o / "l1.txt", "contents": "1"}
        ensure((o / "l1.txt").read_text() == "1", "lazy results are handled one at a time")
        yield {"type": "file", "path": o / "l2.txt", "contents": "2"}
        raise Late()

    result, before, after, out, printed = run(reg_pass, gen_lazy, state="empty", expect_exc=Late)
    ensure(contents_only(after) == {"./": "dir", "l1.txt": b"1", "l2.txt": b"2"}, "lazy generator")

    # result without a path
    result, before, after, out, printed = run(
        reg_pass, lambda f, ctx: [{"type": "file", "contents": "x"}], state="empty", expect_exc=TypeError
    )
    ensure(after == before, "file result without path writes nothing")

    # ---- templates / skeleton directories ----------------------------------
    tdir = Path(tmp) / "templates"
    sdir = Path(tmp) / "skels"
    for d in (tdir, sdir):
        d.mkdir()
        (d / "main.c.j2").write_text("T1 \u00e9\n")
        (d / "other.txt").write_text("T2\n")
        (d / "noext").write_text("T3\n")
        (d / "dir.d").mkdir()
        (d / "dir.d" / "inner.txt").write_text("no\n")
        (d / "main.c.tmpl").write_text("T4\n")

    result, before, after, out, printed = run(
        reg_pass, gen_mixed, state="empty", templates=str(tdir), skels=str(sdir)
    )
    ensure(result == Ok(()), "generation with template dirs")
    ensure(set(seen_ctx["templates"]) == {"main.c", "other", "noext"}, f"template keys {set(seen_ctx['templates'])}")
    ensure(seen_ctx["templates"]["other"] == "T2\n" and seen_ctx["templates"]["noext"] == "T3\n", "template text")
    ensure(seen_ctx["templates"]["main.c"] in ("T1 \u00e9\n", "T4\n"), "template stem collision keeps one of them")
    ensure(
        seen_ctx["skels"]
        == {"main.c.j2": "T1 \u00e9\n", "other.txt": "T2\n", "noext": "T3\n", "main.c.tmpl": "T4\n"},
        f"skeleton keys {seen_ctx['skels']}",
    )
    # which one wins a stem collision depends on os.listdir order only
    winner = [n for n in os.listdir(tdir) if n.startswith("main.c")][-1]
    ensure(seen_ctx["templates"]["main.c"] == (tdir / winner).read_text(encoding="utf-8"), "stem collision: last listed wins")

    # only one of the two given
    result, before, after, out, printed = run(reg_pass, gen_mixed, state="empty", templates=str(tdir))
    ensure(set(seen_ctx["templates"]) == {"main.c", "other", "noext"} and seen_ctx["skels"] == {}, "templates only")
    result, before, after, out, printed = run(reg_pass, gen_mixed, state="empty", skels=str(sdir))
    ensure(seen_ctx["templates"] == {} and len(seen_ctx["skels"]) == 4, "skels only")

    # verification comes before the template directory is even looked at
    missing = str(Path(tmp) / "no_such_dir")
    result, before, after, out, printed = run(reg_cli_reject, never_generate, templates=missing, skels=missing)
    ensure(isinstance(result, Err), f"rejected schema + missing template dir: {result!r}")
    ensure(after == before, "rejected schema + missing template dir: directory changed")
    result, before, after, out, printed = run(
        reg_pass, never_generate, templates=missing, expect_exc=FileNotFoundError
    )
    ensure(after == before, "missing template dir: directory changed")
    result, before, after, out, printed = run(
        reg_pass, never_generate, templates=str(tdir), skels=missing, expect_exc=FileNotFoundError
    )
    ensure(after == before, "missing skeleton dir: directory changed")

    # ---- a manager that is used more than once -------------------------------
    manager = GeneratorManager(make_general_verifier())
    calls = []

    def reg_counting(verifier):
        register(verifier, "struct")(lambda s, f, n: calls.append(n.name) or Ok(()))

    fake.CONFIG["register"] = reg_counting
    fake.CONFIG["generate"] = lambda f, ctx: [
        {"type": "file", "path": Path(ctx["output"]) / "again.txt", "contents": str(len(calls))}
    ]
    with tempfile.TemporaryDirectory(dir=tmp) as base:
        out = prepare_outdir(base, "empty")
        r1 = manager.generate("twinfake", None, None, dup, str(out))
        ensure(isinstance(r1, Err) and snapshot(out) == snapshot(out) and not (out / "again.txt").exists(), "reuse: reject first")
        n_after_first = len(calls)
        r2 = manager.generate("twinfake", None, None, fcp, str(out))
        ensure(r2 == Ok(()), f"reuse: accept second: {r2!r}")
        # the plug-in check is now registered twice and runs twice per struct
        ensure(len(calls) - n_after_first == 2 * len(fcp.structs), "reuse: checks registered per call accumulate")
        ensure((out / "again.txt").read_text() == str(len(calls)), "reuse: file written on the accepted run")
        r3 = manager.generate("twinfake", None, None, dup, str(out))
        before = snapshot(out)
        ensure(isinstance(r3, Err) and snapshot(out) == before, "reuse: reject third leaves the earlier output alone")
        note("reuse", calls)

    sys.path.remove(str(plug_dir))


# --------------------------------------------------------------------------
# the verifier on its own
# --------------------------------------------------------------------------


def run_verifier_unit(tmp):
    schema_path = Path(tmp) / "rich2.fcp"
    schema_path.write_text(textwrap.dedent(RICH_SCHEMA).lstrip())
    fcp = get_fcp(str(schema_path), Logger({})).unwrap()

    v = Verifier()
    ensure(v.verify(fcp) == Ok(()), "empty verifier accepts")
    ensure(v.run_checks("struct", fcp) == Ok(()), "no checks -> Ok")
    ensure(v.run_checks("no-such-category", fcp) == Ok(()), "unknown category without checks -> Ok")
    ensure(v.run_checks("uncategorized", fcp) == Ok(()), "uncategorized without checks -> Ok")

    log = []
    e1 = error("first", node=None)
    e2 = error("second", node=None)
    register(v, "type")(lambda s, f, n: log.append(("t", n.name)) or (e2 if n.name == "F" else Ok(())))
    register(v, "enum")(lambda s, f, n: log.append(("e", n.name)) or (e1 if n.name == "F" else Ok(())))
    register(v, "struct")(lambda s, f, n: log.append(("s", n.name)) or Ok(()))
    r = v.verify(fcp)
    ensure(r is e1, "the first failing category (enum before type) is reported")
    ensure(log == [("s", "A"), ("s", "B"), ("e", "E"), ("e", "F")], f"order {log}")
    del log[:]
    ensure(v.run_checks("type", fcp) is e2, "run_checks reports its own category's failure")
    ensure(log == [("t", "A"), ("t", "B"), ("t", "E"), ("t", "F")], f"type order {log}")
    ensure(v.run_checks("struct", fcp) == Ok(()), "run_checks on a passing category")

    # nodes are looked up again for every check (a check may extend the schema)
    v2 = Verifier()
    seen = []

    def grow(s, f, n):
        seen.append(("grow", n.name))
        return Ok(())

    def observe(s, f, n):
        seen.append(("observe", n.name))
        return Ok(())

    register(v2, "enum")(grow)
    register(v2, "enum")(observe)
    ensure(v2.verify(fcp) == Ok(()), "two checks same category")
    ensure(seen == [("grow", "E"), ("grow", "F"), ("observe", "E"), ("observe", "F")], f"check-major order {seen}")

    v3 = Verifier()
    register(v3)(lambda s, f, n: Ok(()))
    ensure(v3.verify(fcp) == Nothing(), "uncategorized check makes verify return Nothing()")
    ensure(v3.run_checks("uncategorized", fcp) == Nothing(), "run_checks(uncategorized) -> Nothing()")
    try:
        v3.register(lambda s, f, n: Ok(()), "nope")
        ensure(False, "invalid category must raise")
    except ValueError as e:
        ensure(str(e) == "Invalid category: nope", str(e))
    note("verifier-unit", log, seen)

    # handle_result on its own
    with tempfile.TemporaryDirectory(dir=tmp) as base:
        p = Path(base) / "d" / "f.txt"
        ensure(handle_result({"type": "file", "path": p, "contents": "c"}) is None, "handle_result returns None")
        ensure(p.read_text() == "c", "handle_result writes")
        buf = io.StringIO()
        with contextlib.redirect_stdout(buf):
            handle_result({"type": "print", "contents": "zz"})
            handle_result({"type": "nope", "contents": "zz"})
            handle_result({})
        ensure(buf.getvalue() == "zz\n", "handle_result print")
        ensure(sorted(os.listdir(base)) == ["d"], "handle_result wrote nothing else")

    # CodeGenerator.gen directly (as plug-in tests do), no verification involved
    class Direct(CodeGenerator):
        def generate(self, fcp_, ctx):
            return [{"type": "file", "path": ctx["output"] / "g.txt", "contents": repr(sorted(ctx))}]

    with tempfile.TemporaryDirectory(dir=tmp) as base:
        d = Direct()
        ensure(d.gen(fcp, None, None, base) is None, "gen returns None")
        ensure(d.output_path == Path(base), "gen stores output_path")
        ensure((Path(base) / "g.txt").read_text() == "['output', 'skels', 'templates']", "gen ctx keys")
    try:
        CodeGenerator().gen(fcp, None, None, tmp)
        ensure(False, "base generate must raise")
    except NotImplementedError:
        pass


def main():
    tmp = tempfile.mkdtemp(prefix="c10demo_")
    try:
        run_verifier_unit(tmp)
        run_fake_plugin(tmp)
        run_real_generators(tmp)
    finally:
        shutil.rmtree(tmp, ignore_errors=True)
    print(f"{CHECKS} checks")
    print("DIGEST", DIGEST.hexdigest())
    print("PASS")


if __name__ == "__main__":
    main()
