#!/usr/bin/env python
"""Differential test for property C08.

  "Accepted schemas have no dangling or mis-kinded type references."

The test generates a few hundred schemas and module graphs from a small
model (lists of struct / enum / mod declarations with nested field types),
predicts with an independent oracle what the parser has to do with each of
them (accept and tag every reference with the kind of the declaration that
precedes it, or reject with an error chain that names the type and the
enclosing struct and points at the reference), and compares that with what
``fcp.parser`` really does.  A fixed list of hand-written boundary cases is
checked as well, every accepted tree is walked through the public FcpV2
look-ups, and a digest over all normalised outcomes is compared with the
value recorded on the reference implementation.

Run with PYTHONPATH pointing at the worktree under test:

    PYTHONPATH=$FCP_ROOT/src python demo.py [--dump outcomes.json]

Prints PASS and exits 0 when the property holds.
"""

import hashlib
import json
import os
import random
import re
import shutil
import sys
import tempfile
from pathlib import Path

from fcp.error import Logger
from fcp.parser import get_fcp, get_fcp_from_string
from fcp.specs.enum import Enum
from fcp.specs.struct import Struct
from fcp.specs.type import (
    ArrayType,
    DynamicArrayType,
    EnumType,
    OptionalType,
    StringType,
    StructType,
    NumericType,
)

FCP_ROOT = Path(os.environ.get("FCP_ROOT", "/tmp/twin3-C08"))

# Digest of all normalised outcomes, recorded on the unchanged tree.
EXPECTED_DIGEST = "95c2974a0c97ef6c05e07402dadb277ba6396b237617fef6cbaea368cb70566c"

PRIMITIVES = ["u1", "u8", "u64", "i16", "i7", "f32", "f64", "str"]
NAMES = ["A", "B", "C", "D", "Node", "Kind", "U8", "Opt", "Str", "Ab"]

WRAP_MESSAGES = {
    "arr": "Error parsing array type",
    "dyn": "Error parsing dynamic array type",
    "opt": "Error parsing optional type",
}

failures = []
outcomes = []


def check(cond, what):
    if not cond:
        failures.append(what)
        if len(failures) <= 20:
            print("FAIL:", what)


# --------------------------------------------------------------------------
# model -> source text
# --------------------------------------------------------------------------


def type_text(t):
    kind = t[0]
    if kind == "prim" or kind == "ref":
        return t[1]
    if kind == "arr":
        return f"[{type_text(t[1])}, {t[2]}]"
    if kind == "dyn":
        return f"[{type_text(t[1])}]"
    if kind == "opt":
        return f"Optional[{type_text(t[1])}]"
    raise AssertionError(kind)


def leaf_of(t):
    wrappers = []
    while t[0] in ("arr", "dyn", "opt"):
        wrappers.append(t[0])
        t = t[1]
    return t, wrappers  # wrappers are outermost first


def render(items):
    """Return (source, positions) where positions[(item_index, field_index)]
    is the (line, column) of the leaf of the field's type."""
    lines = ['version: "3"', ""]
    positions = {}
    for i, item in enumerate(items):
        if item[0] == "struct":
            lines.append(f"struct {item[1]} {{")
            for j, (fname, ftype) in enumerate(item[2]):
                prefix = f"    {fname} @{j}: "
                text = type_text(ftype)
                leaf, wrappers = leaf_of(ftype)
                # the leaf is the only identifier-like run that is not
                # 'Optional'; compute its offset structurally
                offset = 0
                t = ftype
                while t[0] in ("arr", "dyn", "opt"):
                    offset += len("Optional[") if t[0] == "opt" else 1
                    t = t[1]
                positions[(i, j)] = (len(lines) + 1, len(prefix) + offset + 1)
                lines.append(prefix + text + ",")
            lines.append("}")
        elif item[0] == "enum":
            lines.append(f"enum {item[1]} {{")
            lines.append("    X0 = 0,")
            lines.append("    X1 = 1,")
            lines.append("}")
        elif item[0] == "mod":
            positions[(i, None)] = (len(lines) + 1, 1)
            lines.append(f"mod {item[1]};")
        elif item[0] == "impl":
            lines.append(f"impl can for {item[1]} {{")
            lines.append("    id: 10,")
            lines.append("}")
        else:
            raise AssertionError(item)
        lines.append("")
    return "\n".join(lines) + "\n", positions


# --------------------------------------------------------------------------
# oracle
# --------------------------------------------------------------------------


class Scope:
    def __init__(self):
        self.structs = []  # (name, [(field, type model)])
        self.enums = []  # names

    def kind_of(self, name):
        if any(n == name for n, _ in self.structs):
            return "Struct"
        if name in self.enums:
            return "Enum"
        return None


def resolve_model(t, scope):
    """Return the canonical resolved type or None when the leaf dangles."""
    kind = t[0]
    if kind == "prim":
        return ("prim", t[1])
    if kind == "ref":
        k = scope.kind_of(t[1])
        return None if k is None else (k, t[1])
    inner = resolve_model(t[1], scope)
    if inner is None:
        return None
    if kind == "arr":
        return ("arr", inner, t[2])
    return (kind, inner)


def oracle(files, path):
    """Evaluate the file `path` of the module graph `files`.

    files maps an absolute Path to its list of items.  Returns
    ("ok", Scope) or ("err", [messages], [(msg_index, file, line, column)]).
    """
    items = files[path]
    _, positions = render(items)
    scope = Scope()
    for i, item in enumerate(items):
        if item[0] == "struct":
            resolved = []
            for j, (fname, ftype) in enumerate(item[2]):
                r = resolve_model(ftype, scope)
                if r is None:
                    leaf, wrappers = leaf_of(ftype)
                    msgs = [f"Type '{leaf[1]}' cannot be found."]
                    msgs += [WRAP_MESSAGES[w] for w in reversed(wrappers)]
                    msgs.append("Error parsing type in struct field")
                    msgs.append(f"Failed to parse field in struct {item[1]}")
                    msgs.append(f"Failed to parse {path.name}")
                    line, col = positions[(i, j)]
                    return ("err", msgs, [(0, path.name, line, col)])
                resolved.append((fname, r))
            scope.structs.append((item[1], resolved))
        elif item[0] == "enum":
            scope.enums.append(item[1])
        elif item[0] == "mod":
            target = path.parent / (item[1].replace(".", "/") + ".fcp")
            sub = oracle(files, target)
            if sub[0] == "err":
                msgs = list(sub[1])
                nodes = list(sub[2])
                line, col = positions[(i, None)]
                nodes.append((len(msgs), path.name, line, col))
                msgs.append(f"Failed to import {target}")
                msgs.append(f"Failed to parse {path.name}")
                return ("err", msgs, nodes)
            scope.structs += sub[1].structs
            scope.enums += sub[1].enums
        elif item[0] == "impl":
            pass
    return ("ok", scope)


# --------------------------------------------------------------------------
# observation
# --------------------------------------------------------------------------


def canon(t):
    if isinstance(t, StructType):
        check(t.type == "Struct", f"StructType tagged {t.type!r}")
        return ("Struct", t.name)
    if isinstance(t, EnumType):
        check(t.type == "Enum", f"EnumType tagged {t.type!r}")
        return ("Enum", t.name)
    if isinstance(t, ArrayType):
        return ("arr", canon(t.underlying_type), t.size)
    if isinstance(t, DynamicArrayType):
        return ("dyn", canon(t.underlying_type))
    if isinstance(t, OptionalType):
        return ("opt", canon(t.underlying_type))
    if isinstance(t, StringType):
        return ("prim", "str")
    if isinstance(t, NumericType):
        return ("prim", t.name)
    raise AssertionError(f"unexpected type object {t!r}")


def references(t):
    while isinstance(t, (ArrayType, DynamicArrayType, OptionalType)):
        t = t.underlying_type
    if isinstance(t, (StructType, EnumType)):
        yield t


def check_tree_property(fcp, label, unique_names=True):
    """The property itself, phrased on the public API of the tree."""
    seen_structs = []
    for s in fcp.structs:
        for f in s.fields:
            for ref in references(f.type):
                st = fcp.get_struct(ref.name)
                en = fcp.get_enum(ref.name)
                if isinstance(ref, StructType):
                    check(st.is_some(), f"{label}: struct ref {ref.name} dangles")
                    check(
                        isinstance(fcp.get_type(ref).unwrap(), Struct),
                        f"{label}: get_type({ref.name}) is not a struct",
                    )
                else:
                    check(en.is_some(), f"{label}: enum ref {ref.name} dangles")
                    if unique_names:
                        check(
                            st.is_nothing(),
                            f"{label}: {ref.name} tagged Enum but a struct exists",
                        )
                        check(
                            isinstance(fcp.get_type(ref).unwrap(), Enum),
                            f"{label}: get_type({ref.name}) is not an enum",
                        )
                if unique_names:
                    n = sum(1 for x in fcp.get_types() if x.name == ref.name)
                    check(n == 1, f"{label}: {ref.name} declared {n} times")
                # declared earlier: a struct reference must point at a struct
                # that is already complete (self references are not allowed)
                if isinstance(ref, StructType):
                    check(
                        ref.name in seen_structs,
                        f"{label}: {s.name} references {ref.name} before its declaration",
                    )
        seen_structs.append(s.name)


def normalise(msg, root):
    # the parser prints the expected rules from a set: order them
    m = re.match(r"(.*expected one of: )\[(.*)\]$", msg)
    if m:
        msg = m.group(1) + "[" + ", ".join(sorted(m.group(2).split(", "))) + "]"
    return msg if root is None else msg.replace(str(root), "<ROOT>")


def observe(result, root):
    """Normalise a parse result into plain data."""
    if result.is_ok():
        fcp = result.unwrap()
        return {
            "ok": True,
            "structs": [
                [s.name, [[f.name, canon(f.type)] for f in s.fields]]
                for s in fcp.structs
            ],
            "enums": [e.name for e in fcp.enums],
            "impls": [[i.name, i.protocol, i.type] for i in fcp.impls],
            "dict": fcp.to_dict(),
        }
    err = result.err()
    msgs = [normalise(m, root) for m, _, _ in err.msg]
    nodes = []
    for k, (_, node, _) in enumerate(err.msg):
        if node is not None:
            nodes.append(
                [
                    k,
                    Path(node.meta.filename).name,
                    node.meta.line,
                    node.meta.column,
                    node.meta.end_line,
                    node.meta.end_column,
                ]
            )
    return {"ok": False, "msgs": msgs, "nodes": nodes}


def to_lists(x):
    if isinstance(x, (list, tuple)):
        return [to_lists(y) for y in x]
    return x


def compare(label, files, main, result, root, unique_names):
    expected = oracle(files, main)
    obs = observe(result, root)
    outcomes.append([label, to_lists(obs)])
    if expected[0] == "ok":
        check(obs["ok"], f"{label}: expected acceptance, got {obs.get('msgs')}")
        if not obs["ok"]:
            return
        scope = expected[1]
        want = [[n, [[f, to_lists(t)] for f, t in fs]] for n, fs in scope.structs]
        check(
            to_lists(obs["structs"]) == want,
            f"{label}: structs differ\n  got  {obs['structs']}\n  want {want}",
        )
        check(obs["enums"] == scope.enums, f"{label}: enums differ")
        check_tree_property(result.unwrap(), label, unique_names)
    else:
        check(not obs["ok"], f"{label}: expected rejection, got a tree")
        if obs["ok"]:
            return
        want_msgs = [normalise(m, root) for m in expected[1]]
        check(
            obs["msgs"] == want_msgs,
            f"{label}: messages differ\n  got  {obs['msgs']}\n  want {want_msgs}",
        )
        got_nodes = [n[:4] for n in obs["nodes"]]
        want_nodes = [list(n) for n in expected[2]]
        check(
            got_nodes == want_nodes,
            f"{label}: error nodes differ\n  got  {got_nodes}\n  want {want_nodes}",
        )
        # the error names the type and the enclosing struct
        text = "\n".join(obs["msgs"])
        check("cannot be found" in text and "in struct" in text, f"{label}: text")
        # and the rendered report works
        rendered = Logger(
            {p.name: render(items)[0] for p, items in files.items()},
            enable_file_paths=False,
        ).error(result.err())
        check("cannot be found" in rendered, f"{label}: rendered report")


# --------------------------------------------------------------------------
# random model generation
# --------------------------------------------------------------------------


def has_duplicates(files, main):
    res = oracle(files, main)
    if res[0] != "ok":
        return False
    names = [n for n, _ in res[1].structs] + res[1].enums
    return len(names) != len(set(names))


class Generator:
    def __init__(self, rng, root):
        self.rng = rng
        self.root = root
        self.files = {}
        self.counter = 0

    def rand_type(self, known):
        rng = self.rng
        r = rng.random()
        if r < 0.3 or (not known and r < 0.9):
            leaf = ("prim", rng.choice(PRIMITIVES))
        elif r < 0.96 and known:
            leaf = ("ref", rng.choice(known))
        else:
            leaf = ("ref", rng.choice(NAMES))
        t = leaf
        for _ in range(rng.choice([0, 0, 0, 1, 1, 2, 3])):
            w = rng.choice(["arr", "dyn", "opt"])
            t = ("arr", t, rng.choice([1, 2, 7])) if w == "arr" else (w, t)
        return t

    def gen_file(self, path, depth):
        rng = self.rng
        items = []
        known = []
        self.files[path] = items  # reserve
        for _ in range(rng.randint(1, 6)):
            r = rng.random()
            if r < 0.5:
                name = rng.choice(NAMES)
                fields = [
                    (f"f{j}", self.rand_type(known + ([name] if rng.random() < 0.03 else [])))
                    for j in range(rng.randint(1, 3))
                ]
                items.append(("struct", name, fields))
                known.append(name)
            elif r < 0.75:
                name = rng.choice(NAMES)
                items.append(("enum", name))
                known.append(name)
            elif r < 0.92 and depth < 2:
                self.counter += 1
                if rng.random() < 0.5:
                    dotted = f"m{self.counter}"
                else:
                    dotted = f"pkg{depth}.m{self.counter}"
                target = path.parent / (dotted.replace(".", "/") + ".fcp")
                # occasionally import a module a second time (diamond)
                siblings = [
                    it[1] for it in items if it[0] == "mod"
                ]
                if siblings and rng.random() < 0.2:
                    dotted = rng.choice(siblings)
                    target = path.parent / (dotted.replace(".", "/") + ".fcp")
                else:
                    self.gen_file(target, depth + 1)
                items.append(("mod", dotted))
                sub = oracle(self.files, target)
                if sub[0] == "ok":
                    known += [n for n, _ in sub[1].structs] + sub[1].enums
            elif known:
                items.append(("impl", rng.choice(known)))
        if not any(it[0] in ("struct", "enum") for it in items):
            items.append(("enum", rng.choice(NAMES)))
        return items


def write_files(files):
    for path, items in files.items():
        path.parent.mkdir(parents=True, exist_ok=True)
        path.write_text(render(items)[0])


# --------------------------------------------------------------------------
# hand written boundary cases
# --------------------------------------------------------------------------


def S(name, *fields):
    return ("struct", name, [(f"f{j}", t) for j, t in enumerate(fields)])


def E(name):
    return ("enum", name)


def ref(n):
    return ("ref", n)


def arr(t, n=3):
    return ("arr", t, n)


def dyn(t):
    return ("dyn", t)


def opt(t):
    return ("opt", t)


u8 = ("prim", "u8")

FIXED = {
    "backward struct": [S("A", u8), S("B", ref("A"))],
    "backward enum": [E("K"), S("B", ref("K"))],
    "forward struct": [S("B", ref("A")), S("A", u8)],
    "forward enum": [S("B", ref("K")), E("K")],
    "self": [S("A", ref("A"))],
    "self nested": [S("A", u8, opt(dyn(arr(ref("A")))))],
    "undeclared": [S("A", ref("Nope"))],
    "undeclared deep": [S("A", arr(arr(opt(dyn(ref("Nope"))), 2), 4))],
    "second field fails": [E("K"), S("A", ref("K"), ref("Q"), ref("Z"))],
    "first error wins": [S("A", ref("X1")), S("B", ref("X2"))],
    "failed struct is not declared": [S("A", ref("X1")), S("B", ref("A"))],
    "struct shadows enum": [E("T"), S("T", u8), S("U", ref("T"))],
    "enum before struct of same name": [E("T"), S("U", ref("T")), S("T", u8), S("V", ref("T"))],
    "struct then enum same name": [S("T", u8), E("T"), S("U", ref("T"))],
    "duplicate struct": [S("T", u8), S("T", ("prim", "u16")), S("U", ref("T"))],
    "all wrappers ok": [
        S("A", u8),
        E("K"),
        S("B", arr(ref("A")), dyn(ref("K")), opt(ref("A")), opt(arr(dyn(ref("K")), 1))),
    ],
    "case sensitive": [S("Abc", u8), S("B", ref("abc"))],
    "prefix names": [S("Ab", u8), S("B", ref("A"))],
    "prefix names ok": [S("A", u8), S("Ab", ref("A")), S("B", ref("Ab"))],
    "identifier like builtin": [S("U8", u8), E("Str"), S("B", ref("U8"), ref("Str"))],
    "chain": [S("A", u8), S("B", ref("A")), S("C", ref("B")), S("D", arr(ref("C")), ref("A"))],
    "use after impl": [S("A", u8), ("impl", "A"), S("B", ref("A"))],
    "only enum": [E("K")],
}

MODULE_CASES = {
    "import then use": {
        "main.fcp": [("mod", "m"), S("B", ref("A"), ref("K"))],
        "m.fcp": [S("A", u8), E("K")],
    },
    "use then import": {
        "main.fcp": [S("B", ref("A")), ("mod", "m")],
        "m.fcp": [S("A", u8)],
    },
    "module cannot see importer": {
        "main.fcp": [S("A", u8), ("mod", "m")],
        "m.fcp": [S("B", ref("A"))],
    },
    "transitive": {
        "main.fcp": [("mod", "a.b"), S("Z", ref("A"), ref("B"), opt(ref("K")))],
        "a/b.fcp": [("mod", "c"), S("B", ref("A"))],
        "a/c.fcp": [S("A", u8), E("K")],
    },
    "transitive error": {
        "main.fcp": [E("K"), ("mod", "a.b"), S("Z", ref("K"))],
        "a/b.fcp": [S("Q", u8), ("mod", "c")],
        "a/c.fcp": [S("A", dyn(ref("Q")))],
    },
    "sibling modules are isolated": {
        "main.fcp": [("mod", "m1"), ("mod", "m2")],
        "m1.fcp": [S("A", u8)],
        "m2.fcp": [S("B", ref("A"))],
    },
    "sibling modules merge in order": {
        "main.fcp": [("mod", "m1"), S("M", ref("A")), ("mod", "m2"), S("N", ref("A"), ref("B"))],
        "m1.fcp": [S("A", u8)],
        "m2.fcp": [E("B")],
    },
    "diamond": {
        "main.fcp": [("mod", "l"), ("mod", "r"), S("Z", ref("L"), ref("R"), ref("Base"))],
        "l.fcp": [("mod", "base"), S("L", ref("Base"))],
        "r.fcp": [("mod", "base"), S("R", ref("Base"))],
        "base.fcp": [S("Base", u8)],
    },
    "imported enum shadowed by local struct": {
        "main.fcp": [("mod", "m"), S("U", ref("T")), S("T", u8), S("V", ref("T"))],
        "m.fcp": [E("T")],
    },
    "imported struct shadows local enum": {
        "main.fcp": [E("T"), S("U", ref("T")), ("mod", "m"), S("V", ref("T"))],
        "m.fcp": [S("T", u8)],
    },
}


V = 'version: "3"\n'

# Raw module graphs that are outside the oracle's model: their normalised
# outcome only goes into the digest (and they all have to be rejected or
# accepted as noted).
RAW_CASES = {
    "module with bad character": (False, {
        "main.fcp": V + "mod m;\nstruct B { a @0: A, }\n",
        "m.fcp": V + "struct A { a @0: u8, } $\n",
    }),
    "module truncated": (False, {
        "main.fcp": V + "mod m;\nstruct B { a @0: A, }\n",
        "m.fcp": V + "struct A { a @0: u8,",
    }),
    "module missing": (False, {
        "main.fcp": V + "struct A { a @0: u8, }\nmod nothere;\nstruct B { a @0: A, }\n",
    }),
    "nested module missing": (False, {
        "main.fcp": V + "mod p.m;\n",
        "p/m.fcp": V + "mod q;\nstruct A { a @0: u8, }\n",
    }),
    "module with empty enum": (False, {
        "main.fcp": V + "mod m;\n",
        "m.fcp": V + "enum K { }\n",
    }),
    "module with wrong version": (False, {
        "main.fcp": V + "mod m;\nstruct B { a @0: A, }\n",
        "m.fcp": 'version: "2"\nstruct A { a @0: u8, }\n',
    }),
    "module with unknown parameter": (False, {
        "main.fcp": V + "mod m;\n",
        "m.fcp": V + "struct A { a @0: Nope | colour(1), }\n",
    }),
    "main with bad character": (False, {
        "main.fcp": V + "struct A { a @0: u8, } $\n",
    }),
    "main truncated": (False, {
        "main.fcp": V + "struct A { a @0: A",
    }),
    "main with empty enum": (False, {
        "main.fcp": V + "enum K { }\nstruct A { a @0: K, }\n",
    }),
    "dangling inside array of unrepresentable size": (False, {
        "main.fcp": V + "struct A { a @0: [[Nope, 1e999], 2], }\n",
    }),
    "array of unrepresentable size": (False, {
        "main.fcp": V + "struct A { a @0: [u8, 1e999], }\n",
    }),
    "unrepresentable size and unknown parameter": (False, {
        "main.fcp": V + "struct A { a @0: Optional[[u8, 1e999]] | colour(1), }\n",
    }),
    "dangling, unrepresentable size and unknown parameter": (False, {
        "main.fcp": V + "struct A { a @0: [Nope, 1e999] | colour(1), }\n",
    }),
    "unrepresentable size after a dangling field": (False, {
        "main.fcp": V + "struct A { a @0: Nope, b @1: [u8, 1e999], }\n",
    }),
    "deep nesting": (True, {
        "main.fcp": V + "enum K { X = 1, }\nstruct A { a @0: "
        + "[" * 12 + "Optional[K]" + ", 2]" * 12 + ", }\n",
    }),
    "deep nesting dangling": (False, {
        "main.fcp": V + "struct A { a @0: "
        + "Optional[[" * 6 + "A" + "]]" * 6 + ", }\n",
    }),
    "fractional array size": (True, {
        "main.fcp": V + "enum K { X = 1, }\nstruct A { a @0: [K, 2.5], }\n",
    }),
    "parameters and references": (True, {
        "main.fcp": V + 'enum K { X = 1, }\nstruct A { a @0: K | unit("V"), b @1: u8 | range(0.0, 5.5) | unit("A"), }\n'
                    "struct B { a @0: Optional[A] | unit(\"x\"), }\n",
    }),
    "dangling with parameters": (False, {
        "main.fcp": V + 'struct A { a @0: Q | unit("V"), }\n',
    }),
    "services devices and references": (True, {
        "main.fcp": V + "struct A { a @0: u8, }\nstruct B { a @0: [A, 2], }\n"
                    "service S @1 { method m(A) @0 returns B, }\ndevice d { id: 1, }\n"
                    "impl can for B as B2 { id: 3, signal a { mux: 1, }, }\n",
    }),
}


# --------------------------------------------------------------------------


def run_raw_case(label, accepted, spec, root):
    for rel, text in spec.items():
        path = root / rel
        path.parent.mkdir(parents=True, exist_ok=True)
        path.write_text(text)
    for attempt in range(2):
        result = get_fcp(root / "main.fcp", Logger({}, enable_file_paths=False))
        obs = observe(result, root)
        outcomes.append([f"{label}#{attempt}", to_lists(obs)])
        check(obs["ok"] == accepted, f"{label}: accepted={obs['ok']}: {obs.get('msgs')}")
        if obs["ok"]:
            check_tree_property(result.unwrap(), label)
        else:
            Logger(dict(spec), enable_file_paths=False).error(result.err())
    if len(spec) == 1:
        result = get_fcp_from_string(spec["main.fcp"], Logger({}, enable_file_paths=False))
        obs = observe(result, None)
        outcomes.append([f"{label}#string", to_lists(obs)])
        check(obs["ok"] == accepted, f"{label} (string): accepted={obs['ok']}")


def run_string_case(label, items):
    files = {Path("main.fcp"): items}
    src = render(items)[0]
    unique = not has_duplicates(files, Path("main.fcp"))
    # parse twice: a second call must not be influenced by the first
    for attempt in range(2):
        result = get_fcp_from_string(src, Logger({}, enable_file_paths=False))
        compare(f"{label}#{attempt}", files, Path("main.fcp"), result, None, unique)


def run_file_case(label, files, main, root):
    write_files(files)
    unique = not has_duplicates(files, main)
    for attempt in range(2):
        result = get_fcp(main, Logger({}, enable_file_paths=False))
        compare(f"{label}#{attempt}", files, main, result, root, unique)


def main():
    dump = None
    if "--dump" in sys.argv:
        dump = sys.argv[sys.argv.index("--dump") + 1]

    tmp = Path(os.path.realpath(tempfile.mkdtemp(prefix="c08demo")))
    try:
        for label, items in FIXED.items():
            run_string_case(f"fixed/{label}", items)

        # an error in one parse must not leak into the next one
        run_string_case("fixed/again backward struct", FIXED["backward struct"])

        for k, (label, spec) in enumerate(MODULE_CASES.items()):
            root = tmp / f"mod{k}"
            files = {root / rel: items for rel, items in spec.items()}
            run_file_case(f"modules/{label}", files, root / "main.fcp", root)

        for k, (label, (accepted, spec)) in enumerate(RAW_CASES.items()):
            run_raw_case(f"raw/{label}", accepted, spec, tmp / f"raw{k}")

        rng = random.Random(0xC08)
        for k in range(220):
            root = tmp / f"rand{k}"
            gen = Generator(rng, root)
            gen.gen_file(root / "main.fcp", 0)
            if len(gen.files) == 1 and rng.random() < 0.5:
                run_string_case(f"random/{k}", gen.files[root / "main.fcp"])
            else:
                run_file_case(f"random/{k}", gen.files, root / "main.fcp", root)

        # schemas shipped with the repository still parse and satisfy the property
        for path in sorted((FCP_ROOT / "tests" / "schemas" / "syntax").glob("*.fcp")):
            result = get_fcp(path, Logger({}, enable_file_paths=False))
            check(result.is_ok(), f"repo schema {path.name} rejected")
            if result.is_ok():
                check_tree_property(result.unwrap(), path.name)
                outcomes.append([f"repo/{path.name}", result.unwrap().to_dict()])
        example = FCP_ROOT / "example" / "example.fcp"
        if example.exists():
            result = get_fcp(example, Logger({}, enable_file_paths=False))
            if result.is_ok():
                check_tree_property(result.unwrap(), "example")
    finally:
        shutil.rmtree(tmp, ignore_errors=True)

    accepted = sum(1 for _, o in outcomes if isinstance(o, dict) and o.get("ok") is True)
    rejected = sum(1 for _, o in outcomes if isinstance(o, dict) and o.get("ok") is False)
    blob = json.dumps(outcomes, sort_keys=True)
    digest = hashlib.sha256(blob.encode()).hexdigest()
    if dump:
        with open(dump, "w") as f:
            json.dump(outcomes, f, sort_keys=True, indent=1)
    import fcp.parser

    print(f"fcp.parser under test: {fcp.parser.__file__}")
    print(f"cases: {len(outcomes)}  accepted: {accepted}  rejected: {rejected}")
    print(f"digest: {digest}")
    if not EXPECTED_DIGEST:
        print("no reference digest recorded")
    else:
        check(digest == EXPECTED_DIGEST, f"digest differs from reference {EXPECTED_DIGEST}")

    if failures:
        print(f"FAIL ({len(failures)} checks failed)")
        return 1
    print("PASS")
    return 0


if __name__ == "__main__":
    sys.exit(main())
