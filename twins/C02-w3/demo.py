#!/usr/bin/env python
"""Differential test for property C02 on the C++ side of the wire format.

Run with the worktree on PYTHONPATH, e.g.

    cd /tmp/twin3-C02 && PYTHONPATH=/tmp/twin3-C02/src:/tmp/twin3-C02/plugins/fcp_cpp \
        /venv/bin/python demo.py

What it does

  1. generates the C++ headers (fcp.h, buffer.h, decoders.h, ...) for a nested
     schema with the fcp_cpp plug-in found on PYTHONPATH,
  2. compiles a small driver against them (g++ -std=c++17, the warning flags the
     project's own C++ tests use),
  3. feeds it (a) the project's cross-language vectors, (b) a few hundred random
     values of the nested schema, (c) a few thousand raw fcp::Buffer operations
     (PushWord / GetWord of every width at every bit offset, both byte orders,
     signed and unsigned, pre-sized buffers, Insert, overwriting),
  4. and compares every answer with the Python codec (fcp.serde), with an
     independent reference encoder and with a bit-by-bit model of fcp::Buffer.

Prints PASS and exits 0 when everything agrees.  Needs g++ and nlohmann/json
(looked for in $JSON_INCLUDE, default /root/miniconda/include); $EXTRA_CXXFLAGS
is added to the compiler command line (e.g. -fsanitize=undefined,address).
"""

import json
import os
import random
import shutil
import struct
import subprocess
import sys
import tempfile
from pathlib import Path

from fcp.parser import get_fcp, get_fcp_from_string
from fcp.serde import decode, encode
from fcp.specs.type import (
    ArrayType,
    DoubleType,
    DynamicArrayType,
    EnumType,
    FloatType,
    OptionalType,
    SignedType,
    StringType,
    StructType,
    UnsignedType,
)
from fcp_cpp import Generator

FCP_ROOT = Path(os.environ.get("FCP_ROOT", "/tmp/twin3-C02"))
JSON_INCLUDE = os.environ.get("JSON_INCLUDE", "/root/miniconda/include")

SCHEMA = """version: "3"

enum Small { A = 0, B = 1, }
enum Wide { X = 0, Y = 5, Z = 300, }
enum Solo { ONLY = 0, }

struct Inner {
    a @ 0: u3,
    b @ 1: i5,
    c @ 2: Small,
}

struct Mid {
    tag @ 0: u1,
    inner @ 1: Inner,
    items @ 2: [Inner, 3],
    name @ 3: str,
}

struct Outer {
    flag @ 0: u1,
    mid @ 1: Mid,
    wide @ 2: Wide,
    big @ 3: u64,
    neg @ 4: i64,
    odd @ 5: i13,
    f @ 6: f32,
    d @ 7: f64,
    dyn @ 8: [Mid],
    opt @ 9: Optional[Inner],
    optdyn @ 10: Optional[[u7]],
    dynopt @ 11: [Optional[str]],
    matrix @ 12: [[u5, 2], 3],
    dd @ 13: [[i9]],
    solo @ 14: Solo,
    tail @ 15: u2,
}

struct Shuffled {
    z @ 2: u4,
    y @ 0: u4,
    x @ 1: u8,
}

struct Scalars {
    a @ 0: u1,
    b @ 1: i2,
    c @ 2: u7,
    d @ 3: i8,
    e @ 4: u13,
    f @ 5: i16,
    g @ 6: u31,
    h @ 7: i32,
    i @ 8: u33,
    j @ 9: i63,
    k @ 10: u64,
    l @ 11: i64,
}

struct Words {
    lead @ 0: u3,
    text @ 1: str,
    more @ 2: [str, 2],
    maybe @ 3: Optional[str],
}

/* the shapes of the cross-language vectors */
enum E { S0 = 0, S1 = 1, S2 = 2, }
struct V1 { s0 @ 0: u8, s1 @ 1: i8, }
struct V2 { s0 @ 0: u16, s1 @ 1: i16, }
struct V3 { s0 @ 0: u32, s1 @ 1: i32, }
struct V4 { s0 @ 0: u64, s1 @ 1: i64, }
struct V5 { s0 @ 0: f32, s1 @ 1: f64, }
struct V6 { s1 @ 0: E, }
struct V7 { s1 @ 0: [u8, 4], }
struct V8 { s1 @ 0: [u16, 4], }
struct V9 { s1 @ 0: [E, 4], }
struct O1 { s1 @ 0: str, }
struct O2 { s1 @ 0: [u8], }
struct O3 { s1 @ 0: [E], }
struct O4 { s1 @ 0: Optional[u8], }
"""

# name of the struct above with the same shape as <suite>/<datatype> in fcp_tests.json
VECTOR_SHAPES = {
    ("basic", "S1"): "V1", ("basic", "S2"): "V2", ("basic", "S3"): "V3",
    ("basic", "S4"): "V4", ("basic", "S5"): "V5", ("basic", "S6"): "V6",
    ("basic", "S7"): "V7", ("basic", "S8"): "V8", ("basic", "S9"): "V9",
    ("optional_features", "S1"): "O1", ("optional_features", "S2"): "O2",
    ("optional_features", "S3"): "O3", ("optional_features", "S4"): "O4",
}  # fmt: skip

DRIVER = r"""
#include <iostream>
#include <stdexcept>
#include "fcp.h"

using fcp::Buffer;
using fcp::Endianess;

static std::vector<std::uint8_t> FromHex(const std::string& hex) {
    std::vector<std::uint8_t> out;
    if (hex == "-") return out;
    for (std::size_t i = 0; i + 1 < hex.size(); i += 2) {
        out.push_back(static_cast<std::uint8_t>(std::stoul(hex.substr(i, 2), nullptr, 16)));
    }
    return out;
}

static std::string ToHex(const std::vector<std::uint8_t>& data) {
    static const char* digits = "0123456789abcdef";
    std::string out;
    for (auto b : data) {
        out.push_back(digits[b >> 4]);
        out.push_back(digits[b & 15]);
    }
    return out.empty() ? "-" : out;
}

template <std::size_t N>
static void PushStatic(Buffer& buffer, std::size_t width, std::uint64_t value, Endianess e) {
    if (width == N) {
        buffer.PushWord<std::uint64_t, N>(value, e);
    } else if constexpr (N > 1) {
        PushStatic<N - 1>(buffer, width, value, e);
    }
}

static void RunBuffer(std::istream& in) {
    // one script = one Buffer, ops until "end"
    std::unique_ptr<Buffer> buffer;
    std::string op;
    while (in >> op && op != "end") {
        try {
            if (op == "new") {
                std::size_t size; in >> size;
                buffer = std::make_unique<Buffer>(size);
            } else if (op == "from") {
                std::string hex; in >> hex;
                buffer = std::make_unique<Buffer>(FromHex(hex));
            } else if (op == "pushu" || op == "pushs" || op == "pusht" || op == "push32" || op == "push8") {
                std::size_t width; std::uint64_t value; std::string order;
                in >> width >> value >> order;
                auto e = order == "L" ? Endianess::Little : Endianess::Big;
                if (op == "pushu") buffer->PushWord(value, width, e);
                else if (op == "pushs") buffer->PushWord(static_cast<std::int64_t>(value), width, e);
                else if (op == "push32") buffer->PushWord(static_cast<std::int32_t>(value), width, e);
                else if (op == "push8") buffer->PushWord(static_cast<std::int8_t>(value), width, e);
                else PushStatic<64>(*buffer, width, value, e);
            } else if (op == "get") {
                std::size_t width; int sign; std::string order;
                in >> width >> sign >> order;
                auto e = order == "L" ? Endianess::Little : Endianess::Big;
                std::cout << buffer->GetWord(width, sign != 0, e) << " ";
            } else if (op == "ins") {
                std::string hex; in >> hex;
                auto bytes = FromHex(hex);
                buffer->Insert(bytes.begin(), bytes.end());
            } else if (op == "dump") {
                std::cout << ToHex(buffer->GetData()) << " ";
            }
        } catch (const std::runtime_error&) {
            std::cout << "throw ";
        }
    }
    std::cout << std::endl;
}

int main() {
    fcp::StaticSchema schema;
    std::string cmd;
    while (std::cin >> cmd) {
        if (cmd == "E") {
            std::string name, text;
            std::cin >> name;
            std::getline(std::cin, text);
            auto encoded = schema.EncodeJson(name, fcp::json::parse(text));
            std::cout << (encoded.has_value() ? ToHex(encoded.value()) : std::string("none")) << std::endl;
        } else if (cmd == "D") {
            std::string name, hex;
            std::cin >> name >> hex;
            auto decoded = schema.DecodeJson(name, FromHex(hex));
            std::cout << (decoded.has_value() ? decoded.value().dump() : std::string("none")) << std::endl;
        } else if (cmd == "B") {
            RunBuffer(std::cin);
        }
    }
    return 0;
}
"""

WARNINGS = [
    "-Werror", "-Wall", "-Wextra", "-Wformat-nonliteral", "-Wcast-align", "-Wpointer-arith",
    "-Winline", "-Wundef", "-Wcast-qual", "-Wshadow", "-Wwrite-strings", "-Wno-unused-parameter",
    "-Wfloat-equal", "-pedantic",
]  # fmt: skip

checks = 0


def check(cond, what):
    global checks
    checks += 1
    if not cond:
        print("FAIL:", what)
        sys.exit(1)


# --------------------------------------------------------------------------
# reference implementation of the canonical wire format
# --------------------------------------------------------------------------


def enum_bits(fcp, name):
    enum = [e for e in fcp.enums if e.name == name][0]
    top = max([e.value for e in enum.enumeration], default=0)
    return 1 if top in (0, 1) else top.bit_length()


def word(out, value, nbits):
    value &= (1 << nbits) - 1
    for i in range(nbits):
        out.append((value >> i) & 1)


def ref_bits(fcp, ty, value, out):
    if isinstance(ty, (UnsignedType, SignedType)):
        word(out, value, int(ty.name[1:]))
    elif isinstance(ty, FloatType):
        word(out, int.from_bytes(struct.pack("<f", value), "little"), 32)
    elif isinstance(ty, DoubleType):
        word(out, int.from_bytes(struct.pack("<d", value), "little"), 64)
    elif isinstance(ty, StringType):
        word(out, len(value), 32)
        for ch in value:
            word(out, ord(ch), 8)
    elif isinstance(ty, EnumType):
        word(out, value, enum_bits(fcp, ty.name))
    elif isinstance(ty, StructType):
        ref_struct_bits(fcp, ty.name, value, out)
    elif isinstance(ty, ArrayType):
        for i in range(ty.size):
            ref_bits(fcp, ty.underlying_type, value[i], out)
    elif isinstance(ty, DynamicArrayType):
        word(out, len(value), 32)
        for x in value:
            ref_bits(fcp, ty.underlying_type, x, out)
    elif isinstance(ty, OptionalType):
        word(out, 0 if value is None else 1, 8)
        if value is not None:
            ref_bits(fcp, ty.underlying_type, value, out)
    else:
        raise AssertionError(ty)


def ref_struct_bits(fcp, name, value, out):
    st = [s for s in fcp.structs if s.name == name][0]
    by_id = {f.field_id: f for f in st.fields}
    for fid in sorted(by_id):
        ref_bits(fcp, by_id[fid].type, value[by_id[fid].name], out)


def ref_encode(fcp, name, value):
    bits = []
    ref_struct_bits(fcp, name, value, bits)
    while len(bits) % 8:
        bits.append(0)
    return bytearray(
        sum(bits[i + k] << k for k in range(8)) for i in range(0, len(bits), 8)
    )


# --------------------------------------------------------------------------
# random values (JSON friendly: finite floats, printable 7-bit text)
# --------------------------------------------------------------------------


def f32(x):
    return struct.unpack("<f", struct.pack("<f", x))[0]


def rand_value(rng, fcp, ty):
    if isinstance(ty, UnsignedType):
        n = int(ty.name[1:])
        return rng.choice([0, (1 << n) - 1, rng.randrange(1 << n), 1 << (n - 1)])
    if isinstance(ty, SignedType):
        n = int(ty.name[1:])
        lo, hi = -(1 << (n - 1)), (1 << (n - 1)) - 1
        return rng.choice([0, -1, lo, hi, rng.randint(lo, hi)])
    if isinstance(ty, FloatType):
        return f32(rng.choice([0.0, 1.5, -2.25, 3.0e38, 1e-40, rng.uniform(-1e6, 1e6)]))
    if isinstance(ty, DoubleType):
        return rng.choice([0.0, 1e308, 5e-324, 3.141592653589793, rng.uniform(-1e12, 1e12)])
    if isinstance(ty, StringType):
        return "".join(chr(rng.randrange(32, 127)) for _ in range(rng.choice([0, 1, 2, 7, 19])))
    if isinstance(ty, EnumType):
        enum = [e for e in fcp.enums if e.name == ty.name][0]
        return rng.choice([e.value for e in enum.enumeration])
    if isinstance(ty, StructType):
        return rand_struct(rng, fcp, ty.name)
    if isinstance(ty, ArrayType):
        return [rand_value(rng, fcp, ty.underlying_type) for _ in range(ty.size)]
    if isinstance(ty, DynamicArrayType):
        return [rand_value(rng, fcp, ty.underlying_type) for _ in range(rng.choice([0, 0, 1, 2, 3, 5]))]
    if isinstance(ty, OptionalType):
        return None if rng.random() < 0.4 else rand_value(rng, fcp, ty.underlying_type)
    raise AssertionError(ty)


def rand_struct(rng, fcp, name):
    st = [s for s in fcp.structs if s.name == name][0]
    return {f.name: rand_value(rng, fcp, f.type) for f in st.fields}


def is_lowest(fcp, ty, value):
    """Does the value contain the most negative number of some signed field?"""
    if isinstance(ty, SignedType):
        return value == -(1 << (int(ty.name[1:]) - 1))
    if isinstance(ty, StructType):
        st = [s for s in fcp.structs if s.name == ty.name][0]
        return any(is_lowest(fcp, f.type, value[f.name]) for f in st.fields)
    if isinstance(ty, (ArrayType, DynamicArrayType)):
        return any(is_lowest(fcp, ty.underlying_type, v) for v in value)
    if isinstance(ty, OptionalType):
        return value is not None and is_lowest(fcp, ty.underlying_type, value)
    return False


# --------------------------------------------------------------------------
# bit-by-bit model of fcp::Buffer
# --------------------------------------------------------------------------

M64 = (1 << 64) - 1


def from_big_endian(value, bitlength):
    if bitlength not in (8, 16, 32, 64):
        raise RuntimeError
    nbytes = bitlength // 8
    value &= M64
    if bitlength == 8:
        return value
    low = value & ((1 << bitlength) - 1)
    return int.from_bytes(low.to_bytes(nbytes, "little"), "big")


class ModelBuffer:
    def __init__(self, data):
        self.data = list(data)
        self.bit = 0

    def push(self, value, width, order, tbits=64, signed=False):
        # value arrives as T (two's complement, tbits wide)
        value &= (1 << tbits) - 1
        if order == "B":
            value = from_big_endian(value if not signed or value < (1 << (tbits - 1)) else value | (M64 ^ ((1 << tbits) - 1)), width) & ((1 << tbits) - 1)
        if signed and value >> (tbits - 1):
            value |= M64 ^ ((1 << tbits) - 1)  # arithmetic shift of a negative T
        for i in range(width):
            addr = self.bit + i
            if addr >> 3 >= len(self.data):
                self.data.append(0)
            b = (value >> i) & 1
            self.data[addr >> 3] = (self.data[addr >> 3] & ~(1 << (addr & 7)) & 0xFF) | (b << (addr & 7))
        self.bit += width

    def get(self, width, sign, order):
        result = 0
        for i in range(width):
            addr = self.bit + i
            result |= ((self.data[addr >> 3] >> (addr & 7)) & 1) << i
        mask = 1 << (width - 1)
        if sign and (result >> (width - 1)) == 1 and width != 64:
            result = ((result ^ mask) - mask) & M64
        self.bit += width
        return result if order == "L" else from_big_endian(result, width)


def buffer_scripts(rng, count):
    """Random scripts for the driver together with what they have to print."""
    scripts = []
    for n in range(count):
        ops, expected = [], []
        kind = rng.random()
        if kind < 0.5:
            model = ModelBuffer([])
            ops.append("new 0")
        elif kind < 0.75:
            size = rng.choice([1, 7, 8, 9, 64, 100])
            model = ModelBuffer([0] * ((size + 7) // 8))
            ops.append(f"new {size}")
        else:
            data = bytes(rng.randrange(256) for _ in range(rng.randrange(1, 24)))
            model = ModelBuffer(data)
            ops.append("from " + data.hex())
        for _ in range(rng.randrange(1, 30)):
            r = rng.random()
            readable = len(model.data) * 8 - model.bit
            if r < 0.55 or readable <= 0:
                width = rng.choice([rng.randrange(1, 65), rng.choice([1, 7, 8, 9, 16, 31, 32, 33, 63, 64])])
                order = "B" if rng.random() < 0.25 else "L"
                value = rng.choice([0, M64, rng.getrandbits(64), rng.getrandbits(width), 1 << (width - 1), 0xAAAAAAAAAAAAAAAA, 0x0123456789ABCDEF])
                op = rng.choice(["pushu", "pushs", "pusht", "pusht", "push32", "push8"])
                if op == "push32":
                    width = min(width, 32)
                if op == "push8":
                    width = min(width, 8)
                tbits, signed = {"pushu": (64, False), "pushs": (64, True), "pusht": (64, False), "push32": (32, True), "push8": (8, True)}[op]
                ops.append(f"{op} {width} {value} {order}")
                try:
                    model.push(value, width, order, tbits, signed)
                except RuntimeError:
                    expected.append("throw")
            elif r < 0.85:
                width = min(readable, rng.choice([rng.randrange(1, 65), 1, 8, 16, 32, 64]))
                order = "B" if rng.random() < 0.25 else "L"
                sign = rng.randrange(2)
                ops.append(f"get {width} {sign} {order}")
                try:
                    expected.append(str(model.get(width, sign, order)))
                except RuntimeError:
                    # (the bits are consumed all the same: the byte order is looked at last)
                    expected.append("throw")
            elif r < 0.92:
                data = bytes(rng.randrange(256) for _ in range(rng.randrange(0, 5)))
                ops.append("ins " + (data.hex() or "-"))
                model.data += list(data)
            else:
                ops.append("dump")
                expected.append(bytes(model.data).hex() or "-")
        ops.append("dump")
        expected.append(bytes(model.data).hex() or "-")
        scripts.append(("B " + " ".join(ops) + " end", " ".join(expected)))
    return scripts


def exhaustive_scripts():
    """Every width at every bit offset, written then read back, little endian."""
    scripts = []
    for offset in range(0, 17):
        for width in range(1, 65):
            value = (0xF0F1E2D3C4B5A697 ^ (width * 0x9E3779B97F4A7C15)) & M64
            for op in ("pushu", "pusht", "pushs"):
                model = ModelBuffer([])
                ops = ["new 0"]
                if offset:
                    ops.append(f"pushu {offset} {(1 << offset) - 1} L")
                    model.push((1 << offset) - 1, offset, "L")
                ops.append(f"{op} {width} {value} L")
                model.push(value, width, "L", 64, op == "pushs")
                ops.append("pushu 3 5 L")
                model.push(5, 3, "L")
                ops.append("dump")
                expected = [bytes(model.data).hex()]
                reader = ModelBuffer(model.data)
                ops.append("from " + bytes(model.data).hex())
                if offset:
                    ops.append(f"get {offset} 0 L")
                    expected.append(str(reader.get(offset, 0, "L")))
                sign = width % 2
                ops.append(f"get {width} {sign} L")
                expected.append(str(reader.get(width, sign, "L")))
                ops.append("get 3 1 L")
                expected.append(str(reader.get(3, 1, "L")))
                scripts.append(("B " + " ".join(ops) + " end", " ".join(expected)))
    return scripts


# --------------------------------------------------------------------------


def build(fcp, workdir):
    for result in Generator().generate(fcp, {"output": str(workdir)}):
        if result["type"] == "file":
            Path(result["path"]).write_text(str(result["contents"]))
    (workdir / "driver.cpp").write_text(DRIVER)
    cmd = ["g++", "--std=c++17"] + WARNINGS + os.environ.get("EXTRA_CXXFLAGS", "").split() + ["-isystem", JSON_INCLUDE, "-I", str(workdir), str(workdir / "driver.cpp"), "-o", str(workdir / "driver")]
    r = subprocess.run(cmd, capture_output=True, text=True)
    if r.returncode != 0:
        print(r.stdout + r.stderr)
        print("FAIL: the generated code does not compile")
        sys.exit(1)
    return workdir / "driver"


CONSTANTS = {"ULONG_MAX": 2**64 - 1, "LLONG_MAX": 2**63 - 1, "LLONG_MIN": -(2**63)}


def vector_value(fcp, ty, text):
    if isinstance(ty, OptionalType):
        return None if text is None else vector_value(fcp, ty.underlying_type, text)
    if isinstance(ty, (ArrayType, DynamicArrayType)):
        return [vector_value(fcp, ty.underlying_type, t) for t in text]
    if isinstance(ty, (UnsignedType, SignedType)):
        return CONSTANTS[text] if text in CONSTANTS else int(text, 0)
    if isinstance(ty, (FloatType, DoubleType)):
        return float(text)
    if isinstance(ty, EnumType):
        enum = [e for e in fcp.enums if e.name == ty.name][0]
        return [e.value for e in enum.enumeration if e.name == text][0]
    return text


def main():
    fcp = get_fcp_from_string(SCHEMA).unwrap()
    workdir = Path(tempfile.mkdtemp(prefix="c02_cpp_"))
    try:
        driver = build(fcp, workdir)
        rng = random.Random(424242)

        # (question for the driver, expected answer, description)
        cases = []

        # (a) cross-language vectors, against C++ and Python alike
        std = FCP_ROOT / "tests" / "standardized"
        for suite in json.loads((std / "fcp_tests.json").read_text()):
            vec_fcp = get_fcp(std / suite["schema"]).unwrap()
            for test in suite["tests"]:
                shape = VECTOR_SHAPES[(suite["name"], test["datatype"])]
                st = [s for s in vec_fcp.structs if s.name == test["datatype"]][0]
                value = {}
                for xpath, text in test["decoded"].items():
                    field = [f for f in st.fields if f.name == xpath.split(":")[1]][0]
                    value[field.name] = vector_value(vec_fcp, field.type, text)
                wire = bytearray(int(b, 0) if isinstance(b, str) else b for b in test["encoded"])
                what = suite["name"] + "/" + test["name"]
                check(encode(vec_fcp, test["datatype"], value) == wire, what + ": python encode != vector")
                check(encode(fcp, shape, value) == wire, what + ": python encode (twin struct) != vector")
                cases.append((f"E {shape} {json.dumps(value)}", wire.hex(), what + ": C++ encode"))
                cases.append((f"D {shape} {wire.hex()}", value, what + ": C++ decode"))

        # (b) random values of the nested schema
        for name, rounds in (("Outer", 120), ("Mid", 60), ("Inner", 40), ("Shuffled", 20), ("Scalars", 120), ("Words", 60)):
            for i in range(rounds):
                value = rand_struct(rng, fcp, name)
                wire = ref_encode(fcp, name, value)
                what = f"{name}#{i}"
                check(encode(fcp, name, value) == wire, what + ": python encode != reference")
                if not is_lowest(fcp, StructType(name), value):
                    check(decode(fcp, name, wire) == value, what + ": python decode")
                cases.append((f"E {name} {json.dumps(value)}", wire.hex(), what + ": C++ encode"))
                cases.append((f"D {name} {wire.hex()}", value, what + ": C++ decode"))
                # trailing bytes are ignored by the decoder
                cases.append((f"D {name} {wire.hex()}a55a", value, what + ": C++ decode, trailing bytes"))

        # (c) raw buffer operations
        for question, answer in exhaustive_scripts() + buffer_scripts(rng, 1500):
            cases.append((question, answer, "buffer script " + question[:70]))

        r = subprocess.run([str(driver)], input="\n".join(c[0] for c in cases) + "\n", capture_output=True, text=True)
        check(r.returncode == 0, f"driver exit code {r.returncode}: {r.stderr[:500]}")
        lines = r.stdout.split("\n")
        check(len(lines) == len(cases) + 1, f"{len(cases)} questions, {len(lines) - 1} answers")
        for (question, answer, what), line in zip(cases, lines):
            if question[0] == "D":
                check(line != "none" and json.loads(line) == answer, f"{what}: {line} != {json.dumps(answer)}")
            else:
                check(line.strip() == answer, f"{what}\n   asked {question}\n   got    {line}\n   wanted {answer}")
    finally:
        shutil.rmtree(workdir, ignore_errors=True)

    print(f"PASS ({checks} checks)")


if __name__ == "__main__":
    main()
