#!/venv/bin/python
"""C17 demo 1: generated C++ must not depend on what was generated before.

The same schema is parsed twice in this process.  From the first AST only the
C++ files are generated; from the second AST the DBC files are generated first
and the C++ files afterwards.  Apart from the generation-stamp comment line the
two sets of C++ files must be identical.

Run with
  PYTHONPATH=$R/src:$R/plugins/fcp_dbc:$R/plugins/fcp_can_c:$R/plugins/fcp_cpp:$R/plugins/fcp_nop
"""
import os
import sys
import tempfile

from fcp.parser import get_fcp
from fcp_cpp import Generator as CppGenerator
from fcp_dbc import Generator as DbcGenerator

# fields are declared in an order that differs from the order of their field ids
SCHEMA = """version: "3"

struct Position {
    y @1: i16,
    x @0: i16,
}

struct Telemetry {
    speed @2: u16,
    position @0: Position,
    flags @1: u8,
}

impl can for Telemetry {
    id: 42,
    device: "ecu",
}
"""


def strip_stamp(text):
    return "\n".join(
        line for line in text.split("\n") if not line.startswith("// Generated using fcp")
    )


def cpp_files(fcp):
    results = CppGenerator().generate(fcp, {"output": "/tmp/fcp_demo_out"})
    return {os.path.basename(str(r["path"])): strip_stamp(r["contents"]) for r in results}


def main():
    with tempfile.TemporaryDirectory() as d:
        path = os.path.join(d, "schema.fcp")
        with open(path, "w") as f:
            f.write(SCHEMA)

        fresh = cpp_files(get_fcp(path).unwrap())

        fcp = get_fcp(path).unwrap()
        dbc = DbcGenerator().generate(fcp, {"output": "/tmp/fcp_demo_out"})
        assert len(dbc) == 1
        after_dbc = cpp_files(fcp)

    if set(fresh) != set(after_dbc):
        print("FAIL: different set of files", sorted(set(fresh) ^ set(after_dbc)))
        return 1

    differing = sorted(name for name in fresh if fresh[name] != after_dbc[name])
    if differing:
        print("FAIL: C++ files differ when the DBC generator ran before:", differing)
        a = fresh[differing[0]].split("\n")
        b = after_dbc[differing[0]].split("\n")
        for la, lb in zip(a, b):
            if la != lb:
                print("  fresh    :", la.strip())
                print("  after dbc:", lb.strip())
                break
        return 1

    print("PASS")
    return 0


if __name__ == "__main__":
    sys.exit(main())
