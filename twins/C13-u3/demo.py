#!/usr/bin/env python
"""Differential test for property C13.

For a schema that uses every container kind, signed negatives and sub-byte
fields, the generated C++ run-time codec (DynamicSchema, loaded from the binary
reflection produced by the Python tool) is compared with the statically
generated C++ codec (StaticSchema) and with the Python reference codec:

  * encode: static bytes == dynamic bytes == python bytes
  * decode: static JSON and dynamic JSON equal the original value
            (enumerators numbered in the static codec, named in the dynamic one)
  * loader: bad tag / every version but 3000 are rejected, unknown struct names
            give nullopt from both codecs, results are stable over repeated calls
  * error paths of the run-time codec on a hand-made reflection binary (unknown
    type kind, unknown struct / enum name, directly and inside containers)
  * the bit buffer (every width at every offset, fixed-size and run-time
    PushWord, big endian, overwrite of pre-filled storage, Insert, zero width)
  * the Python codec on hand-computed byte strings and on error inputs

Run with PYTHONPATH pointing at the worktree (see README of the task); the env
var FCP_ROOT (default /tmp/twin2-C13) is only used to locate the shipped test
schema.  Prints PASS and exits 0 when everything agrees.
"""

import json
import os
import random
import shutil
import struct
import subprocess
import sys
import tempfile
from pathlib import Path

from fcp.parser import get_fcp
from fcp.reflection import get_reflection_schema
import fcp.serde as fcp_serde
from fcp.serde import encode as py_encode
from fcp.serde import decode as py_decode
from fcp_cpp import Generator

FCP_ROOT = Path(os.environ.get("FCP_ROOT", "/tmp/twin2-C13"))
JSON_INCLUDE = os.environ.get("JSON_INCLUDE", "/root/miniconda/include")

SCHEMA = """version: "3"

enum Mode {
    Off = 0,
    On = 1,
    Auto = 2,
    Fault = 5,
}

enum Flag {
    No = 0,
    Yes = 1,
}

enum Wide {
    First = 0,
    Second = 1,
    Last = 255,
}

enum Huge {
    Zero = 0,
    Mid = 300,
    Top = 65535,
}

struct Inner {
    a @ 0: u8,
    b @ 1: i16,
}

struct Nums {
    n1 @ 0: u8,
    n2 @ 1: i8,
    n3 @ 2: u16,
    n4 @ 3: i16,
    n5 @ 4: u24,
    n6 @ 5: i24,
    n7 @ 6: u32,
    n8 @ 7: i32,
    n9 @ 8: u64,
    n10 @ 9: i64,
    n11 @ 10: u40,
    n12 @ 11: i48,
}

struct Floats {
    f @ 0: f32,
    d @ 1: f64,
}

struct Text {
    s @ 0: str,
    t @ 1: str,
}

struct Arr {
    a @ 0: [u8, 4],
    b @ 1: [i16, 3],
    c @ 2: [[i8, 2], 2],
    e @ 3: [Wide, 2],
}

struct Dyn {
    a @ 0: [u8],
    b @ 1: [i32],
    c @ 2: [Inner],
    d @ 3: [str],
    e @ 4: [[i16]],
}

struct Opt {
    a @ 0: Optional[u8],
    b @ 1: Optional[i32],
    c @ 2: Optional[Inner],
    d @ 3: Optional[str],
    e @ 4: Optional[Huge],
}

struct Nested {
    i @ 0: Inner,
    arr @ 1: [Inner, 2],
    o @ 2: Optional[[u16]],
    w @ 3: Wide,
    h @ 4: Huge,
}

struct Reordered {
    third @ 2: i16,
    first @ 0: u8,
    second @ 1: Wide,
}

struct TailEnum {
    x @ 0: u16,
    m @ 1: Mode,
}

struct TailSigned {
    x @ 0: i32,
    n @ 1: i5,
}

struct Packed {
    a @ 0: u3,
    b @ 1: i5,
    c @ 2: Mode,
    d @ 3: i13,
    e @ 4: Flag,
    f @ 5: u7,
}

struct PackedArr {
    a @ 0: [i3, 5],
    b @ 1: u1,
    c @ 2: [Mode, 3],
    d @ 3: i7,
}
"""

ENUMS = {
    "Mode": {"Off": 0, "On": 1, "Auto": 2, "Fault": 5},
    "Flag": {"No": 0, "Yes": 1},
    "Wide": {"First": 0, "Second": 1, "Last": 255},
    "Huge": {"Zero": 0, "Mid": 300, "Top": 65535},
}


class E:
    """An enumerator: number for the static codec, name for the dynamic one."""

    def __init__(self, enum, name):
        self.enum, self.name = enum, name


def render(v, dynamic):
    if isinstance(v, E):
        return v.name if dynamic else ENUMS[v.enum][v.name]
    if isinstance(v, dict):
        return {k: render(x, dynamic) for k, x in v.items()}
    if isinstance(v, list):
        return [render(x, dynamic) for x in v]
    return v


def f32(x):
    return struct.unpack("f", struct.pack("f", x))[0]


def srange(bits):
    return -(2 ** (bits - 1)), 2 ** (bits - 1) - 1


def build_cases():
    rnd = random.Random(1313)
    cases = []  # (struct, value, check_encode)

    def add(name, value, enc=True):
        cases.append((name, value, enc))

    widths = [8, 8, 16, 16, 24, 24, 32, 32, 64, 64, 40, 48]
    signed = [False, True] * 5 + [False, True]

    def nums(pick):
        return {
            "n%d" % (i + 1): pick(w, s) for i, (w, s) in enumerate(zip(widths, signed))
        }

    add("Nums", nums(lambda w, s: 0))
    add("Nums", nums(lambda w, s: srange(w)[0] if s else 2**w - 1))
    add("Nums", nums(lambda w, s: srange(w)[1] if s else 2 ** (w - 1)))
    add("Nums", nums(lambda w, s: -1 if s else 1))
    for _ in range(6):
        add(
            "Nums",
            nums(
                lambda w, s: rnd.randint(*srange(w)) if s else rnd.randint(0, 2**w - 1)
            ),
        )

    for f, d in [(0.0, 0.0), (0.5, -1.25), (-3.75, 1e300), (f32(3.14159), 2.718281828), (f32(-1e-20), -0.0)]:
        add("Floats", {"f": f, "d": d})

    add("Text", {"s": "", "t": ""})
    add("Text", {"s": "a", "t": "hello, world"})
    add("Text", {"s": "x" * 300, "t": "~ !\"#$%&'()*+,-./0123456789"})

    add("Arr", {"a": [0, 0, 0, 0], "b": [0, 0, 0], "c": [[0, 0], [0, 0]], "e": [E("Wide", "First"), E("Wide", "First")]})
    add("Arr", {"a": [255, 1, 128, 127], "b": [-32768, 32767, -1], "c": [[-128, 127], [-1, 1]], "e": [E("Wide", "Last"), E("Wide", "Second")]})

    add("Dyn", {"a": [], "b": [], "c": [], "d": [], "e": []})
    add("Dyn", {
        "a": [1, 2, 3, 255],
        "b": [-2147483648, 2147483647, -1, 0],
        "c": [{"a": 7, "b": -300}, {"a": 255, "b": 32767}, {"a": 0, "b": -32768}],
        "d": ["", "abc", "z"],
        "e": [[], [-1], [1, -2, 3]],
    })
    add("Dyn", {"a": list(range(200)), "b": [rnd.randint(*srange(32)) for _ in range(50)], "c": [], "d": ["q" * 40], "e": [[-32768] * 9]})

    add("Opt", {"a": None, "b": None, "c": None, "d": None, "e": None})
    add("Opt", {"a": 9, "b": -123456, "c": {"a": 1, "b": -2}, "d": "some", "e": E("Huge", "Mid")})
    add("Opt", {"a": 255, "b": None, "c": {"a": 0, "b": 0}, "d": None, "e": E("Huge", "Top")})
    add("Opt", {"a": None, "b": -2147483648, "c": None, "d": "x", "e": E("Huge", "Zero")})

    add("Nested", {
        "i": {"a": 200, "b": -200},
        "arr": [{"a": 1, "b": -1}, {"a": 2, "b": -32768}],
        "o": [65535, 0, 1],
        "w": E("Wide", "Last"),
        "h": E("Huge", "Mid"),
    })
    add("Nested", {
        "i": {"a": 0, "b": 0},
        "arr": [{"a": 0, "b": 0}, {"a": 0, "b": 0}],
        "o": None,
        "w": E("Wide", "First"),
        "h": E("Huge", "Top"),
    })

    add("Reordered", {"third": -2, "first": 17, "second": E("Wide", "Second")})
    add("Reordered", {"third": 32767, "first": 255, "second": E("Wide", "Last")})

    for m in ENUMS["Mode"]:
        add("TailEnum", {"x": rnd.randint(0, 65535), "m": E("Mode", m)})
    for n in [-16, -1, 0, 1, 15, -7]:
        add("TailSigned", {"x": rnd.randint(*srange(32)), "n": n})

    # Sub-byte fields in the middle of a message: bytes come from the Python
    # reference encoder, both C++ codecs must decode them to the same value.
    modes = list(ENUMS["Mode"])
    flags = list(ENUMS["Flag"])
    packed = [
        {"a": 0, "b": 0, "c": E("Mode", "Off"), "d": 0, "e": E("Flag", "No"), "f": 0},
        {"a": 7, "b": -16, "c": E("Mode", "Fault"), "d": -4096, "e": E("Flag", "Yes"), "f": 127},
        {"a": 7, "b": 15, "c": E("Mode", "Auto"), "d": 4095, "e": E("Flag", "Yes"), "f": 127},
        {"a": 1, "b": -1, "c": E("Mode", "On"), "d": -1, "e": E("Flag", "No"), "f": 1},
    ]
    for _ in range(12):
        packed.append({
            "a": rnd.randint(0, 7),
            "b": rnd.randint(-16, 15),
            "c": E("Mode", rnd.choice(modes)),
            "d": rnd.randint(-4096, 4095),
            "e": E("Flag", rnd.choice(flags)),
            "f": rnd.randint(0, 127),
        })
    for p in packed:
        add("Packed", p, enc=False)
    for _ in range(8):
        add("PackedArr", {
            "a": [rnd.randint(-4, 3) for _ in range(5)],
            "b": rnd.randint(0, 1),
            "c": [E("Mode", rnd.choice(modes)) for _ in range(3)],
            "d": rnd.randint(-64, 63),
        }, enc=False)
    add("PackedArr", {"a": [-4, 3, -1, 0, -4], "b": 1, "c": [E("Mode", "Fault")] * 3, "d": -64}, enc=False)
    return cases


DRIVER = r"""
#include <fstream>
#include <iostream>
#include <sstream>
#include <cmath>
#include <limits>
#include "fcp.h"
#include "dynamic.h"

using json = nlohmann::json;

static int failures = 0;
#define CHECK(cond, what) do { if (!(cond)) { failures++; std::cerr << "FAIL: " << what << std::endl; } } while (0)

static std::string slurp(const std::string& p) {
    std::ifstream f(p, std::ios::binary);
    std::stringstream ss; ss << f.rdbuf(); return ss.str();
}

int main() {
    auto bin = slurp("output.bin");
    fcp::dynamic::DynamicSchema dyn{};
    dyn.LoadBinarySchema(bin);
    fcp::StaticSchema sta{};

    // loader rejects wrong tag / version with the documented messages
    {
        auto bad = bin; bad[0] = 'x';
        fcp::dynamic::DynamicSchema d2{};
        std::string msg;
        try { d2.LoadBinarySchema(bad); } catch (const std::runtime_error& e) { msg = e.what(); }
        CHECK(msg == "Invalid schema", "bad tag: " << msg);
    }
    {
        auto bad = bin; bad[3] = static_cast<char>(bad[3] + 1);
        fcp::dynamic::DynamicSchema d2{};
        std::string msg;
        try { d2.LoadBinarySchema(bad); } catch (const std::runtime_error& e) { msg = e.what(); }
        CHECK(msg == "Invalid schema version", "bad version: " << msg);
    }
    // the file loader is the same thing
    fcp::dynamic::DynamicSchema dyn_file{};
    dyn_file.LoadBinarySchemaFromFile("output.bin");

    CHECK(!dyn.EncodeJson("NoSuchStruct", json::object()).has_value(), "dynamic unknown encode");
    CHECK(!sta.EncodeJson("NoSuchStruct", json::object()).has_value(), "static unknown encode");
    CHECK(!dyn.DecodeJson("NoSuchStruct", {1, 2, 3}).has_value(), "dynamic unknown decode");
    CHECK(!sta.DecodeJson("NoSuchStruct", {1, 2, 3}).has_value(), "static unknown decode");

    // bit buffer: every width 1..64 at every bit offset 0..7, signed and unsigned,
    // against an independent reference; PushWord/GetWord round trip
    {
        std::uint64_t seed = 0x9E3779B97F4A7C15ULL;
        auto next = [&seed]() { seed ^= seed << 13; seed ^= seed >> 7; seed ^= seed << 17; return seed; };
        for (unsigned width = 1; width <= 64; width++) {
            for (unsigned offset = 0; offset < 8; offset++) {
                for (int rep = 0; rep < 6; rep++) {
                    std::uint64_t raw = rep == 0 ? 0 : rep == 1 ? ~0ULL : rep == 2 ? (1ULL << (width - 1)) : next();
                    std::uint64_t field = width == 64 ? raw : (raw & ((1ULL << width) - 1));
                    fcp::Buffer w{0};
                    if (offset > 0) { w.PushWord(next(), offset); }
                    w.PushWord(field, width);
                    w.PushWord(next(), 5);
                    auto bytes = w.GetData();
                    CHECK(bytes.size() == (offset + width + 5 + 7) / 8, "buffer size w=" << width << " o=" << offset);
                    // reference read straight from the bytes
                    std::uint64_t ref = 0;
                    for (unsigned i = 0; i < width; i++) {
                        unsigned bit = offset + i;
                        ref |= static_cast<std::uint64_t>((bytes[bit >> 3] >> (bit & 7)) & 1) << i;
                    }
                    CHECK(ref == field, "push w=" << width << " o=" << offset);
                    std::int64_t sref = static_cast<std::int64_t>(ref);
                    if (width < 64 && ((ref >> (width - 1)) & 1)) {
                        sref = static_cast<std::int64_t>(static_cast<__int128>(ref) - (static_cast<__int128>(1) << width));
                    }
                    fcp::Buffer ru{bytes.begin(), bytes.end()};
                    if (offset > 0) { ru.GetWord(offset); }
                    CHECK(ru.GetWord(width) == ref, "unsigned read w=" << width << " o=" << offset);
                    fcp::Buffer rs{bytes.begin(), bytes.end()};
                    if (offset > 0) { rs.GetWord(offset, true); }
                    auto got = rs.GetWord(width, true);
                    CHECK(static_cast<std::int64_t>(got) == sref, "signed read w=" << width << " o=" << offset << " got " << got << " ref " << sref);
                    CHECK(rs.GetWord(5) == ru.GetWord(5), "cursor after read w=" << width << " o=" << offset);
                }
            }
        }
    }

    // only the version of the reflection schema (3.0 -> 3000) is accepted
    for (int version : {0, 2999, 3000, 3001, 3, 30000, 65535}) {
        fcp::dynamic::DynamicSchema d2{};
        std::string msg = "loaded";
        try { d2.LoadBinarySchemaFromFile("version_" + std::to_string(version) + ".bin"); } catch (const std::runtime_error& e) { msg = e.what(); }
        CHECK(msg == (version == 3000 ? "loaded" : "Invalid schema version"), "version " << version << ": " << msg);
        if (version == 3000) {
            CHECK(d2.EncodeJson("Inner", json{{"a", 7}, {"b", -2}}) == std::optional<std::vector<std::uint8_t>>({7, 0xFE, 0xFF}), "version 3000 schema usable");
        }
    }

    // error paths of the run-time codec
    {
        fcp::dynamic::DynamicSchema bad{};
        bad.LoadBinarySchemaFromFile("bad.bin");
        auto outcome = [&bad](const std::string& name, std::vector<std::uint8_t> data) -> std::string {
            try {
                auto r = bad.DecodeJson(name, data);
                return r.has_value() ? "value " + r.value().dump() : "nullopt";
            }
            catch (const std::out_of_range&) { return "out_of_range"; }
            catch (const std::runtime_error& e) { return std::string{"runtime_error "} + e.what(); }
        };
        auto encode_outcome = [&bad](const std::string& name, json j) -> std::string {
            try {
                auto r = bad.EncodeJson(name, j);
                return r.has_value() ? "value " + json(r.value()).dump() : "nullopt";
            }
            catch (const std::out_of_range&) { return "out_of_range"; }
            catch (const std::runtime_error& e) { return std::string{"runtime_error "} + e.what(); }
        };
        for (int rep = 0; rep < 2; rep++) {
            CHECK(outcome("BadKind", {1, 2, 3, 4, 5, 6, 7, 8}) == "runtime_error Unknown type bogus", "BadKind: " << outcome("BadKind", {1, 2, 3, 4, 5, 6, 7, 8}));
            CHECK(outcome("BadKindEmpty", {1, 2, 3, 4, 5, 6, 7, 8}) == "runtime_error Unknown type ", "BadKindEmpty");
            CHECK(outcome("BadKindCase", {1, 2, 3, 4, 5, 6, 7, 8}) == "runtime_error Unknown type Unsigned", "BadKindCase");
            CHECK(outcome("BadStruct", {1, 2, 3, 4, 5, 6, 7, 8}) == "nullopt", "BadStruct: " << outcome("BadStruct", {1, 2, 3, 4, 5, 6, 7, 8}));
            CHECK(outcome("BadEnum", {1, 2, 3, 4, 5, 6, 7, 8}) == "out_of_range", "BadEnum: " << outcome("BadEnum", {1, 2, 3, 4, 5, 6, 7, 8}));
            CHECK(outcome("BadInArray", {1, 2, 3, 4, 5, 6, 7, 8}) == "runtime_error Unknown type bogus", "BadInArray");
            CHECK(outcome("BadStructInDyn", {1, 0, 0, 0, 5, 6, 7, 8}) == "nullopt", "BadStructInDyn one");
            CHECK(outcome("BadStructInDyn", {0, 0, 0, 0, 5, 6, 7, 8}) == "value {\"x\":[]}", "BadStructInDyn none: " << outcome("BadStructInDyn", {0, 0, 0, 0, 5, 6, 7, 8}));
            CHECK(outcome("BadStructInOpt", {1, 2, 3, 4, 5, 6, 7, 8}) == "nullopt", "BadStructInOpt some");
            CHECK(outcome("BadStructInOpt", {0, 2, 3, 4, 5, 6, 7, 8}) == "value {\"x\":null}", "BadStructInOpt none: " << outcome("BadStructInOpt", {0, 2, 3, 4, 5, 6, 7, 8}));
            CHECK(outcome("Good", {1, 0x1F}) == "value {\"x\":-1}", "Good -1: " << outcome("Good", {1, 0x1F}));
            CHECK(outcome("Good", {7, 0x10}) == "value {\"x\":-16}", "Good -16");
            CHECK(outcome("Good", {0, 0x10}) == "value {\"x\":null}", "Good none");
            CHECK(outcome("Nope", {0}) == "nullopt", "Nope");

            CHECK(encode_outcome("BadKind", json{{"x", 1}}) == "runtime_error Unknown type bogus", "enc BadKind");
            CHECK(encode_outcome("BadStruct", json{{"x", json::object()}}) == "nullopt", "enc BadStruct");
            CHECK(encode_outcome("BadEnum", json{{"x", "A"}}) == "nullopt", "enc BadEnum");
            CHECK(encode_outcome("BadInArray", json{{"x", {1, 2}}}) == "runtime_error Unknown type bogus", "enc BadInArray");
            CHECK(encode_outcome("BadStructInDyn", json{{"x", json::array({json::object()})}}) == "nullopt", "enc BadStructInDyn");
            CHECK(encode_outcome("BadStructInDyn", json{{"x", json::array()}}) == "value [0,0,0,0]", "enc BadStructInDyn empty");
            CHECK(encode_outcome("Good", json{{"x", -3}}) == "value [1,29]", "enc Good: " << encode_outcome("Good", json{{"x", -3}}));
            CHECK(encode_outcome("Good", json{{"x", nullptr}}) == "value [0]", "enc Good none");
        }
        // the individual decoders are public API
        fcp::Buffer b{std::vector<std::uint8_t>{0xFF, 0x4B, 0x01, 0x80, 0x3F}};
        CHECK(bad._Decode(fcp::dynamic::Type{"i3", 1, "signed"}, b) == std::optional<json>(json(-1)), "_Decode i3");
        CHECK(bad._Decode(fcp::dynamic::Type{"u6", 1, "unsigned"}, b) == std::optional<json>(json(63)), "_Decode u6");
        fcp::dynamic::Type inner{"u4", 1, "unsigned"};
        CHECK(bad._Decode(fcp::dynamic::Type{"Array", 2, "Array", &inner}, b) == std::optional<json>(json::array({5, 10})), "_Decode [u4,2]");
    }

    // bit buffer, second part: fixed-size PushWord == run-time PushWord, big endian,
    // overwriting pre-filled storage, explicit size constructor, Insert, zero width
    {
        std::uint64_t seed = 0xD1B54A32D192ED03ULL;
        auto next = [&seed]() { seed ^= seed << 13; seed ^= seed >> 7; seed ^= seed << 17; return seed; };
        for (int rep = 0; rep < 50; rep++) {
            fcp::Buffer a{0}, b{0};
            std::uint64_t v1 = next(), v2 = next(), v3 = next(), v4 = next();
            a.PushWord<std::uint8_t, 3>(static_cast<std::uint8_t>(v1 & 7));      b.PushWord(static_cast<std::uint8_t>(v1 & 7), 3);
            a.PushWord<std::uint16_t, 13>(static_cast<std::uint16_t>(v2 & 0x1FFF)); b.PushWord(static_cast<std::uint16_t>(v2 & 0x1FFF), 13);
            a.PushWord<std::uint64_t, 64>(v3);                                      b.PushWord(v3, 64);
            a.PushWord<std::int32_t, 21>(static_cast<std::int32_t>(v4 >> 40) - 8000000); b.PushWord(static_cast<std::int32_t>(v4 >> 40) - 8000000, 21);
            a.PushWord<std::uint32_t, 32>(static_cast<std::uint32_t>(v1), fcp::Endianess::Big); b.PushWord(static_cast<std::uint32_t>(v1), 32, fcp::Endianess::Big);
            CHECK(a.GetData() == b.GetData(), "fixed vs run-time PushWord rep " << rep);
            CHECK(a.GetData().size() == (3 + 13 + 64 + 21 + 32 + 7) / 8, "size after mixed pushes");
        }
        {
            fcp::Buffer be{0};
            be.PushWord<std::uint16_t, 16>(0x1234, fcp::Endianess::Big);
            be.PushWord<std::uint32_t, 32>(0xA1B2C3D4u, fcp::Endianess::Big);
            be.PushWord<std::uint64_t, 64>(0x0102030405060708ULL, fcp::Endianess::Big);
            be.PushWord<std::uint8_t, 8>(0x7E, fcp::Endianess::Big);
            std::vector<std::uint8_t> want{0x12, 0x34, 0xA1, 0xB2, 0xC3, 0xD4, 1, 2, 3, 4, 5, 6, 7, 8, 0x7E};
            CHECK(be.GetData() == want, "big endian push: " << be.ToString());
            fcp::Buffer rd{want};
            CHECK(rd.GetWord(16, false, fcp::Endianess::Big) == 0x1234, "big endian read 16");
            CHECK(rd.GetWord(32, false, fcp::Endianess::Big) == 0xA1B2C3D4u, "big endian read 32");
            CHECK(rd.GetWord(64, false, fcp::Endianess::Big) == 0x0102030405060708ULL, "big endian read 64");
            // unsupported big endian width: error, nothing written
            fcp::Buffer unsupported{0};
            unsupported.PushWord<std::uint8_t, 4>(0x9);
            std::string msg;
            try { unsupported.PushWord<std::uint16_t, 12>(0x123, fcp::Endianess::Big); } catch (const std::runtime_error& e) { msg = e.what(); }
            CHECK(msg == "Big endian conversion only supported for 8, 16, 32, 64 bit values", "big endian 12: " << msg);
            msg.clear();
            try { unsupported.PushWord(static_cast<std::uint32_t>(0x123), 24, fcp::Endianess::Big); } catch (const std::runtime_error& e) { msg = e.what(); }
            CHECK(msg == "Big endian conversion only supported for 8, 16, 32, 64 bit values", "big endian 24: " << msg);
            CHECK(unsupported.GetData() == std::vector<std::uint8_t>{0x09}, "buffer untouched after failed push");
            unsupported.PushWord<std::uint8_t, 4>(0xA);
            CHECK(unsupported.GetData() == std::vector<std::uint8_t>{0xA9}, "cursor untouched after failed push");
        }
        {
            // pushing into storage that already holds data overwrites it in place
            // and only grows when the cursor runs past the end
            fcp::Buffer pre{std::vector<std::uint8_t>{0xFF, 0xFF, 0xFF}};
            pre.PushWord(0, 4);
            CHECK(pre.GetData() == (std::vector<std::uint8_t>{0xF0, 0xFF, 0xFF}), "overwrite low nibble");
            pre.PushWord(0x155, 10);
            CHECK(pre.GetData() == (std::vector<std::uint8_t>{0x50, 0xD5, 0xFF}), "overwrite across bytes: " << pre.ToString());
            pre.PushWord(0, 12);
            CHECK(pre.GetData() == (std::vector<std::uint8_t>{0x50, 0x15, 0x00, 0x00}), "overwrite and grow: " << pre.ToString());
            fcp::Buffer sized{20};
            CHECK(sized.GetData() == (std::vector<std::uint8_t>{0, 0, 0}), "sized constructor");
            sized.PushWord(0x3, 2);
            CHECK(sized.GetData() == (std::vector<std::uint8_t>{3, 0, 0}), "push into sized");
            sized.PushWord(0xFFFFFF, 24);
            CHECK(sized.GetData() == (std::vector<std::uint8_t>{0xFF, 0xFF, 0xFF, 0x03}), "grow sized by one byte: " << sized.ToString());
            // zero width: nothing happens, also at a byte boundary and on an empty buffer
            fcp::Buffer z{0};
            z.PushWord(0xFF, 0);
            CHECK(z.GetData().empty(), "zero width on empty");
            z.PushWord(0xAB, 8);
            z.PushWord(0xFF, 0);
            CHECK(z.GetData() == std::vector<std::uint8_t>{0xAB}, "zero width at byte boundary");
            z.PushWord(1, 1);
            z.PushWord(0xFF, 0);
            CHECK(z.GetData() == (std::vector<std::uint8_t>{0xAB, 0x01}), "zero width inside byte");
            // Insert appends whole bytes and leaves the cursor alone
            std::vector<std::uint8_t> tail{0x11, 0x22};
            fcp::Buffer ins{0};
            ins.PushWord(0x5, 3);
            ins.Insert(tail.begin(), tail.end());
            CHECK(ins.GetData() == (std::vector<std::uint8_t>{0x05, 0x11, 0x22}), "insert");
            ins.PushWord(0x1F, 5);
            CHECK(ins.GetData() == (std::vector<std::uint8_t>{0xFD, 0x11, 0x22}), "push after insert stays at cursor");
            ins.PushWord(0xFFFF, 16);
            ins.PushWord(0x1, 1);
            CHECK(ins.GetData() == (std::vector<std::uint8_t>{0xFD, 0xFF, 0xFF, 0x01}), "push past inserted bytes: " << ins.ToString());
            // copies are independent
            fcp::Buffer copy = ins;
            copy.PushWord(0x7F, 7);
            CHECK(ins.GetData().size() == 4 && copy.GetData() == (std::vector<std::uint8_t>{0xFD, 0xFF, 0xFF, 0xFF}), "copy independent");
        }
    }

    auto cases = json::parse(slurp("cases.json"));
    int n = 0;
    for (int round = 0; round < 2; round++) {
        for (const auto& c : cases) {
            std::string name = c["struct"];
            std::vector<std::uint8_t> bytes = c["bytes"].get<std::vector<std::uint8_t>>();
            json js = c["static"], jd = c["dynamic"];
            std::string tag = name + " #" + std::to_string(c["index"].get<int>());

            if (c["encode"].get<bool>()) {
                auto es = sta.EncodeJson(name, js);
                auto ed = dyn.EncodeJson(name, jd);
                auto ef = dyn_file.EncodeJson(name, jd);
                CHECK(es.has_value() && ed.has_value() && ef.has_value(), tag << " encode has value");
                if (es.has_value() && ed.has_value() && ef.has_value()) {
                    CHECK(es.value() == ed.value(), tag << " static bytes != dynamic bytes: " << json(es.value()) << " vs " << json(ed.value()));
                    CHECK(ed.value() == bytes, tag << " dynamic bytes != python bytes: " << json(ed.value()) << " vs " << json(bytes));
                    CHECK(ef.value() == ed.value(), tag << " file-loaded schema differs");
                }
            }
            auto ds = sta.DecodeJson(name, bytes);
            auto dd = dyn.DecodeJson(name, bytes);
            CHECK(ds.has_value() && dd.has_value(), tag << " decode has value");
            if (ds.has_value() && dd.has_value()) {
                CHECK(ds.value() == js, tag << " static decode: " << ds.value() << " expected " << js);
                CHECK(dd.value() == jd, tag << " dynamic decode: " << dd.value() << " expected " << jd);
            }
            n++;
        }
    }
    std::cout << "cases " << n << " failures " << failures << std::endl;
    return failures == 0 ? 0 : 1;
}
"""


def expect_raises(exc, fn, *args):
    try:
        fn(*args)
    except exc as e:
        return e
    raise AssertionError("expected %s from %s%r" % (exc.__name__, fn.__name__, args))


def python_codec_checks(fcp_v2):
    """Python reference codec against hand-computed bytes and error inputs."""
    u32 = lambda n: list(struct.pack("<I", n))
    # strings: u32 length prefix then one byte per character (low 8 bits)
    assert list(py_encode(fcp_v2, "Text", {"s": "", "t": "ab"})) == u32(0) + u32(2) + [97, 98]
    assert list(py_encode(fcp_v2, "Text", {"s": "\u0141\xff", "t": "\x00"})) == u32(2) + [0x41, 0xFF] + u32(1) + [0]
    assert py_decode(fcp_v2, "Text", bytearray(u32(1) + [65] + u32(3) + [120, 121, 122])) == {"s": "A", "t": "xyz"}
    # dynamic arrays: u32 count; optionals: u8 flag
    assert list(py_encode(fcp_v2, "Dyn", {"a": [1, 2], "b": [-1], "c": [{"a": 3, "b": -2}], "d": ["hi"], "e": [[], [5]]})) == (
        u32(2) + [1, 2] + u32(1) + [255] * 4 + u32(1) + [3, 0xFE, 0xFF] + u32(1) + u32(2) + [104, 105]
        + u32(2) + u32(0) + u32(1) + [5, 0]
    )
    assert list(py_encode(fcp_v2, "Opt", {"a": None, "b": 7, "c": None, "d": "", "e": 300})) == (
        [0] + [1, 7, 0, 0, 0] + [0] + [1] + u32(0) + [1, 0x2C, 0x01]
    )
    assert py_decode(fcp_v2, "Opt", bytearray([2, 9] + [0] + [0] + [0] + [0])) == {"a": 9, "b": None, "c": None, "d": None, "e": None}
    # 0 is a value, not "absent"
    assert list(py_encode(fcp_v2, "Opt", {"a": 0, "b": 0, "c": None, "d": None, "e": 0}))[:7] == [1, 0, 1, 0, 0, 0, 0]
    # sub-byte packing is contiguous
    assert list(py_encode(fcp_v2, "Packed", {"a": 5, "b": -1, "c": 5, "d": -1, "e": 1, "f": 127})) == [0xFD, 0xFD, 0xFF, 0xFF]
    assert py_decode(fcp_v2, "Packed", bytearray([0xFD, 0xFD, 0xFF, 0xFF])) == {"a": 5, "b": -1, "c": 5, "d": -1, "e": 1, "f": 127}
    # repeated calls do not leak state between buffers
    one = py_encode(fcp_v2, "Text", {"s": "abc", "t": "d"})
    assert one == py_encode(fcp_v2, "Text", {"s": "abc", "t": "d"})
    assert py_decode(fcp_v2, "Text", one) == {"s": "abc", "t": "d"}
    # error inputs
    expect_raises(TypeError, py_encode, fcp_v2, "Text", {"s": [1, 2], "t": ""})
    expect_raises(TypeError, py_encode, fcp_v2, "Text", {"s": None, "t": ""})
    expect_raises(TypeError, py_encode, fcp_v2, "Dyn", {"a": 5, "b": [], "c": [], "d": [], "e": []})
    expect_raises(KeyError, py_encode, fcp_v2, "Text", {"s": ""})
    e = expect_raises(ValueError, py_decode, fcp_v2, "Text", bytearray([4, 0, 0, 0, 65]))
    assert str(e) == "buffer overrrun", str(e)
    expect_raises(ValueError, py_decode, fcp_v2, "Dyn", bytearray([1, 0, 0]))
    expect_raises(ValueError, py_decode, fcp_v2, "Opt", bytearray([]))
    # the private bit buffer
    b = fcp_serde._Buffer()
    b.push_word(0b101, 3)
    b.push_word(-1, 7)
    b.push_bytes([0x1FF, 2])
    assert list(b.get_buffer()) == [0xFD, 0xFF, 0x0B, 0x00] and b.bitaddr == 26
    b.push_word(9, 0)
    assert list(b.get_buffer()) == [0xFD, 0xFF, 0x0B, 0x00] and b.bitaddr == 26
    b.bitaddr = 0
    assert [b.read_word(3), b.read_word(7), b.read_bytes(2)] == [5, 127, [0xFF, 2]]


def write_bad_binary(work, reflection_schema):
    """A reflection binary the Python tool would never produce: error paths."""
    def ty(name, kind, size=1):
        return {"name": name, "size": size, "type": kind}

    def st(name, chain):
        return {"name": name, "meta": None, "fields": [
            {"name": "x", "field_id": 0, "type": chain, "unit": None, "min_value": None, "max_value": None, "meta": None}
        ]}

    bad = {
        "tag": [0x66, 0x63, 0x70],
        "version": 3000,
        "structs": [
            st("BadKind", [ty("u8", "bogus")]),
            st("BadKindEmpty", [ty("u8", "")]),
            st("BadKindCase", [ty("u8", "Unsigned")]),
            st("BadStruct", [ty("Missing", "Struct")]),
            st("BadEnum", [ty("Missing", "Enum")]),
            st("BadInArray", [ty("Array", "Array", 2), ty("u8", "bogus")]),
            st("BadStructInDyn", [ty("DynamicArray", "DynamicArray"), ty("Missing", "Struct")]),
            st("BadStructInOpt", [ty("Optional", "Optional"), ty("Missing", "Struct")]),
            st("Good", [ty("Optional", "Optional"), ty("i5", "signed")]),
        ],
        "enums": [],
        "impls": [],
        "services": [],
    }
    (work / "bad.bin").write_bytes(bytes(py_encode(reflection_schema, "Fcp", bad)))


def write_version_binaries(work, reflection_schema, fcp_v2):
    for version in (0, 2999, 3000, 3001, 3, 30000, 65535):
        r = fcp_v2.reflection()
        r["version"] = version
        (work / ("version_%d.bin" % version)).write_bytes(bytes(py_encode(reflection_schema, "Fcp", r)))


STRICT_FLAGS = [
    "-Werror", "-Wall", "-Wextra", "-Wformat-nonliteral", "-Wcast-align", "-Wpointer-arith", "-Winline", "-Wundef",
    "-Wcast-qual", "-Wshadow", "-Wwrite-strings", "-Wno-unused-parameter", "-Wfloat-equal", "-pedantic",
]

STRICT = r"""
#include "fcp.h"
#include "dynamic.h"
int main() {
    fcp::dynamic::DynamicSchema d{};
    fcp::StaticSchema s{};
    auto e = d.EncodeJson("Nums", nlohmann::json::object());
    auto v = d.DecodeJson("Nums", {1, 2, 3});
    auto w = s.DecodeJson("Nope", {1, 2, 3});
    return (e.has_value() ? 1 : 0) + (v.has_value() ? 1 : 0) + (w.has_value() ? 1 : 0);
}
"""


def generate(fcp_v2, outdir):
    for result in Generator().generate(fcp_v2, {"output": str(outdir)}):
        assert result["type"] == "file"
        (outdir / Path(result["path"]).name).write_text(str(result["contents"]))


def main():
    work = Path(tempfile.mkdtemp(prefix="c13-demo-"))
    try:
        (work / "schema.fcp").write_text(SCHEMA)
        fcp_v2 = get_fcp(work / "schema.fcp").unwrap()
        reflection_schema = get_reflection_schema().unwrap()
        binary = py_encode(reflection_schema, "Fcp", fcp_v2.reflection())
        assert bytes(binary[:3]) == b"fcp"
        # the reflection binary is deterministic
        assert binary == py_encode(reflection_schema, "Fcp", fcp_v2.reflection())
        (work / "output.bin").write_bytes(bytes(binary))
        # ... and the Python codec reads its own reflection binary back
        reflected = py_decode(reflection_schema, "Fcp", binary)
        assert reflected["tag"] == [0x66, 0x63, 0x70]
        assert reflected["version"] == 3000
        assert [s["name"] for s in reflected["structs"]] == [s.name for s in fcp_v2.structs]
        assert [e["name"] for e in reflected["enums"]] == [e.name for e in fcp_v2.enums]
        for got, want in zip(reflected["structs"], fcp_v2.reflection()["structs"]):
            assert [f["type"] for f in got["fields"]] == [f["type"] for f in want["fields"]], got["name"]
            assert [f["field_id"] for f in got["fields"]] == sorted(f["field_id"] for f in want["fields"])
        # unknown type objects are rejected by the Python encoder
        try:
            fcp_serde._encode(fcp_serde._Buffer(), fcp_v2, "not a type", 1)
            raise AssertionError("expected ValueError")
        except ValueError as e:
            assert str(e) == "Unmatched type not a type", str(e)

        python_codec_checks(fcp_v2)
        write_bad_binary(work, reflection_schema)
        write_version_binaries(work, reflection_schema, fcp_v2)

        generate(fcp_v2, work)
        generated = (work / "dynamic.h").read_text()
        assert "{{" not in generated and "{%" not in generated

        cases = []
        for index, (name, value, enc) in enumerate(build_cases()):
            static_json = render(value, dynamic=False)
            cases.append(
                {
                    "index": index,
                    "struct": name,
                    "encode": enc,
                    "static": static_json,
                    "dynamic": render(value, dynamic=True),
                    "bytes": list(py_encode(fcp_v2, name, static_json)),
                }
            )
        (work / "cases.json").write_text(json.dumps(cases))
        (work / "driver.cpp").write_text(DRIVER)

        cxx = shutil.which("g++") or shutil.which("clang++")
        subprocess.run(
            [cxx, "-std=c++17", "-O0", "-w", "-isystem", JSON_INCLUDE, "-I", str(work), "driver.cpp", "-o", "driver"],
            cwd=work,
            check=True,
        )
        (work / "strict.cpp").write_text(STRICT)
        subprocess.run([cxx, "-std=c++17", "-fsyntax-only"] + STRICT_FLAGS + ["-isystem", JSON_INCLUDE, "-I", str(work), "strict.cpp"], cwd=work, check=True)
        out = subprocess.run(["./driver"], cwd=work, capture_output=True, text=True)
        sys.stdout.write(out.stdout)
        sys.stderr.write(out.stderr[-4000:])
        if out.returncode != 0:
            print("FAIL")
            return 1
        # also make sure the shipped test schema still generates and reflects
        shipped = get_fcp(FCP_ROOT / "plugins/fcp_cpp/tests/schemas/test.fcp").unwrap()
        assert bytes(py_encode(reflection_schema, "Fcp", shipped.reflection())[:3]) == b"fcp"
        print("PASS")
        return 0
    finally:
        shutil.rmtree(work, ignore_errors=True)


if __name__ == "__main__":
    sys.exit(main())
