#!/venv/bin/python
"""C15 demo 2: the run-time (reflection driven) C++ schema must agree with the other back ends.

A struct is written twice, once with its fields in ascending id and once permuted
(ids unchanged). For both spellings the C++ plug-in output is generated, the binary
reflection schema is produced the way the project does it (serde over
FcpV2.reflection()) and a small C++ program encodes / decodes one message through

  * fcp::dynamic::DynamicSchema (dynamic.h, driven by the binary schema), and
  * the generated static struct (fcp.h).

All of them have to produce / accept the bytes of the Python codec, which are the
fields in ascending field id, for both spellings.

Prints PASS / exits 0 when that holds, prints FAIL / exits 1 otherwise.
Needs g++ and nlohmann/json (-isystem /root/miniconda/include, override with JSON_INCLUDE).
"""

import json
import os
import struct
import subprocess
import sys
import tempfile
from pathlib import Path

from fcp.parser import get_fcp_from_string
from fcp.reflection import get_reflection_schema
from fcp.serde import encode as serde_encode
from fcp_cpp import Generator

JSON_INCLUDE = os.environ.get("JSON_INCLUDE", "/root/miniconda/include")

DECLARATIONS = {
    "ascending": ["x @0: u16,", "y @1: i8,", "yaw @2: u8,"],
    "permuted": ["yaw @2: u8,", "x @0: u16,", "y @1: i8,"],
}

VALUES = {"x": 0x1234, "y": -5, "yaw": 200}
EXPECTED = struct.pack("<HbB", 0x1234, -5, 200)

MAIN = r"""
#include <cstdio>
#include <iostream>
#include "fcp.h"
#include "dynamic.h"

static std::string hex(const std::vector<std::uint8_t>& bytes) {
    std::string out;
    char tmp[3];
    for (auto b: bytes) { std::snprintf(tmp, sizeof(tmp), "%02x", b); out += tmp; }
    return out;
}

int main() {
    json values = json::parse(R"(VALUES_JSON)");
    std::vector<std::uint8_t> wire = {WIRE_BYTES};

    fcp::dynamic::DynamicSchema schema{};
    schema.LoadBinarySchemaFromFile("output.bin");

    json report{};
    report["dynamic_encode"] = hex(schema.EncodeJson("Pose", values).value());
    report["dynamic_decode"] = schema.DecodeJson("Pose", wire).value();

    auto pose = fcp::Pose::FromJson(values);
    report["static_encode"] = hex(pose.Encode().GetData());
    report["static_decode"] = fcp::Pose::Decode(wire.begin(), wire.end()).DecodeJson();

    std::cout << report.dump() << std::endl;
    return 0;
}
"""


def run_cpp(fcp) -> dict:
    with tempfile.TemporaryDirectory(prefix="c15-demo2-") as tmp:
        tmpdir = Path(tmp)
        for result in Generator().generate(fcp, {"output": str(tmpdir)}):
            (tmpdir / Path(result["path"]).name).write_text(str(result["contents"]))

        reflection_schema = get_reflection_schema().unwrap()
        (tmpdir / "output.bin").write_bytes(
            bytes(serde_encode(reflection_schema, "Fcp", fcp.reflection()))
        )

        main = MAIN.replace("VALUES_JSON", json.dumps(VALUES)).replace(
            "WIRE_BYTES", ", ".join(str(b) for b in EXPECTED)
        )
        (tmpdir / "main.cpp").write_text(main)

        subprocess.run(
            ["g++", "--std=c++17", "-O0", "-w", "-isystem", JSON_INCLUDE, "main.cpp", "-o", "main"],
            cwd=tmpdir,
            check=True,
        )
        out = subprocess.run(
            [str(tmpdir / "main")], cwd=tmpdir, check=True, capture_output=True, text=True
        )
        return json.loads(out.stdout)


def main() -> int:
    failures = []

    for spelling, declarations in DECLARATIONS.items():
        source = 'version: "3"\n\nstruct Pose {\n' + "".join(
            "    " + line + "\n" for line in declarations
        ) + "}\n"
        fcp = get_fcp_from_string(source).unwrap()

        python_bytes = bytes(serde_encode(fcp, "Pose", VALUES))
        if python_bytes != EXPECTED:
            failures.append(f"{spelling}: python codec gave {python_bytes.hex()}")

        report = run_cpp(fcp)
        for key in ("dynamic_encode", "static_encode"):
            if report[key] != EXPECTED.hex():
                failures.append(f"{spelling}: {key} gave {report[key]}, want {EXPECTED.hex()}")
        for key in ("dynamic_decode", "static_decode"):
            if report[key] != VALUES:
                failures.append(f"{spelling}: {key} gave {report[key]}, want {VALUES}")

    if failures:
        print("FAIL")
        for failure in failures:
            print("  ", failure)
        return 1

    print("PASS")
    return 0


if __name__ == "__main__":
    sys.exit(main())
