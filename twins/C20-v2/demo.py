#!/venv/bin/python
"""C20 demo 2: a syntax error inside an imported module must name the module.

A stray character is injected into a module (directly imported, and imported
through another module). The returned error - its messages, the source
locations attached to them, and the text the Logger renders for the user -
must mention the file of the module that holds the error.
"""
import os
import pathlib
import sys
import tempfile

from fcp.parser import get_fcp
from fcp.error import Logger

PRE = 'version: "3"\n'

FILES = {
    "main.fcp": PRE
    + """
mod sensors.temperature;

struct SensorInformation {
    temperature @0: Temperature,
    unit @1: Unit,
}
""",
    "sensors/temperature.fcp": PRE
    + """
mod units;

struct Temperature {
    value @0: i16 | unit("C"),
    unit @1: Unit,
}
""",
    "sensors/units.fcp": PRE
    + """
enum Unit {
    Celsius = 0,
    Kelvin = 1,
}
""",
}


def write(root, files):
    for name, text in files.items():
        path = pathlib.Path(root) / name
        path.parent.mkdir(parents=True, exist_ok=True)
        path.write_text(text)


def names_module(error, logger, module):
    """Is the module file mentioned anywhere in the error?"""
    if module in repr(error):
        return True
    for _, node, _ in error.msg:
        if node is not None and pathlib.Path(node.meta.filename).name == module:
            return True
    try:
        return module in logger.error(error)
    except Exception:
        return False


def main():
    ok = True
    with tempfile.TemporaryDirectory() as tmp:
        write(tmp, FILES)
        clean = get_fcp(os.path.join(tmp, "main.fcp"), Logger({}))
        if clean.is_err():
            print("FAIL: the clean split schema does not load:", repr(clean.err()))
            return 1

        for victim in ["sensors/temperature.fcp", "sensors/units.fcp"]:
            module = pathlib.Path(victim).name
            broken = dict(FILES)
            # stray character in the middle of a declaration
            broken[victim] = FILES[victim].replace("= 0,", "= 0 $,").replace(
                "@0: i16", "@0: i16 $"
            )
            assert broken[victim] != FILES[victim]
            write(tmp, broken)

            logger = Logger({})
            result = get_fcp(os.path.join(tmp, "main.fcp"), logger)
            if result.is_ok():
                print(f"FAIL: syntax error in {victim} was not reported")
                ok = False
            elif not names_module(result.err(), logger, module):
                print(f"FAIL: error for a stray '$' in {victim} never names {module}:")
                print(logger.error(result.err()))
                ok = False
            write(tmp, FILES)

    print("PASS" if ok else "FAIL")
    return 0 if ok else 1


if __name__ == "__main__":
    sys.exit(main())
