#!/venv/bin/python
"""Shared harness: generate C for flat CAN schemas, compile, run and compare with a layout oracle.

The oracle is independent of the fcp library: messages are described as python
data, the .fcp text is rendered from that description and the expected frame is
computed by straightforward little-endian bit packing.
"""

import os
import shutil
import struct
import subprocess
import sys
import tempfile
from pathlib import Path


def render_schema(enums, messages):
    out = ['version: "3"', ""]
    for name, members in enums.items():
        out.append("enum %s {" % name)
        for k, v in members.items():
            out.append("    %s = %d," % (k, v))
        out.append("}\n")
    for m in messages:
        out.append("struct %s {" % m["struct"])
        # declaration order may differ from field id order
        for fname, fid, ftype in m.get("declared", None) or [
            (f[0], i, f[1]) for i, f in enumerate(m["fields"])
        ]:
            out.append("    %s @%d: %s," % (fname, fid, ftype))
        out.append("}\n")
        for impl in m["impls"]:
            alias = impl.get("as")
            out.append(
                "impl can for %s%s {" % (m["struct"], (" as " + alias) if alias else "")
            )
            out.append("    id: %d," % impl["id"])
            out.append('    device: "%s",' % impl.get("device", "ecu"))
            out.append("}\n")
    return "\n".join(out)


def enum_bits(members):
    m = max(members.values())
    return max(1, m.bit_length())


def field_bits(ftype, enums):
    if ftype in enums:
        return enum_bits(enums[ftype])
    return int(ftype[1:])


def to_bits(ftype, value, enums):
    n = field_bits(ftype, enums)
    if ftype == "f32":
        return struct.unpack("<I", struct.pack("<f", value))[0]
    if ftype == "f64":
        return struct.unpack("<Q", struct.pack("<d", value))[0]
    return value & ((1 << n) - 1)


def pack(fields, values, enums):
    word = 0
    pos = 0
    for fname, ftype in fields:
        n = field_bits(ftype, enums)
        word |= to_bits(ftype, values[fname], enums) << pos
        pos += n
    assert pos <= 64
    dlc = (pos + 7) // 8
    return dlc, word.to_bytes(8, "little")


def snake(pascal):
    return "".join(["_" + c.lower() if c.isupper() else c for c in pascal]).lstrip("_")


def c_type(ftype, enums):
    if ftype in enums:
        return ftype
    if ftype == "f32":
        return "float"
    if ftype == "f64":
        return "double"
    n = int(ftype[1:])
    w = 8
    while w < n:
        w *= 2
    return ("int%d_t" if ftype[0] == "i" else "uint%d_t") % w


def c_literal(ftype, value, enums):
    if ftype in enums:
        return "(%s)%d" % (ftype, value)
    if ftype == "f32":
        return "bits_f32(0x%08xu)" % to_bits(ftype, value, enums)
    if ftype == "f64":
        return "bits_f64(0x%016xull)" % to_bits(ftype, value, enums)
    if ftype[0] == "i":
        if value == -(1 << 63):
            return "(-9223372036854775807ll - 1)"
        return "%dll" % value
    return "%dull" % value


def build_main(enums, messages, cases):
    lines = [
        "#include <stdio.h>",
        "#include <string.h>",
        "#include <stdint.h>",
    ]
    devices = sorted({i.get("device", "ecu") for m in messages for i in m["impls"]})
    for d in devices:
        lines.append('#include "%s_can.h"' % d)
    lines += [
        "static float bits_f32(uint32_t b){float f; memcpy(&f,&b,4); return f;}",
        "static double bits_f64(uint64_t b){double f; memcpy(&f,&b,8); return f;}",
        "static unsigned long long f32_bits(float f){uint32_t b; memcpy(&b,&f,4); return b;}",
        "static unsigned long long f64_bits(double f){uint64_t b; memcpy(&b,&f,8); return b;}",
        "static void show(const char *tag, const CanFrame *f){printf(\"%s %u %u\", tag, (unsigned)f->id, (unsigned)f->dlc); for(int i=0;i<8;i++) printf(\" %02x\", f->data[i]); printf(\"\\n\");}",
        "int main(void){",
    ]
    expected = []
    for m in messages:
        for impl in m["impls"]:
            iname = impl.get("as") or m["struct"]
            sn = snake(iname)
            for values in cases[iname]:
                dlc, data = pack(m["fields"], values, enums)
                lines.append("  {")
                lines.append("    CanMsg%s m; memset(&m, 0, sizeof m);" % iname)
                for fname, ftype in m["fields"]:
                    lines.append(
                        "    m.%s = %s;" % (fname, c_literal(ftype, values[fname], enums))
                    )
                lines.append("    CanFrame f = can_encode_msg_%s(&m);" % sn)
                lines.append('    show("E", &f);')
                expected.append(
                    "E %d %d %s" % (impl["id"], dlc, " ".join("%02x" % b for b in data))
                )
                # decode the oracle frame (independent of the generated encoder)
                lines.append("    CanFrame g; memset(&g, 0, sizeof g);")
                lines.append("    g.id = %d; g.dlc = %d;" % (impl["id"], dlc))
                for i, b in enumerate(data):
                    lines.append("    g.data[%d] = 0x%02x;" % (i, b))
                lines.append("    CanMsg%s d = can_decode_msg_%s(&g);" % (iname, sn))
                fmt = []
                args = []
                exp = []
                for fname, ftype in m["fields"]:
                    if ftype == "f32":
                        fmt.append("%llx")
                        args.append("f32_bits(d.%s)" % fname)
                        exp.append("%x" % to_bits(ftype, values[fname], enums))
                    elif ftype == "f64":
                        fmt.append("%llx")
                        args.append("f64_bits(d.%s)" % fname)
                        exp.append("%x" % to_bits(ftype, values[fname], enums))
                    elif ftype not in enums and ftype[0] == "i":
                        fmt.append("%lld")
                        args.append("(long long)d.%s" % fname)
                        exp.append("%d" % values[fname])
                    else:
                        fmt.append("%llu")
                        args.append("(unsigned long long)d.%s" % fname)
                        exp.append("%d" % values[fname])
                lines.append(
                    '    printf("D %s\\n", %s);' % (" ".join(fmt), ", ".join(args))
                )
                expected.append("D " + " ".join(exp))
                lines.append("  }")
    lines.append("  return 0;")
    lines.append("}")
    return "\n".join(lines), expected


def generate(schema_text, outdir):
    from fcp.parser import get_fcp
    from fcp_can_c import Generator

    src = Path(outdir) / "schema.fcp"
    src.write_text(schema_text)
    fcp = get_fcp(src).unwrap()
    gen_dir = Path(outdir) / "gen"
    files = Generator().generate(fcp, {"output": str(gen_dir)})
    for f in files:
        p = Path(f["path"])
        p.parent.mkdir(parents=True, exist_ok=True)
        p.write_text(f["contents"])
    return gen_dir


def run(enums, messages, cases, verbose=True, keep=False):
    """Return a list of mismatch descriptions (empty when the property holds)."""
    work = tempfile.mkdtemp(prefix="c06demo")
    problems = []
    try:
        schema = render_schema(enums, messages)
        gen_dir = generate(schema, work)
        main_c, expected = build_main(enums, messages, cases)
        (Path(work) / "main.c").write_text(main_c)
        cc = shutil.which("clang") or shutil.which("gcc") or "cc"
        sources = [str(Path(work) / "main.c")] + sorted(
            str(p) for p in gen_dir.glob("*.c")
        )
        exe = str(Path(work) / "demo")
        r = subprocess.run(
            [cc, "-O0", "-w", "-I", str(gen_dir)] + sources + ["-o", exe],
            capture_output=True,
            text=True,
        )
        if r.returncode != 0:
            return ["generated C does not compile:\n" + r.stderr[-2000:]]
        r = subprocess.run([exe], capture_output=True, text=True)
        got = r.stdout.strip().splitlines()
        if r.returncode != 0 or len(got) != len(expected):
            return ["demo program failed (rc=%d, %d lines)" % (r.returncode, len(got))]
        for e, g in zip(expected, got):
            if e != g:
                problems.append("expected [%s] got [%s]" % (e, g))
            elif verbose:
                print("  ok ", g)
    finally:
        if keep:
            print("kept", work)
        else:
            shutil.rmtree(work, ignore_errors=True)
    return problems


def finish(problems):
    if problems:
        for p in problems:
            print("  MISMATCH", p)
        print("FAIL")
        sys.exit(1)
    print("PASS")
    sys.exit(0)


# ---------------------------------------------------------------------------
# Demo 3: code is generated for two different projects, one after the other,
# in the same python process (as a build script or a test-suite does). Both
# projects have enums called Mode and Fault, but with different value ranges.

PROJECT_A = dict(
    enums={"Mode": {"Idle": 0, "Run": 1, "Stop": 3}, "Fault": {"Ok": 0, "Worst": 300}},
    messages=[
        {
            "struct": "Status",
            "fields": [("mode", "Mode"), ("fault", "Fault"), ("count", "u12"), ("temp", "i9")],
            "impls": [{"id": 0x300}],
        }
    ],
    cases={
        "Status": [
            dict(mode=3, fault=300, count=4095, temp=-256),
            dict(mode=1, fault=0, count=1, temp=255),
        ]
    },
)

PROJECT_B = dict(
    enums={
        "Mode": {"Idle": 0, "Run": 1, "Limp": 700},
        "Fault": {"Ok": 0, "Minor": 300, "Worst": 70000},
    },
    messages=[
        {
            "struct": "Status",
            "fields": [("mode", "Mode"), ("fault", "Fault"), ("count", "u12"), ("temp", "i9")],
            "impls": [{"id": 0x301}],
        }
    ],
    cases={
        "Status": [
            dict(mode=700, fault=70000, count=4095, temp=-256),
            dict(mode=1, fault=300, count=1, temp=255),
        ]
    },
)

if __name__ == "__main__":
    problems = []
    for label, project in (("project A", PROJECT_A), ("project B", PROJECT_B)):
        print(label)
        found = run(
            project["enums"], project["messages"], project["cases"], verbose="-v" in sys.argv
        )
        problems += ["%s: %s" % (label, p) for p in found]
    finish(problems)
