#!/venv/bin/python
"""C17 demo 3: generated C++ must not depend on what the process generated before.

Two child processes generate the C++ files of the same schema (vehicle.fcp).
The first one does nothing else, the second one has generated the C++ files of
another schema (battery.fcp) just before.  Apart from the generation-stamp
comment line both must produce the same set of files with the same contents.

Run with
  PYTHONPATH=$R/src:$R/plugins/fcp_dbc:$R/plugins/fcp_can_c:$R/plugins/fcp_cpp:$R/plugins/fcp_nop
"""
import json
import os
import subprocess
import sys
import tempfile

BATTERY = """version: "3"

struct CellVoltage {
    cell @0: u8,
    millivolts @1: u16,
}

impl can for CellVoltage {
    id: 10,
    bus: "battery",
    device: "bms",
}
"""

VEHICLE = """version: "3"

struct WheelSpeed {
    front_left @0: u16,
    front_right @1: u16,
}

impl can for WheelSpeed {
    id: 20,
    bus: "chassis",
    device: "abs",
}
"""


def strip_stamp(text):
    return "\n".join(
        line for line in text.split("\n") if not line.startswith("// Generated using fcp")
    )


def child(paths):
    from fcp.parser import get_fcp
    from fcp_cpp import Generator

    files = {}
    for path in paths:  # only the files of the last schema are reported
        results = Generator().generate(get_fcp(path).unwrap(), {"output": "/tmp/fcp_demo_out"})
        files = {os.path.basename(str(r["path"])): strip_stamp(r["contents"]) for r in results}

    json.dump(files, sys.stdout, sort_keys=True)


def run(paths):
    proc = subprocess.run(
        [sys.executable, os.path.abspath(__file__), "--child"] + paths,
        capture_output=True,
        text=True,
    )
    if proc.returncode != 0:
        print("FAIL: child crashed\n" + proc.stderr)
        sys.exit(1)
    return json.loads(proc.stdout)


def main():
    with tempfile.TemporaryDirectory() as d:
        battery = os.path.join(d, "battery.fcp")
        vehicle = os.path.join(d, "vehicle.fcp")
        with open(battery, "w") as f:
            f.write(BATTERY)
        with open(vehicle, "w") as f:
            f.write(VEHICLE)

        alone = run([vehicle])
        after_other = run([battery, vehicle])

    if set(alone) != set(after_other):
        print("FAIL: different set of files", sorted(set(alone) ^ set(after_other)))
        return 1

    differing = sorted(name for name in alone if alone[name] != after_other[name])
    if differing:
        print("FAIL: files of vehicle.fcp differ when battery.fcp was generated before:", differing)
        for la, lb in zip(alone[differing[0]].split("\n"), after_other[differing[0]].split("\n")):
            if la != lb:
                print("  alone        :", la.strip())
                print("  after battery:", lb.strip())
                break
        return 1

    print("PASS")
    return 0


if __name__ == "__main__":
    if len(sys.argv) >= 3 and sys.argv[1] == "--child":
        child(sys.argv[2:])
        sys.exit(0)
    sys.exit(main())
