#!/usr/bin/env python
"""Differential test for property C02 (Python codec == canonical FCP wire format).

Run with the worktree on PYTHONPATH, e.g.

    cd /tmp/twin3-C02 && PYTHONPATH=/tmp/twin3-C02/src /venv/bin/python demo.py

The test carries its own, independent reference encoder (bit list, LSB first)
and checks fcp.serde.encode / fcp.serde.decode against it on

  * the project's cross-language vectors (tests/standardized/fcp_tests.json),
  * a nested schema with unaligned scalars, enums of several widths, structs in
    arrays, arrays in optionals, optionals in arrays, strings, ... and a few
    thousand random values,
  * boundary values, out-of-range values (truncated), extra keys, trailing bytes,
  * error inputs (the exception type and the position at which the input is
    refused are pinned),
  * repeated / interleaved calls and a schema that is edited between two calls.

Prints PASS and exits 0 when everything agrees.
"""

import json
import math
import os
import random
import struct
import sys
from pathlib import Path

from fcp.parser import get_fcp, get_fcp_from_string
from fcp.reflection import get_reflection_schema
from fcp.serde import decode, encode
from fcp.specs.enum import Enumeration
from fcp.specs.type import (
    ArrayType,
    DoubleType,
    DynamicArrayType,
    EnumType,
    FloatType,
    OptionalType,
    SignedType,
    StringType,
    StructType,
    UnsignedType,
)

FCP_ROOT = Path(os.environ.get("FCP_ROOT", "/tmp/twin3-C02"))

SCHEMA = """version: "3"

enum Small { A = 0, B = 1, }
enum Wide { X = 0, Y = 5, Z = 300, }
enum Solo { ONLY = 0, }

struct Inner {
    a @ 0: u3,
    b @ 1: i5,
    c @ 2: Small,
}

struct Mid {
    tag @ 0: u1,
    inner @ 1: Inner,
    items @ 2: [Inner, 3],
    name @ 3: str,
}

struct Outer {
    flag @ 0: u1,
    mid @ 1: Mid,
    wide @ 2: Wide,
    big @ 3: u64,
    neg @ 4: i64,
    odd @ 5: i13,
    f @ 6: f32,
    d @ 7: f64,
    dyn @ 8: [Mid],
    opt @ 9: Optional[Inner],
    optdyn @ 10: Optional[[u7]],
    dynopt @ 11: [Optional[str]],
    matrix @ 12: [[u5, 2], 3],
    dd @ 13: [[i9]],
    solo @ 14: Solo,
    tail @ 15: u2,
}

struct Shuffled {
    z @ 2: u4,
    y @ 0: u4,
    x @ 1: u8,
}

struct Scalars {
    a @ 0: u1,
    b @ 1: i2,
    c @ 2: u7,
    d @ 3: i8,
    e @ 4: u13,
    f @ 5: i16,
    g @ 6: u31,
    h @ 7: i32,
    i @ 8: u33,
    j @ 9: i63,
    k @ 10: u64,
    l @ 11: i64,
}

struct Words {
    lead @ 0: u3,
    text @ 1: str,
    more @ 2: [str, 2],
    maybe @ 3: Optional[str],
}
"""

checks = 0


def check(cond, what):
    global checks
    checks += 1
    if not cond:
        print("FAIL:", what)
        sys.exit(1)


# --------------------------------------------------------------------------
# reference implementation of the canonical wire format
# --------------------------------------------------------------------------


def enum_bits(fcp, name):
    enum = [e for e in fcp.enums if e.name == name][0]
    top = max([e.value for e in enum.enumeration], default=0)
    return 1 if top in (0, 1) else top.bit_length()


def word(out, value, nbits):
    value &= (1 << nbits) - 1  # two's complement, truncated
    for i in range(nbits):
        out.append((value >> i) & 1)


def ref_bits(fcp, ty, value, out):
    if isinstance(ty, (UnsignedType, SignedType)):
        word(out, value, int(ty.name[1:]))
    elif isinstance(ty, FloatType):
        word(out, int.from_bytes(struct.pack("<f", value), "little"), 32)
    elif isinstance(ty, DoubleType):
        word(out, int.from_bytes(struct.pack("<d", value), "little"), 64)
    elif isinstance(ty, StringType):
        word(out, len(value), 32)
        for ch in value:
            word(out, ord(ch), 8)
    elif isinstance(ty, EnumType):
        word(out, value, enum_bits(fcp, ty.name))
    elif isinstance(ty, StructType):
        ref_struct_bits(fcp, ty.name, value, out)
    elif isinstance(ty, ArrayType):
        for i in range(ty.size):
            ref_bits(fcp, ty.underlying_type, value[i], out)
    elif isinstance(ty, DynamicArrayType):
        word(out, len(value), 32)
        for x in value:
            ref_bits(fcp, ty.underlying_type, x, out)
    elif isinstance(ty, OptionalType):
        word(out, 0 if value is None else 1, 8)
        if value is not None:
            ref_bits(fcp, ty.underlying_type, value, out)
    else:
        raise AssertionError(ty)


def ref_struct_bits(fcp, name, value, out):
    st = [s for s in fcp.structs if s.name == name][0]
    by_id = {f.field_id: f for f in st.fields}
    for fid in sorted(by_id):
        ref_bits(fcp, by_id[fid].type, value[by_id[fid].name], out)


def ref_encode(fcp, name, value):
    bits = []
    ref_struct_bits(fcp, name, value, bits)
    while len(bits) % 8:
        bits.append(0)  # zero padding, last byte only
    return bytearray(
        sum(bits[i + k] << k for k in range(8)) for i in range(0, len(bits), 8)
    )


# --------------------------------------------------------------------------
# random values
# --------------------------------------------------------------------------


def f32(x):
    return struct.unpack("<f", struct.pack("<f", x))[0]


def rand_value(rng, fcp, ty, depth=0):
    if isinstance(ty, UnsignedType):
        n = int(ty.name[1:])
        return rng.choice([0, (1 << n) - 1, rng.randrange(1 << n), 1 << (n - 1)])
    if isinstance(ty, SignedType):
        n = int(ty.name[1:])
        lo, hi = -(1 << (n - 1)) + 1, (1 << (n - 1)) - 1  # most negative: see below
        return rng.choice([0, -1, lo, hi, rng.randint(lo, hi)])
    if isinstance(ty, FloatType):
        return f32(rng.choice([0.0, -0.0, 1.5, -2.25, 3.4e38, 1e-45, rng.uniform(-1e6, 1e6)]))
    if isinstance(ty, DoubleType):
        return rng.choice([0.0, -0.0, 1e308, 5e-324, math.pi, rng.uniform(-1e12, 1e12)])
    if isinstance(ty, StringType):
        return "".join(chr(rng.randrange(128)) for _ in range(rng.choice([0, 1, 2, 7, 19])))
    if isinstance(ty, EnumType):
        enum = [e for e in fcp.enums if e.name == ty.name][0]
        return rng.choice([e.value for e in enum.enumeration])
    if isinstance(ty, StructType):
        return rand_struct(rng, fcp, ty.name, depth + 1)
    if isinstance(ty, ArrayType):
        return [rand_value(rng, fcp, ty.underlying_type, depth + 1) for _ in range(ty.size)]
    if isinstance(ty, DynamicArrayType):
        n = rng.choice([0, 0, 1, 2, 3, 5])
        return [rand_value(rng, fcp, ty.underlying_type, depth + 1) for _ in range(n)]
    if isinstance(ty, OptionalType):
        if rng.random() < 0.4:
            return None
        return rand_value(rng, fcp, ty.underlying_type, depth + 1)
    raise AssertionError(ty)


def rand_struct(rng, fcp, name, depth=0):
    st = [s for s in fcp.structs if s.name == name][0]
    fields = list(st.fields)
    rng.shuffle(fields)  # key order of the dict must not matter
    return {f.name: rand_value(rng, fcp, f.type, depth) for f in fields}


def same(a, b):
    """Deep equality that tells -0.0 from 0.0 and accepts NaN == NaN."""
    if isinstance(a, float) and isinstance(b, float):
        return struct.pack("<d", a) == struct.pack("<d", b)
    if isinstance(a, dict) and isinstance(b, dict):
        return a.keys() == b.keys() and all(same(a[k], b[k]) for k in a)
    if isinstance(a, list) and isinstance(b, list):
        return len(a) == len(b) and all(same(x, y) for x, y in zip(a, b))
    return type(a) is type(b) and a == b


def both_ways(fcp, name, value, what):
    expected = ref_encode(fcp, name, value)
    got = encode(fcp, name, value)
    check(isinstance(got, bytearray), what + ": encode returns a bytearray")
    check(got == expected, f"{what}: encode {bytes(got).hex()} != {bytes(expected).hex()}")
    back = decode(fcp, name, expected)
    check(same(back, value), f"{what}: decode gives {back!r}, wanted {value!r}")
    # decoding accepts bytes / list input and ignores what follows the value
    check(same(decode(fcp, name, bytes(expected) + b"\xa5\x5a"), value), what + ": trailing bytes")
    return expected


def raised(fn):
    try:
        fn()
    except BaseException as e:  # noqa: BLE001
        return type(e).__name__, str(e)
    return None, None


# --------------------------------------------------------------------------
# 1. cross-language vectors
# --------------------------------------------------------------------------

CONSTANTS = {
    "ULONG_MAX": 2**64 - 1,
    "LLONG_MAX": 2**63 - 1,
    "LLONG_MIN": -(2**63),
}


def vector_value(fcp, ty, text):
    if isinstance(ty, OptionalType):
        return None if text is None else vector_value(fcp, ty.underlying_type, text)
    if isinstance(ty, (ArrayType, DynamicArrayType)):
        return [vector_value(fcp, ty.underlying_type, t) for t in text]
    if isinstance(ty, (UnsignedType, SignedType)):
        return CONSTANTS[text] if text in CONSTANTS else int(text, 0)
    if isinstance(ty, (FloatType, DoubleType)):
        return float(text)
    if isinstance(ty, EnumType):
        enum = [e for e in fcp.enums if e.name == ty.name][0]
        return [e.value for e in enum.enumeration if e.name == text][0]
    if isinstance(ty, StringType):
        return text
    raise AssertionError(ty)


def run_vectors():
    std = FCP_ROOT / "tests" / "standardized"
    suites = json.loads((std / "fcp_tests.json").read_text())
    seen = 0
    for suite in suites:
        fcp = get_fcp(std / suite["schema"]).unwrap()
        for test in suite["tests"]:
            st = [s for s in fcp.structs if s.name == test["datatype"]][0]
            value = {}
            for xpath, text in test["decoded"].items():
                field = [f for f in st.fields if f.name == xpath.split(":")[1]][0]
                value[field.name] = vector_value(fcp, field.type, text)
            wire = bytearray(int(b, 0) if isinstance(b, str) else b for b in test["encoded"])
            what = suite["name"] + "/" + test["name"]
            check(encode(fcp, test["datatype"], value) == wire, what + ": encode != vector")
            check(ref_encode(fcp, test["datatype"], value) == wire, what + ": reference != vector")
            back = decode(fcp, test["datatype"], wire)
            for k, v in value.items():
                if isinstance(v, int) and not isinstance(v, bool) and v < 0 and (-v & (-v - 1)) == 0 and test["name"].endswith("lowest_values"):
                    # most negative value of the width: only the magnitude is pinned
                    check(abs(back[k]) == -v, what + ": magnitude of lowest value")
                else:
                    check(same(back[k], v), f"{what}: decode {k} gives {back[k]!r}, wanted {v!r}")
            seen += 1
    check(seen >= 26, "all vectors seen")


# --------------------------------------------------------------------------
# 2. nested schema, random and boundary values
# --------------------------------------------------------------------------


def run_random(fcp):
    rng = random.Random(20240602)
    for name, rounds in (("Outer", 250), ("Mid", 150), ("Inner", 60), ("Shuffled", 40), ("Scalars", 200), ("Words", 120)):
        for i in range(rounds):
            both_ways(fcp, name, rand_struct(rng, fcp, name), f"{name}#{i}")


def run_boundaries(fcp):
    # every single field of Scalars at its extremes while the others are 0
    st = [s for s in fcp.structs if s.name == "Scalars"][0]
    zero = {f.name: 0 for f in st.fields}
    for f in st.fields:
        n = int(f.type.name[1:])
        if f.type.name[0] == "u":
            edge = [0, 1, (1 << n) - 1, 1 << (n - 1), (1 << (n - 1)) - 1]
        else:
            edge = [0, 1, -1, (1 << (n - 1)) - 1, -(1 << (n - 1)) + 1]
        for v in edge:
            both_ways(fcp, "Scalars", dict(zero, **{f.name: v}), f"Scalars.{f.name}={v}")
        if f.type.name[0] == "i":
            # most negative value: the encoding is canonical, decoding keeps the magnitude
            lowest = -(1 << (n - 1))
            value = dict(zero, **{f.name: lowest})
            wire = ref_encode(fcp, "Scalars", value)
            check(encode(fcp, "Scalars", value) == wire, f"Scalars.{f.name} lowest: encode")
            back = decode(fcp, "Scalars", wire)
            check(abs(back[f.name]) == -lowest, f"Scalars.{f.name} lowest: magnitude")
            check(all(back[k] == 0 for k in back if k != f.name), f"Scalars.{f.name} lowest: neighbours")

    # out of range values are truncated to the field width, neighbours untouched
    for v in (8, 9, 255, -1, -8, 1 << 70, -(1 << 70) + 5):
        value = {"a": v, "b": 0, "c": 1}
        check(encode(fcp, "Inner", value) == ref_encode(fcp, "Inner", value), f"Inner.a={v} truncated")
        check(decode(fcp, "Inner", encode(fcp, "Inner", value)) == {"a": v & 7, "b": 0, "c": 1}, f"Inner.a={v} decoded")
    # bool is an int
    check(encode(fcp, "Inner", {"a": True, "b": False, "c": True}) == ref_encode(fcp, "Inner", {"a": 1, "b": 0, "c": 1}), "bools")
    # extra keys are ignored, key order is irrelevant
    check(encode(fcp, "Inner", {"zzz": 1, "c": 1, "b": -3, "a": 5, "aaa": object()}) == ref_encode(fcp, "Inner", {"a": 5, "b": -3, "c": 1}), "extra keys")
    # tuples / ranges / bytes are fine where lists are expected
    m = {"tag": 1, "inner": {"a": 1, "b": 1, "c": 0}, "items": tuple({"a": i, "b": -i, "c": i & 1} for i in range(3)), "name": "x"}
    check(encode(fcp, "Mid", m) == ref_encode(fcp, "Mid", m), "tuple as array")
    # longer-than-declared static arrays: the surplus is not written
    m2 = dict(m, items=list(m["items"]) + [{"a": 7, "b": 7, "c": 1}])
    check(encode(fcp, "Mid", m2) == encode(fcp, "Mid", m), "surplus array elements")
    # floats: special values bit for bit
    outer = rand_struct(random.Random(7), fcp, "Outer")
    for fv in (float("inf"), float("-inf"), float("nan"), -0.0, 1e-45, 3.4028234663852886e38):
        for dv in (float("inf"), float("nan"), -0.0, 5e-324, 1.7976931348623157e308):
            v = dict(outer, f=fv, d=dv)
            wire = ref_encode(fcp, "Outer", v)
            check(encode(fcp, "Outer", v) == wire, f"float {fv} {dv}")
            back = decode(fcp, "Outer", wire)
            check(same(back["f"], f32(fv)) or (math.isnan(fv) and math.isnan(back["f"])), f"f32 {fv} back")
            check(same(back["d"], dv) or (math.isnan(dv) and math.isnan(back["d"])), f"f64 {dv} back")
    # integers given to float fields
    v = dict(outer, f=3, d=-7)
    check(encode(fcp, "Outer", v) == ref_encode(fcp, "Outer", v), "ints in float fields")

    # hand-made vectors (independent of the reference encoder as well)
    check(encode(fcp, "Inner", {"a": 5, "b": -3, "c": 1}) == bytearray([0b11101101, 0b1]), "Inner by hand")
    check(decode(fcp, "Inner", bytearray([0b11101101, 0b1])) == {"a": 5, "b": -3, "c": 1}, "Inner by hand, decode")
    check(encode(fcp, "Shuffled", {"x": 0xAB, "y": 0x1, "z": 0xF}) == bytearray([0xB1, 0xFA]), "Shuffled by hand")
    check(list(decode(fcp, "Shuffled", bytearray([0xB1, 0xFA])).items()) == [("y", 1), ("x", 0xAB), ("z", 0xF)], "Shuffled decode, key order")
    check(
        encode(fcp, "Words", {"lead": 7, "text": "A", "more": ["", "B"], "maybe": None})
        == bytearray([0x0F, 0, 0, 0, 0x08, 0x02, 0, 0, 0, 0x08, 0, 0, 0, 0x10, 0x02, 0x00]),
        "Words by hand",
    )
    check(
        decode(fcp, "Words", bytearray([0x0F, 0, 0, 0, 0x08, 0x02, 0, 0, 0, 0x08, 0, 0, 0, 0x10, 0x0A, 0x08, 0, 0, 0, 0x18, 0x02]))
        == {"lead": 7, "text": "A", "more": ["", "B"], "maybe": "C"},
        "Words by hand, decode",
    )
    # presence flag: any non zero byte means present
    check(decode(fcp, "Words", bytearray([0x0F, 0, 0, 0, 0x08, 0x02, 0, 0, 0, 0x08, 0, 0, 0, 0x10, 0x12, 0x08, 0, 0, 0, 0x18, 0x02]))["maybe"] == "C", "flag 2 is present")


# --------------------------------------------------------------------------
# 3. error inputs: what is refused, with which exception
# --------------------------------------------------------------------------


class Tracker(dict):
    """A dict that records the order in which its keys are read."""

    log = []

    def __getitem__(self, key):
        Tracker.log.append(key)
        return dict.__getitem__(self, key)


def run_errors(fcp):
    good_inner = {"a": 1, "b": 1, "c": 1}
    good_mid = {"tag": 1, "inner": good_inner, "items": [good_inner] * 3, "name": "ok"}

    check(raised(lambda: encode(fcp, "Inner", {"a": 1, "c": 1}))[0] == "KeyError", "missing key")
    check(raised(lambda: encode(fcp, "Inner", {"a": 1, "c": 1}))[1] == "'b'", "missing key names the field")
    check(raised(lambda: encode(fcp, "Inner", {"a": "1", "b": 1, "c": 1}))[0] == "TypeError", "str for int")
    check(raised(lambda: encode(fcp, "Inner", {"a": 1.0, "b": 1, "c": 1}))[0] == "TypeError", "float for int")
    check(raised(lambda: encode(fcp, "Inner", {"a": None, "b": 1, "c": 1}))[0] == "TypeError", "None for int")
    check(raised(lambda: encode(fcp, "Inner", {"a": 1, "b": 1, "c": "B"}))[0] == "TypeError", "enum by name")
    # the first problem in wire order wins, later ones are never looked at
    check(raised(lambda: encode(fcp, "Inner", {"a": "x", "c": 1}))[0] == "TypeError", "bad a before missing b")
    check(raised(lambda: encode(fcp, "Inner", {"b": "x", "c": 1}))[0] == "KeyError", "missing a before bad b")
    check(raised(lambda: encode(fcp, "Mid", dict(good_mid, items=[good_inner] * 2)))[0] == "IndexError", "short static array")
    check(raised(lambda: encode(fcp, "Mid", dict(good_mid, items=[good_inner, {"a": 1}, None])))[0:2] == ("KeyError", "'b'"), "element 1 before element 2")
    check(raised(lambda: encode(fcp, "Mid", dict(good_mid, items=[good_inner, None, {"a": 1}])))[0] == "TypeError", "None as struct")
    check(raised(lambda: encode(fcp, "Mid", dict(good_mid, name=None)))[0] == "TypeError", "None as str")
    check(raised(lambda: encode(fcp, "Mid", dict(good_mid, name=[1, 2])))[0] == "TypeError", "list as str")
    check(raised(lambda: encode(fcp, "Mid", dict(good_mid, name=["a", "bc"])))[0] == "TypeError", "list of str as str")
    check(encode(fcp, "Mid", dict(good_mid, name=["a", "b"])) == encode(fcp, "Mid", dict(good_mid, name="ab")), "list of chars is a str")
    check(raised(lambda: encode(fcp, "Nope", {}))[0] is not None, "unknown struct")
    unknown = raised(lambda: encode(fcp, "Nope", {}))
    check(raised(lambda: decode(fcp, "Nope", bytearray(4))) == unknown, "unknown struct, decode")
    check(raised(lambda: encode(fcp, "Small", {}))== unknown, "enum name is not a struct")
    check(raised(lambda: encode(fcp, "Inner", None))[0] == "TypeError", "None as top level")
    check(raised(lambda: encode(fcp, "Inner", [1, 2, 3]))[0] == "TypeError", "list as top level")

    outer = rand_struct(random.Random(11), fcp, "Outer")
    check(encode(fcp, "Outer", dict(outer, f=1e39)) == ref_encode(fcp, "Outer", dict(outer, f=float("inf"))), "f32 overflow rounds to inf")
    check(raised(lambda: encode(fcp, "Outer", dict(outer, f="1.0")))[0] == "error", "str for f32")
    check(raised(lambda: encode(fcp, "Outer", dict(outer, d=None)))[0] == "error", "None for f64")
    check(raised(lambda: encode(fcp, "Outer", dict(outer, dyn=5)))[0] == "TypeError", "int as dynamic array")
    check(raised(lambda: encode(fcp, "Outer", dict(outer, dyn=None)))[0] == "TypeError", "None as dynamic array")
    check(raised(lambda: encode(fcp, "Outer", dict(outer, dyn=iter([]))))[0] == "TypeError", "iterator has no len")
    check(raised(lambda: encode(fcp, "Outer", dict(outer, optdyn=[1, "2"])))[0] == "TypeError", "bad element in optional array")
    check(raised(lambda: encode(fcp, "Outer", dict(outer, dynopt=["a", None, 3])))[0] == "TypeError", "bad element in array of optionals")
    check(raised(lambda: encode(fcp, "Outer", dict(outer, matrix=[[1, 2], [3], [5, 6]])))[0] == "IndexError", "short inner array")
    check(raised(lambda: encode(fcp, "Outer", dict(outer, dd=[[1], 2])))[0] == "TypeError", "int as inner dynamic array")
    # dynamic arrays take any sized iterable; a dict contributes its keys, in order
    v = dict(outer, optdyn={3: "x", 1: "y", 2: "z"})
    check(encode(fcp, "Outer", v) == ref_encode(fcp, "Outer", dict(outer, optdyn=[3, 1, 2])), "dict as dynamic array")
    v = dict(outer, optdyn=range(4, 0, -1), dd=(range(3), (), [-256, 255]))
    check(encode(fcp, "Outer", v) == ref_encode(fcp, "Outer", v), "ranges as dynamic arrays")

    # values are fetched in wire order, exactly once each, and never after a failure
    Tracker.log = []
    t = Tracker(tag=1, inner=Tracker(a=1, b=2, c=1), items=[Tracker(c=0, b=i, a=i) for i in range(3)], name="n")
    encode(fcp, "Mid", t)
    check(Tracker.log == ["tag", "inner", "a", "b", "c", "items", "a", "b", "c", "a", "b", "c", "a", "b", "c", "name"], f"read order {Tracker.log}")
    Tracker.log = []
    t = Tracker(tag=1, inner=Tracker(a=1, b="boom", c=1), items=[], name="n")
    check(raised(lambda: encode(fcp, "Mid", t))[0] == "TypeError", "tracked failure")
    check(Tracker.log == ["tag", "inner", "a", "b"], f"nothing is read after the failure: {Tracker.log}")

    # decoding: truncated input, byte by byte
    rng = random.Random(5)
    for name in ("Outer", "Mid", "Words", "Scalars"):
        for _ in range(6):
            value = rand_struct(rng, fcp, name)
            wire = ref_encode(fcp, name, value)
            for cut in range(len(wire)):
                got = raised(lambda: decode(fcp, name, wire[:cut]))
                check(got == ("ValueError", "buffer overrrun"), f"{name} cut at {cut}/{len(wire)}: {got}")
    check(raised(lambda: decode(fcp, "Inner", bytearray()))[0] == "ValueError", "empty input")
    # a count that promises more than there is
    check(raised(lambda: decode(fcp, "Words", bytearray([0x07, 0xFF, 0xFF, 0xFF, 0xFF, 0x41])))[0] == "ValueError", "huge string count")
    # non ASCII text is refused when decoding and (by ord > 255 truncation) never produced
    w = {"lead": 1, "text": "a\x80b", "more": ["", ""], "maybe": None}
    check(encode(fcp, "Words", w) == ref_encode(fcp, "Words", w), "latin-1 text is written as is")
    check(raised(lambda: decode(fcp, "Words", ref_encode(fcp, "Words", w)))[0] == "UnicodeDecodeError", "0x80 in a string")
    check(encode(fcp, "Words", dict(w, text="\u0141")) == encode(fcp, "Words", dict(w, text="A")), "only the low byte of a character is written")
    check(raised(lambda: decode(fcp, "Inner", None))[0] == "TypeError", "None as wire")
    check(decode(fcp, "Inner", [0b11101101, 0b1]) == {"a": 5, "b": -3, "c": 1}, "list as wire")
    check(decode(fcp, "Inner", b"\xed\x01") == {"a": 5, "b": -3, "c": 1}, "bytes as wire")
    check(decode(fcp, "Inner", memoryview(b"\xed\x01")) == {"a": 5, "b": -3, "c": 1}, "memoryview as wire")


# --------------------------------------------------------------------------
# 4. repeated / interleaved calls, schemas edited between calls
# --------------------------------------------------------------------------


def run_repeats(fcp):
    rng = random.Random(99)
    other = get_fcp_from_string(
        'version: "3"\n\nenum Small { A = 0, B = 1, C = 2, D = 9, }\n\n'
        "struct Inner { c @ 0: Small, a @ 1: u16, }\n"
    ).unwrap()
    inner = {"a": 5, "b": -3, "c": 1}
    first = bytes(encode(fcp, "Inner", inner))
    # the same struct / enum names mean something else in another schema
    for _ in range(5):
        check(bytes(encode(fcp, "Inner", inner)) == first == b"\xed\x01", "Inner, schema 1")
        check(encode(other, "Inner", inner) == bytearray([0x51, 0x00, 0x00]), "Inner, schema 2")
        check(decode(other, "Inner", bytearray([0x59, 0x10, 0x00])) == {"c": 9, "a": 0x105}, "Inner, schema 2, decode")
        check(decode(fcp, "Inner", bytearray(first)) == inner, "Inner, schema 1, decode")
    values = [rand_struct(rng, fcp, "Outer") for _ in range(10)]
    wires = [bytes(encode(fcp, "Outer", v)) for v in values]
    for _ in range(3):
        for v, w in zip(values, wires):
            check(bytes(encode(fcp, "Outer", v)) == w, "repeat encode")
            check(same(decode(fcp, "Outer", bytearray(w)), v), "repeat decode")
    # the inputs are left alone
    snapshot = json.dumps(values[0], sort_keys=True)
    wire = bytearray(wires[0])
    encode(fcp, "Outer", values[0])
    decode(fcp, "Outer", wire)
    check(json.dumps(values[0], sort_keys=True) == snapshot and bytes(wire) == wires[0], "inputs untouched")
    # results are fresh objects
    a, b = decode(fcp, "Outer", wire), decode(fcp, "Outer", wire)
    check(a is not b and a["mid"] is not b["mid"] and a["matrix"] is not b["matrix"], "fresh results")
    a["mid"]["name"] = "changed"
    check(same(decode(fcp, "Outer", wire), values[0]), "results are not shared")

    # editing the schema between two calls is honoured by the next call
    edited = get_fcp_from_string(SCHEMA).unwrap()
    before = encode(edited, "Inner", inner)
    check(before == bytearray(first), "copy of the schema")
    small = [e for e in edited.enums if e.name == "Small"][0]
    small.enumeration.append(Enumeration(name="HUGE", value=200, meta=None))
    check(encode(edited, "Inner", inner) == ref_encode(edited, "Inner", inner) == bytearray([0xED, 0x01]), "enum widened: 8 bits now")
    check(decode(edited, "Inner", bytearray([0xED, 0xC8])) == {"a": 5, "b": -3, "c": 200}, "enum widened, decode")
    small.enumeration.pop()
    check(encode(edited, "Inner", inner) == before, "enum narrowed again")
    st = [s for s in edited.structs if s.name == "Inner"][0]
    st.fields[0].field_id, st.fields[2].field_id = 2, 0
    check(encode(edited, "Inner", inner) == ref_encode(edited, "Inner", inner) == bytearray([0b01111011, 0b1]), "field ids swapped")
    check(list(decode(edited, "Inner", bytearray([0b01111011, 0b1])).items()) == [("c", 1), ("b", -3), ("a", 5)], "field ids swapped, decode")
    check(encode(fcp, "Inner", inner) == bytearray(first), "the other schema object is unaffected")
    # struct appended under a name that already exists: the first one keeps winning
    edited2 = get_fcp_from_string(SCHEMA).unwrap()
    edited2.structs.append([s for s in other.structs if s.name == "Inner"][0])
    check(encode(edited2, "Inner", inner) == bytearray(first), "first definition wins")
    edited2.structs.insert(0, edited2.structs.pop())
    check(encode(edited2, "Inner", {"a": 5, "c": 1}) == bytearray([0x0B, 0x00, 0x00]), "now the other one is first")

    # an enum and a struct may share a name, they are looked up separately
    edited3 = get_fcp_from_string(SCHEMA).unwrap()
    wide = [e for e in edited3.enums if e.name == "Wide"][0]
    twin = get_fcp_from_string(SCHEMA).unwrap().enums[1]
    check(twin.name == "Wide" and twin is not wide, "a second Wide")
    twin.name = "Inner"
    edited3.enums.append(twin)
    outer_st = [s for s in edited3.structs if s.name == "Outer"][0]
    [f for f in outer_st.fields if f.name == "wide"][0].type = EnumType("Inner")
    [f for f in outer_st.fields if f.name == "solo"][0].type = EnumType("Inner")
    for v in values[:4]:
        v = dict(v, solo=300)
        w = ref_encode(edited3, "Outer", v)
        check(encode(edited3, "Outer", v) == w, "enum Inner next to struct Inner")
        check(same(decode(edited3, "Outer", w), v), "enum Inner next to struct Inner, decode")
        check(len(w) == len(encode(fcp, "Outer", dict(v, solo=0))) + 1, "solo went from 1 to 9 bits")
    # a type that names nothing is refused every time it is met, in both directions
    [f for f in outer_st.fields if f.name == "tail"][0].type = EnumType("Ghost")
    missing = raised(lambda: encode(fcp, "Nope", {}))
    for _ in range(2):
        check(raised(lambda: encode(edited3, "Outer", values[0])) == missing, "unknown enum")
        check(raised(lambda: decode(edited3, "Outer", bytearray(wires[0]) + bytearray(8))) == missing, "unknown enum, decode")
    [f for f in outer_st.fields if f.name == "tail"][0].type = StructType("Ghost")
    check(raised(lambda: encode(edited3, "Outer", values[0])) == missing, "unknown struct in a field")
    check(raised(lambda: decode(edited3, "Outer", bytearray(wires[0]) + bytearray(8))) == missing, "unknown struct in a field, decode")
    # ... but only when it is met
    [f for f in outer_st.fields if f.name == "tail"][0].type = OptionalType(StructType("Ghost"))
    v = dict(values[0], tail=None, solo=1)
    check(encode(edited3, "Outer", v) == ref_encode(edited3, "Outer", v), "absent value of an unknown type")
    check(raised(lambda: encode(edited3, "Outer", dict(v, tail={})))  == missing, "present value of an unknown type")


def run_reflection(fcp):
    """What `fcp` itself does with the codec: ship a schema as data."""
    schema = get_reflection_schema().unwrap()
    data = fcp.reflection()
    wire = encode(schema, "Fcp", data)
    check(wire == ref_encode(schema, "Fcp", data), "reflection encode")
    check(len(wire) > 1000, "reflection is a big value")
    back = decode(schema, "Fcp", wire)
    check(encode(schema, "Fcp", back) == wire, "reflection round trip")
    names = [s["name"] for s in back["structs"]]
    check(names == [s.name for s in fcp.structs], "reflection content")


def main():
    fcp = get_fcp_from_string(SCHEMA).unwrap()
    run_vectors()
    run_boundaries(fcp)
    run_random(fcp)
    run_errors(fcp)
    run_repeats(fcp)
    run_reflection(fcp)
    print(f"PASS ({checks} checks)")


if __name__ == "__main__":
    main()
