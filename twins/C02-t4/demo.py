#!/venv/bin/python
"""Differential test for property C02 on the C++ side of the canonical format.

The canonical FCP wire format is "what the generated C++ code emits".  This demo
generates the C++ code for a schema with the fcp_cpp plug-in found on PYTHONPATH
(so buffer.h / decoders.h come from the worktree under test), compiles it with the
warning flags of the project's own C++ tests and checks:

  A. Buffer unit level: PushWord (both overloads) and GetWord agree with a naive
     bit-by-bit model written inside the test program, for every bit length 1..64,
     signed/unsigned, aligned and unaligned offsets, little and big endian, plus the
     std::runtime_error for unsupported big endian widths.
  B. Codec level: for hand written and random values
        C++ Encode()            == independent Python reference bytes
        Python fcp.serde.encode == the same bytes
        C++ Decode(bytes) -> json == value
        Python decode(bytes)    == value
  C. The cross-language vectors tests/standardized/fcp_tests.json through the
     generated StaticSchema::EncodeJson.

Run with PYTHONPATH pointing at the worktree under test; FCP_ROOT (default
/tmp/twin-C02) locates repository files.  Needs g++ and nlohmann/json
(-isystem /root/miniconda/include, override with NLOHMANN_INCLUDE).
"""

import json
import os
import random
import struct as pystruct
import subprocess
import sys
import tempfile
from pathlib import Path

FCP_ROOT = Path(os.environ.get("FCP_ROOT", "/tmp/twin-C02"))
NLOHMANN = os.environ.get("NLOHMANN_INCLUDE", "/root/miniconda/include")

import fcp_cpp  # noqa: E402
from fcp_cpp import Generator  # noqa: E402
from fcp.parser import get_fcp  # noqa: E402
from fcp.serde import encode, decode  # noqa: E402
from fcp.reflection import get_reflection_schema  # noqa: E402
from fcp.specs.type import (  # noqa: E402
    ArrayType,
    StructType,
    EnumType,
    DynamicArrayType,
    OptionalType,
    StringType,
    UnsignedType,
    SignedType,
    FloatType,
    DoubleType,
)

# same warning set as plugins/fcp_cpp/tests/cc_binary.py
FLAGS = [
    "--std=c++17", "-Werror", "-Wall", "-Wextra", "-Wformat-nonliteral", "-Wcast-align",
    "-Wpointer-arith", "-Winline", "-Wundef", "-Wcast-qual", "-Wshadow",
    "-Wwrite-strings", "-Wno-unused-parameter", "-Wfloat-equal", "-pedantic",
]

CHECKS = 0
FAILURES = []


def check(cond, what):
    global CHECKS
    CHECKS += 1
    if not cond:
        FAILURES.append(what)
        if len(FAILURES) <= 20:
            print("FAIL:", what)


# ------------------------------------------------------------------ reference
def _bits(word, n):
    return [(word >> i) & 1 for i in range(n)]


def _enum_bits(fcp, name):
    (enum,) = [e for e in fcp.enums if e.name == name]
    m = max([e.value for e in enum.enumeration], default=0)
    return 1 if m in (0, 1) else m.bit_length()


def _struct_fields(fcp, name):
    (st,) = [s for s in fcp.structs if s.name == name]
    return sorted(st.fields, key=lambda f: f.field_id)


def ref_bits(fcp, t, v):
    if isinstance(t, (UnsignedType, SignedType)):
        n = int(t.name[1:])
        return _bits(v % (1 << n), n)
    if isinstance(t, FloatType):
        return _bits(int.from_bytes(pystruct.pack("<f", v), "little"), 32)
    if isinstance(t, DoubleType):
        return _bits(int.from_bytes(pystruct.pack("<d", v), "little"), 64)
    if isinstance(t, StringType):
        raw = v.encode("ascii")
        out = _bits(len(raw), 32)
        for b in raw:
            out += _bits(b, 8)
        return out
    if isinstance(t, EnumType):
        return _bits(v, _enum_bits(fcp, t.name))
    if isinstance(t, StructType):
        out = []
        for f in _struct_fields(fcp, t.name):
            out += ref_bits(fcp, f.type, v[f.name])
        return out
    if isinstance(t, ArrayType):
        out = []
        for i in range(t.size):
            out += ref_bits(fcp, t.underlying_type, v[i])
        return out
    if isinstance(t, DynamicArrayType):
        out = _bits(len(v), 32)
        for x in v:
            out += ref_bits(fcp, t.underlying_type, x)
        return out
    if isinstance(t, OptionalType):
        if v is None:
            return _bits(0, 8)
        return _bits(1, 8) + ref_bits(fcp, t.underlying_type, v)
    raise AssertionError(t)


def ref_encode(fcp, name, value):
    bits = ref_bits(fcp, StructType(name), value)
    out = bytearray((len(bits) + 7) // 8)
    for i, b in enumerate(bits):
        out[i >> 3] |= b << (i & 7)
    return out


def f32(x):
    return pystruct.unpack("<f", pystruct.pack("<f", x))[0]


# --------------------------------------------------------------------- schema
SCHEMA = """version: "3"

enum Mode {
    Off = 0,
    On = 1,
    Auto = 2,
    Fault = 5,
}

enum Flag {
    No = 0,
    Yes = 1,
}

enum Wide {
    A = 0,
    B = 255,
    C = 256,
}

struct Inner {
    a @ 0: u3,
    b @ 1: i5,
    c @ 2: Mode,
}

struct Bits {
    f0 @ 0: u1,
    f1 @ 1: i2,
    f2 @ 2: u7,
    f3 @ 3: i13,
    f4 @ 4: u33,
    f5 @ 5: i64,
    f6 @ 6: u64,
    f7 @ 7: Flag,
    f8 @ 8: Wide,
    f9 @ 9: i32,
    f10 @ 10: i17,
    f11 @ 11: u16,
    f12 @ 12: i8,
}

struct Floats {
    pad @ 0: u3,
    x @ 1: f32,
    y @ 2: f64,
    tail @ 3: i6,
}

struct Shuffled {
    third @ 2: u5,
    first @ 0: u3,
    second @ 1: i9,
}

struct Nested {
    lead @ 0: u5,
    inner @ 1: Inner,
    arr @ 2: [Inner, 3],
    name @ 3: str,
    dyn @ 4: [i11],
    opt @ 5: Optional[Inner],
    optarr @ 6: Optional[[u4]],
    grid @ 7: [[u3, 2], 3],
    names @ 8: [str],
    modes @ 9: [Mode, 3],
    maybe_str @ 10: Optional[str],
    end @ 11: u2,
}
"""

MAIN_CPP = r"""
#include <iostream>
#include <stdexcept>
#include <cmath>
#include <limits>
#include <random>
#include <fstream>
#include <filesystem>
#include "fcp.h"
#include "dynamic.h"

using fcp::Buffer;
using fcp::Endianess;

// ---------------------------------------------------------------- part A: model
struct Model {
    std::vector<std::uint8_t> bytes;
    std::size_t pos = 0;
    void push(std::uint64_t word, unsigned n) {
        for (unsigned i = 0; i < n; i++) {
            std::size_t bit = pos + i;
            if ((bit >> 3) >= bytes.size()) bytes.push_back(0);
            if ((word >> i) & 1U) bytes[bit >> 3] = static_cast<std::uint8_t>(bytes[bit >> 3] | (1U << (bit & 7)));
        }
        pos += n;
    }
    std::uint64_t get(unsigned n, bool sign) {
        std::uint64_t r = 0;
        for (unsigned i = 0; i < n; i++) {
            std::size_t bit = pos + i;
            std::uint64_t b = (bytes.at(bit >> 3) >> (bit & 7)) & 1U;
            r |= b << i;
        }
        pos += n;
        if (sign && n < 64 && ((r >> (n - 1)) & 1U)) {
            r |= ~std::uint64_t{0} << n;   // two's complement sign extension
        }
        return r;
    }
};

static std::uint64_t bswap(std::uint64_t v, unsigned n) {
    std::uint64_t r = 0;
    for (unsigned i = 0; i < n / 8; i++) {
        r |= ((v >> (8 * i)) & 0xFFU) << (n - 8 - 8 * i);
    }
    return r;
}

static int failures = 0;
static long checks = 0;
#define CHECK(c, msg) do { checks++; if (!(c)) { failures++; if (failures < 20) std::cout << "FAIL: " << msg << std::endl; } } while (0)

template <typename T, std::size_t N>
static void fixed_push(Buffer& b, Model& m, std::uint64_t w, Endianess e) {
    b.PushWord<T, N>(static_cast<T>(w), e);
    std::uint64_t ww = static_cast<std::uint64_t>(static_cast<T>(w));
    m.push(e == Endianess::Little ? ww : bswap(ww & (N == 64 ? ~0ULL : ((1ULL << N) - 1)), N), N);
}

static int unit_tests() {
    std::mt19937_64 rng(0xC02);
    const std::uint64_t specials[] = {0ULL, 1ULL, ~0ULL, 0x8000000000000000ULL, 0x7FFFFFFFFFFFFFFFULL,
                                      0xAAAAAAAAAAAAAAAAULL, 0x5555555555555555ULL, 0x0123456789ABCDEFULL};
    // runtime-length PushWord + GetWord for every length, many offsets
    for (unsigned lead = 0; lead < 9; lead++) {
        for (unsigned n = 1; n <= 64; n++) {
            for (int k = 0; k < 12; k++) {
                std::uint64_t w = k < 8 ? specials[k] : rng();
                Buffer b{0};
                Model m;
                if (lead) { b.PushWord<std::uint16_t>(0x1FF, lead); m.push(0x1FF, lead); }
                b.PushWord<std::uint64_t>(w, n); m.push(w, n);
                b.PushWord<std::int64_t>(static_cast<std::int64_t>(~w), n); m.push(~w, n);
                b.PushWord<std::uint8_t>(1, 1); m.push(1, 1);
                CHECK(b.GetData() == m.bytes, "runtime PushWord n=" << n << " lead=" << lead << " w=" << w);
                for (int sign = 0; sign < 2; sign++) {
                    Buffer r{b.GetData()};
                    Model mr; mr.bytes = m.bytes;
                    if (lead) { CHECK(r.GetWord(lead) == mr.get(lead, false), "lead"); }
                    auto g1 = r.GetWord(n, sign != 0); auto e1 = mr.get(n, sign != 0);
                    auto g2 = r.GetWord(n, sign != 0); auto e2 = mr.get(n, sign != 0);
                    auto g3 = r.GetWord(1, sign != 0); auto e3 = mr.get(1, sign != 0);
                    CHECK(g1 == e1 && g2 == e2 && g3 == e3, "GetWord n=" << n << " lead=" << lead << " sign=" << sign << " w=" << w
                          << " got " << g1 << "," << g2 << "," << g3 << " want " << e1 << "," << e2 << "," << e3);
                }
            }
        }
    }
    // fixed-size overload, the one the generated encoders use
    for (int k = 0; k < 40; k++) {
        std::uint64_t w = k < 8 ? specials[k] : rng();
        for (int big = 0; big < 2; big++) {
            Endianess e = big ? Endianess::Big : Endianess::Little;
            Buffer b{0};
            Model m;
            if (!big) {
                fixed_push<std::uint8_t, 3>(b, m, w, e);
                fixed_push<std::int8_t, 5>(b, m, w, e);
                fixed_push<std::uint8_t, 1>(b, m, w, e);
                fixed_push<std::int16_t, 13>(b, m, w, e);
                fixed_push<std::uint64_t, 33>(b, m, w, e);
                fixed_push<std::int32_t, 17>(b, m, w, e);
                fixed_push<std::uint64_t, 63>(b, m, w, e);
                fixed_push<std::uint16_t, 9>(b, m, w, e);
            } else {
                fixed_push<std::uint8_t, 3>(b, m, w, Endianess::Little);  // unaligned start
            }
            fixed_push<std::uint8_t, 8>(b, m, w, e);
            fixed_push<std::int8_t, 8>(b, m, w, e);
            fixed_push<std::uint16_t, 16>(b, m, w, e);
            fixed_push<std::uint32_t, 32>(b, m, w, e);
            fixed_push<std::uint64_t, 64>(b, m, w, e);
            fixed_push<std::int64_t, 64>(b, m, w, e);
            CHECK(b.GetData() == m.bytes, "fixed PushWord big=" << big << " w=" << w);

            // big endian reads of what was written
            if (big) {
                Buffer r{b.GetData()};
                Model mr; mr.bytes = m.bytes;
                r.GetWord(3); mr.get(3, false);
                const unsigned widths[] = {8, 8, 16, 32, 64, 64};
                for (unsigned width : widths) {
                    auto got = r.GetWord(width, false, Endianess::Big);
                    auto want = bswap(mr.get(width, false), width);
                    CHECK(got == want, "big endian GetWord width=" << width << " got " << got << " want " << want);
                }
            }
        }
    }
    // unsupported big endian widths throw, on both overloads and on GetWord
    {
        Buffer b{0};
        bool t1 = false, t2 = false, t3 = false;
        try { b.PushWord<std::uint16_t, 12>(5, Endianess::Big); } catch (const std::runtime_error& e) { t1 = std::string(e.what()) == "Big endian conversion only supported for 8, 16, 32, 64 bit values"; }
        try { b.PushWord<std::uint16_t>(5, 12, Endianess::Big); } catch (const std::runtime_error& e) { t2 = std::string(e.what()) == "Big endian conversion only supported for 8, 16, 32, 64 bit values"; }
        CHECK(b.GetData().empty(), "failed big endian push must not write");
        Buffer r{std::vector<std::uint8_t>{0xFF, 0xFF}};
        try { r.GetWord(12, true, Endianess::Big); } catch (const std::runtime_error&) { t3 = true; }
        CHECK(t1 && t2 && t3, "runtime_error for unsupported big endian widths " << t1 << t2 << t3);
    }
    // Buffer(size) pre-sizes the storage and pushes overwrite from bit 0
    {
        Buffer b{std::size_t{20}};
        CHECK(b.GetData() == std::vector<std::uint8_t>(3, 0), "Buffer(20) has 3 zero bytes");
        b.PushWord<std::uint32_t, 20>(0xABCDE);
        CHECK((b.GetData() == std::vector<std::uint8_t>{0xDE, 0xBC, 0x0A}), "push into pre-sized buffer");
        b.PushWord<std::uint8_t, 8>(0xFF);
        CHECK((b.GetData() == std::vector<std::uint8_t>{0xDE, 0xBC, 0xFA, 0x0F}), "grow pre-sized buffer");
    }
    // SetBit clears bits as well: writing over a non-zero buffer
    {
        std::vector<std::uint8_t> ones(4, 0xFF);
        Buffer b{ones};
        b.PushWord<std::uint16_t, 12>(0x0A5);
        b.PushWord<std::uint16_t>(0, 7);
        CHECK((b.GetData() == std::vector<std::uint8_t>{0xA5, 0x00, 0xF8, 0xFF}), "overwrite existing bytes " << b.ToString());
    }
    std::cout << "unit checks " << checks << " failures " << failures << std::endl;
    return failures;
}

// ------------------------------------------------------- part B/C: line driven
static std::string hex(const std::vector<std::uint8_t>& v) {
    static const char* d = "0123456789abcdef";
    std::string s;
    for (auto b : v) { s.push_back(d[b >> 4]); s.push_back(d[b & 15]); }
    return s;
}

static std::vector<std::uint8_t> unhex(const std::string& s) {
    std::vector<std::uint8_t> v;
    for (std::size_t i = 0; i + 1 < s.size(); i += 2) {
        v.push_back(static_cast<std::uint8_t>(std::stoi(s.substr(i, 2), nullptr, 16)));
    }
    return v;
}

int main(int argc, char** argv) {
    if (argc > 1 && std::string(argv[1]) == "unit") {
        return unit_tests() == 0 ? 0 : 1;
    }
    fcp::StaticSchema static_schema{};
    fcp::dynamic::DynamicSchema dynamic_schema{};
    const bool dyn = argc > 1 && std::string(argv[1]) == "dyn";
    if (dyn) {
        // output.bin is the schema, serialised by the *Python* encoder with the
        // reflection schema and parsed here by the generated C++ decoder
        dynamic_schema.LoadBinarySchemaFromFile("output.bin");
    }
    const fcp::ISchema& schema = dyn ? static_cast<const fcp::ISchema&>(dynamic_schema) : static_cast<const fcp::ISchema&>(static_schema);
    std::string op, name, rest;
    while (std::cin >> op >> name) {
        std::getline(std::cin, rest);
        if (!rest.empty() && rest[0] == ' ') rest.erase(0, 1);
        if (op == "E") {
            auto r = schema.EncodeJson(name, fcp::json::parse(rest));
            std::cout << (r.has_value() ? "ok " + hex(r.value()) : std::string("none")) << std::endl;
        } else if (op == "D") {
            if (rest == "-") rest = "";
            auto r = schema.DecodeJson(name, unhex(rest));
            std::cout << (r.has_value() ? "ok " + r.value().dump() : std::string("none")) << std::endl;
        }
    }
    return 0;
}
"""


def build(fcp, workdir, name):
    d = Path(workdir) / name
    d.mkdir()
    for result in Generator().generate(fcp, {"output": str(d)}):
        if result.get("type") == "file":
            (d / Path(result["path"]).name).write_text(str(result["contents"]))
    (d / "main.cpp").write_text(MAIN_CPP)
    (d / "output.bin").write_bytes(bytes(encode(get_reflection_schema().unwrap(), "Fcp", fcp.reflection())))
    for extra in ([], ["-O2", "-Wno-inline"]):
        exe = d / ("prog" + ("_o2" if extra else ""))
        r = subprocess.run(["g++"] + FLAGS + extra + ["-isystem", NLOHMANN, "main.cpp", "-o", str(exe)], cwd=d, capture_output=True)
        if r.returncode != 0:
            print(r.stderr.decode()[-4000:])
            raise SystemExit("FAIL: compilation of generated C++ failed (%s)" % " ".join(extra))
    return d


def run_lines(exe, lines, mode=None):
    r = subprocess.run([str(exe)] + ([mode] if mode else []), cwd=exe.parent, input="\n".join(lines) + "\n", capture_output=True, text=True, timeout=600)
    if r.returncode != 0:
        print(r.stderr[-2000:])
        raise SystemExit("FAIL: C++ driver crashed")
    out = r.stdout.splitlines()
    assert len(out) == len(lines), (len(out), len(lines))
    return out


def rand_value(rng, fcp, t, edge):
    if isinstance(t, UnsignedType):
        n = int(t.name[1:])
        hi = (1 << n) - 1
        return rng.choice([0, hi, hi >> 1, 1 & hi]) if edge else rng.randint(0, hi)
    if isinstance(t, SignedType):
        n = int(t.name[1:])
        lo, hi = -(1 << (n - 1)), (1 << (n - 1)) - 1
        return rng.choice([0, lo, lo + 1, hi, -1]) if edge else rng.randint(lo, hi)
    if isinstance(t, FloatType):
        return f32(rng.choice([0.0, 1.0, -1.5, 3.4e38, 1e-45, 0.1, rng.uniform(-1e6, 1e6)]))
    if isinstance(t, DoubleType):
        return rng.choice([0.0, 1.0, -2.5, 1.7e308, 5e-324, 0.1, rng.uniform(-1e12, 1e12)])
    if isinstance(t, StringType):
        return "".join(chr(rng.randint(1, 127)) for _ in range(rng.choice([0, 1, 2, 7, 20])))
    if isinstance(t, EnumType):
        (enum,) = [e for e in fcp.enums if e.name == t.name]
        return rng.choice([e.value for e in enum.enumeration])
    if isinstance(t, StructType):
        return {f.name: rand_value(rng, fcp, f.type, edge) for f in _struct_fields(fcp, t.name)}
    if isinstance(t, ArrayType):
        return [rand_value(rng, fcp, t.underlying_type, edge) for _ in range(t.size)]
    if isinstance(t, DynamicArrayType):
        return [rand_value(rng, fcp, t.underlying_type, edge) for _ in range(rng.choice([0, 1, 2, 5]))]
    if isinstance(t, OptionalType):
        return None if rng.random() < 0.4 else rand_value(rng, fcp, t.underlying_type, edge)
    raise AssertionError(t)


def has_most_negative(fcp, t, v):
    if isinstance(t, SignedType):
        return v == -(1 << (int(t.name[1:]) - 1))
    if isinstance(t, StructType):
        return any(has_most_negative(fcp, f.type, v[f.name]) for f in _struct_fields(fcp, t.name))
    if isinstance(t, (ArrayType, DynamicArrayType)):
        return any(has_most_negative(fcp, t.underlying_type, x) for x in v)
    if isinstance(t, OptionalType):
        return v is not None and has_most_negative(fcp, t.underlying_type, v)
    return False


def enum_names(fcp, t, v):
    if isinstance(t, EnumType):
        (enum,) = [e for e in fcp.enums if e.name == t.name]
        return {e.value: e.name for e in enum.enumeration}[v]
    if isinstance(t, StructType):
        return {f.name: enum_names(fcp, f.type, v[f.name]) for f in _struct_fields(fcp, t.name)}
    if isinstance(t, (ArrayType, DynamicArrayType)):
        return [enum_names(fcp, t.underlying_type, x) for x in v]
    if isinstance(t, OptionalType):
        return None if v is None else enum_names(fcp, t.underlying_type, v)
    return v


def same(a, b):
    if isinstance(a, float) or isinstance(b, float):
        return float(a) == float(b)
    if isinstance(a, dict):
        return isinstance(b, dict) and set(a) == set(b) and all(same(a[k], b[k]) for k in a)
    if isinstance(a, list):
        return isinstance(b, list) and len(a) == len(b) and all(same(x, y) for x, y in zip(a, b))
    return a == b


def codec_level(fcp, exes):
    rng = random.Random(2024)
    cases = []
    inner = lambda a, b, c: dict(a=a, b=b, c=c)  # noqa: E731
    cases.append(("Inner", inner(5, -3, 5)))
    cases.append(("Inner", inner(7, -16, 0)))
    cases.append(("Shuffled", dict(third=31, first=0, second=-1)))
    cases.append(("Shuffled", dict(third=1, first=7, second=-256)))
    cases.append(("Bits", dict(f0=1, f1=-2, f2=127, f3=-4096, f4=2**33 - 1, f5=-(2**63), f6=2**64 - 1, f7=1, f8=256, f9=-(2**31), f10=-(2**16), f11=65535, f12=-128)))
    cases.append(("Bits", dict(f0=0, f1=1, f2=0, f3=4095, f4=2**32, f5=2**63 - 1, f6=2**63, f7=0, f8=255, f9=2**31 - 1, f10=2**16 - 1, f11=1, f12=127)))
    cases.append(("Floats", dict(pad=5, x=f32(0.1), y=0.1, tail=-32)))
    cases.append(("Nested", dict(lead=31, inner=inner(7, -15, 5), arr=[inner(0, 0, 0), inner(1, -1, 1), inner(7, 15, 2)], name="", dyn=[], opt=None, optarr=None, grid=[[0, 0], [0, 0], [0, 0]], names=[], modes=[0, 1, 2], maybe_str=None, end=3)))
    cases.append(("Nested", dict(lead=1, inner=inner(1, 1, 1), arr=[inner(7, -16, 5)] * 3, name="hello, world\x7f", dyn=[1023, -1024, 0, -1], opt=inner(2, -2, 2), optarr=[15, 0, 8], grid=[[1, 2], [3, 4], [5, 7]], names=["a", "", "bcd"], modes=[5, 5, 5], maybe_str="x", end=0)))
    names = [s.name for s in fcp.structs]
    for i in range(250):
        sname = rng.choice(names)
        cases.append((sname, rand_value(rng, fcp, StructType(sname), edge=(i % 3 == 0))))

    canon = [ref_encode(fcp, s, v) for s, v in cases]
    enc_lines = ["E %s %s" % (s, json.dumps(v)) for s, v in cases]
    dec_lines = ["D %s %s" % (s, c.hex() or "-") for (s, _), c in zip(cases, canon)]
    for exe in exes:
        enc_out = run_lines(exe, enc_lines)
        dec_out = run_lines(exe, dec_lines)
        for (s, v), c, eo, do in zip(cases, canon, enc_out, dec_out):
            check(eo == "ok " + c.hex(), "%s C++ encode %s %r -> %s, canonical %s" % (exe.name, s, v, eo, c.hex()))
            ok = do.startswith("ok ")
            check(ok and same(json.loads(do[3:]), v), "%s C++ decode %s %s -> %s, expected %r" % (exe.name, s, c.hex(), do, v))
    # DynamicSchema: the schema itself travels Python encoder -> C++ decoder, then
    # the run-time driven decoder (GetWord with run-time lengths and sign flag)
    # reads the canonical bytes.  It walks fields in declaration order and reports
    # enums by name, so 'Shuffled' is left out and enum values are mapped.
    dyn_cases = [(s, v, c) for (s, v), c in zip(cases, canon) if s != "Shuffled"]
    for exe in exes:
        outs = run_lines(exe, ["D %s %s" % (s, c.hex() or "-") for s, _, c in dyn_cases], mode="dyn")
        for (s, v, c), do in zip(dyn_cases, outs):
            ok = do.startswith("ok ")
            check(ok and same(json.loads(do[3:]), enum_names(fcp, StructType(s), v)), "%s dynamic decode %s %s -> %s, expected %r" % (exe.name, s, c.hex(), do, v))
    for (s, v), c in zip(cases, canon):
        check(encode(fcp, s, v) == c, "python encode %s %r" % (s, v))
        if not has_most_negative(fcp, StructType(s), v):
            check(same(decode(fcp, s, bytearray(c)), v), "python decode %s %r" % (s, v))


def standard_vectors(workdir):
    d = FCP_ROOT / "tests" / "standardized"
    suites = json.loads((d / "fcp_tests.json").read_text())
    special = {"ULONG_MAX": 2**64 - 1, "LLONG_MAX": 2**63 - 1, "LLONG_MIN": -(2**63)}
    n = 0
    for suite in suites:
        fcp = get_fcp(d / suite["schema"]).unwrap()
        exe = build(fcp, workdir, "std_" + suite["name"]) / "prog"

        def conv(t, v):
            if isinstance(t, (UnsignedType, SignedType)):
                return special[v] if v in special else (v if isinstance(v, int) else int(v, 0))
            if isinstance(t, (FloatType, DoubleType)):
                return float(v)
            if isinstance(t, StringType):
                return v
            if isinstance(t, EnumType):
                (enum,) = [e for e in fcp.enums if e.name == t.name]
                return {e.name: e.value for e in enum.enumeration}[v]
            if isinstance(t, (ArrayType, DynamicArrayType)):
                return [conv(t.underlying_type, x) for x in v]
            if isinstance(t, OptionalType):
                return None if v is None else conv(t.underlying_type, v)
            raise AssertionError(t)

        lines, wants, values = [], [], []
        for test in suite["tests"]:
            sname = test["datatype"]
            fields = {f.name: f for f in _struct_fields(fcp, sname)}
            value = {x.split(":")[1]: conv(fields[x.split(":")[1]].type, v) for x, v in test["decoded"].items()}
            want = bytearray(x if isinstance(x, int) else int(x, 16) for x in test["encoded"])
            lines.append("E %s %s" % (sname, json.dumps(value)))
            wants.append(want)
            values.append((sname, value, test["name"]))
        outs = run_lines(exe, lines)
        for out, want, (sname, value, tname) in zip(outs, wants, values):
            check(out == "ok " + want.hex(), "vector %s C++ -> %s want %s" % (tname, out, want.hex()))
            check(encode(fcp, sname, value) == want, "vector %s python encode" % tname)
            check(ref_encode(fcp, sname, value) == want, "vector %s reference" % tname)
            n += 1
    check(n >= 20, "expected at least 20 vectors, saw %d" % n)


def main():
    print("fcp_cpp plug-in under test:", os.path.dirname(fcp_cpp.__file__))
    with tempfile.TemporaryDirectory() as workdir:
        p = Path(workdir) / "demo.fcp"
        p.write_text(SCHEMA)
        fcp = get_fcp(p).unwrap()
        d = build(fcp, workdir, "demo")
        exes = [d / "prog", d / "prog_o2"]
        for exe in exes:
            r = subprocess.run([str(exe), "unit"], capture_output=True, text=True, timeout=600)
            print(exe.name, r.stdout.strip().splitlines()[-1] if r.stdout.strip() else r.stderr[-500:])
            check(r.returncode == 0, "%s: Buffer unit tests failed:\n%s" % (exe.name, r.stdout[-1500:]))
        codec_level(fcp, exes)
        standard_vectors(workdir)
    print("checks:", CHECKS, "failures:", len(FAILURES))
    if FAILURES:
        print("FAIL")
        return 1
    print("PASS")
    return 0


if __name__ == "__main__":
    sys.exit(main())
