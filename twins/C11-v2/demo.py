#!/venv/bin/python
"""C11 demo 2: a failing `mod` import must still give a renderable, well-located error.

main.fcp starts with a comment header, so its `mod` statement sits on line 9; the
imported module is only a few lines long and is broken in three different ways
(unknown type, truncated, out-of-domain literal).  In every case get_fcp must
return an Err that Logger.error() can render, and every `[file:line]` citation
must name an existing line of that file whose text is what the diagnostic shows.
"""
import pathlib
import re
import sys
import tempfile

from fcp.parser import get_fcp
from fcp.error import Logger

MAIN = """\
/*
 * Vehicle schema.
 *
 * Shared definitions live in tiny.fcp.
 */
version: "3"

// shared definitions
mod tiny;

struct Main {
    a @0: u8,
}
"""

MODULES = {
    "unknown type": 'version: "3"\nstruct T {\n    x @0: Missing,\n}\n',
    "truncated": 'version: "3"\nstruct T {\n    x @0: u8,\n',
    "float field id": 'version: "3"\nstruct T {\n    x @1.5: u8,\n}\n',
}

ANSI = re.compile(r"\x1b\[[0-9;]*m")


def check(tmp: pathlib.Path, module: str) -> str:
    (tmp / "main.fcp").write_text(MAIN)
    (tmp / "tiny.fcp").write_text(module)
    files = {"main.fcp": MAIN, "tiny.fcp": module}

    logger = Logger({})
    try:
        result = get_fcp(tmp / "main.fcp", logger)
    except BaseException as e:  # noqa
        return f"exception escaped the parser: {e!r}"
    if not (hasattr(result, "is_ok") and hasattr(result, "is_err")):
        return f"neither a schema nor an error: {result!r}"
    if result.is_ok():
        return "broken module was accepted"
    try:
        text = ANSI.sub("", logger.error(result.err()))
    except BaseException as e:  # noqa
        return f"error value cannot be rendered: {e!r}"

    rows = text.split("\n")
    for i, row in enumerate(rows):
        m = re.match(r"\s*↳ \[(\w+\.fcp):(-?\d+)\]$", row)
        if not m:
            continue
        name, line = m.group(1), int(m.group(2))
        lines = files[name].split("\n")
        if not 1 <= line <= len(lines):
            return f"diagnostic cites {name}:{line}, which has only {len(lines)} lines"
        shown = rows[i + 2] if i + 2 < len(rows) else ""
        if shown != f"{line} | {lines[line - 1]}":
            return f"diagnostic cites {name}:{line} but shows {shown!r}"
    return ""


def main() -> int:
    for what, module in MODULES.items():
        with tempfile.TemporaryDirectory() as d:
            problem = check(pathlib.Path(d), module)
        if problem:
            print(f"FAIL: module with {what}: {problem}")
            return 1
    print("PASS: all failing imports gave renderable errors citing existing lines")
    return 0


if __name__ == "__main__":
    sys.exit(main())
