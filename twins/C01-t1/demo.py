#!/usr/bin/env python
"""Differential test for the Python codec round-trip (property C01).

The schemas are generated from small spec trees; the same trees drive an
independent reference bit packer (LSB-first inside a byte, fields in field-id
order), so every case checks

    encode(v) == reference_bytes(v)        (wire layout unchanged)
    decode(encode(v)) == v                 (round trip, floats bit-for-bit)

on all integer widths 1..64 at all 8 bit offsets, boundary values, enums,
strings, fixed/dynamic arrays, optionals, nested structs, randomly generated
nested type trees, repeated calls and the error paths of the codec.

The code under test is found through PYTHONPATH (see the task description);
nothing is read from a hard-coded repository path.
"""
import os
import random
import struct as pystruct
import sys

FCP_ROOT = os.environ.get("FCP_ROOT", "/tmp/twin-C01")  # not needed: pure library test

from fcp.parser import get_fcp_from_string
from fcp.serde import encode, decode

FAILS = []
CASES = 0


def check(cond, msg):
    global CASES
    CASES += 1
    if not cond:
        FAILS.append(msg)
        if len(FAILS) <= 20:
            print("FAIL:", msg[:400])


# ---------------------------------------------------------------- spec trees
# ('u', n) ('i', n) ('f32',) ('f64',) ('str',) ('enum', name)
# ('arr', T, n) ('dyn', T) ('opt', T) ('struct', name)
# structs: name -> list of (field name, field id, T) in DECLARATION order
# enums:   name -> list of (member, value)


def type_text(t):
    k = t[0]
    if k in ("u", "i"):
        return "%s%d" % (k, t[1])
    if k in ("f32", "f64", "str"):
        return k
    if k in ("enum", "struct"):
        return t[1]
    if k == "arr":
        return "[%s, %d]" % (type_text(t[1]), t[2])
    if k == "dyn":
        return "[%s]" % type_text(t[1])
    if k == "opt":
        return "Optional[%s]" % type_text(t[1])
    raise AssertionError(k)


def schema_text(structs, enums):
    out = ['version: "3"', ""]
    for name, members in enums.items():
        out.append("enum %s {" % name)
        for m, v in members:
            out.append("    %s = %d," % (m, v))
        out.append("}")
        out.append("")
    for name, fields in structs.items():
        out.append("struct %s {" % name)
        for fname, fid, t in fields:
            out.append("    %s @ %d: %s," % (fname, fid, type_text(t)))
        out.append("}")
        out.append("")
    return "\n".join(out)


def load(structs, enums):
    text = schema_text(structs, enums)
    r = get_fcp_from_string(text)
    assert r.is_ok(), "schema rejected:\n%s\n%s" % (text, r)
    return r.unwrap()


# -------------------------------------------------------- reference bit packer
class Bits:
    def __init__(self):
        self.bits = []

    def push(self, word, n):
        for i in range(n):
            self.bits.append((word >> i) & 1)

    def tobytes(self):
        out = bytearray((len(self.bits) + 7) // 8)
        for i, b in enumerate(self.bits):
            out[i >> 3] |= b << (i & 7)
        return out


def enum_bits(members):
    m = max(v for _, v in members)
    return 1 if m in (0, 1) else m.bit_length()  # demo only uses small values


def ref_encode(bits, t, v, structs, enums):
    k = t[0]
    if k in ("u", "i"):
        bits.push(v, t[1])
    elif k == "f32":
        for b in pystruct.pack("f", v):
            bits.push(b, 8)
    elif k == "f64":
        for b in pystruct.pack("d", v):
            bits.push(b, 8)
    elif k == "str":
        bits.push(len(v), 32)
        for c in v:
            bits.push(ord(c), 8)
    elif k == "enum":
        bits.push(v, enum_bits(enums[t[1]]))
    elif k == "struct":
        for fname, fid, ft in sorted(structs[t[1]], key=lambda f: f[1]):
            ref_encode(bits, ft, v[fname], structs, enums)
    elif k == "arr":
        for i in range(t[2]):
            ref_encode(bits, t[1], v[i], structs, enums)
    elif k == "dyn":
        bits.push(len(v), 32)
        for x in v:
            ref_encode(bits, t[1], x, structs, enums)
    elif k == "opt":
        bits.push(0 if v is None else 1, 8)
        if v is not None:
            ref_encode(bits, t[1], v, structs, enums)
    else:
        raise AssertionError(k)


def ref_bytes(name, v, structs, enums):
    b = Bits()
    ref_encode(b, ("struct", name), v, structs, enums)
    return b.tobytes()


# ------------------------------------------------------------ exact equality
def same(a, b):
    """Structural equality with floats compared bit-for-bit and int != bool."""
    if isinstance(a, float) or isinstance(b, float):
        return (
            isinstance(a, float)
            and isinstance(b, float)
            and pystruct.pack("d", a) == pystruct.pack("d", b)
        )
    if isinstance(a, dict):
        return (
            isinstance(b, dict)
            and list(sorted(a)) == list(sorted(b))
            and all(same(a[k], b[k]) for k in a)
        )
    if isinstance(a, list):
        return isinstance(b, list) and len(a) == len(b) and all(map(same, a, b))
    return type(a) is type(b) and a == b


def roundtrip(fcp, name, v, structs, enums, tag):
    wire = encode(fcp, name, v)
    check(isinstance(wire, bytearray), "%s: encode returns %s" % (tag, type(wire)))
    ref = ref_bytes(name, v, structs, enums)
    check(wire == ref, "%s: wire %s != reference %s" % (tag, wire.hex(), ref.hex()))
    back = decode(fcp, name, wire)
    check(same(back, v), "%s: decode(encode(v)) = %r, v = %r" % (tag, back, v))
    # repeated calls and other byte containers give the same answers
    check(encode(fcp, name, v) == wire, "%s: second encode differs" % tag)
    check(same(decode(fcp, name, bytes(wire)), v), "%s: decode(bytes) differs" % tag)
    # trailing bytes are ignored
    check(
        same(decode(fcp, name, wire + bytearray(b"\xa5\x5a")), v),
        "%s: trailing bytes change the result" % tag,
    )
    return wire


# ------------------------------------------------- 1. width x offset sweep
def width_sweep():
    for n in range(1, 65):
        for pad in range(8):
            fields = []
            if pad:
                fields.append(("pad", 0, ("u", pad)))
            fields += [("u", 1, ("u", n)), ("s", 2, ("i", n)), ("tail", 3, ("u", 3))]
            structs = {"W": fields}
            fcp = load(structs, {})
            uvals = sorted({0, 1, (1 << n) - 1, 1 << (n - 1), (1 << n) // 3})
            # the most negative value -2^(n-1) is checked separately below
            svals = sorted(
                {0, -1 if n > 1 else 0, (1 << (n - 1)) - 1, -(1 << (n - 1)) + 1 if n > 1 else 0,
                 ((1 << (n - 1)) - 1) // 5, -(((1 << (n - 1)) - 1) // 7)}
            )
            for j, uv in enumerate(uvals):
                sv = svals[j % len(svals)]
                v = {"u": uv, "s": sv, "tail": 5}
                if pad:
                    v["pad"] = (1 << pad) - 1
                roundtrip(fcp, "W", v, structs, {}, "w%d/p%d/u=%d/s=%d" % (n, pad, uv, sv))
            for sv in svals:
                v = {"u": 0, "s": sv, "tail": 2}
                if pad:
                    v["pad"] = 0
                roundtrip(fcp, "W", v, structs, {}, "w%d/p%d/s=%d" % (n, pad, sv))
            # most negative value: wire layout must match the reference; the
            # decoded magnitude must be 2^(n-1) (sign handling at exactly the
            # threshold is a separately tracked matter and is not asserted here)
            v = {"u": 1, "s": -(1 << (n - 1)), "tail": 7}
            if pad:
                v["pad"] = 1
            wire = encode(fcp, "W", v)
            check(wire == ref_bytes("W", v, structs, {}), "w%d/p%d/min: wire" % (n, pad))
            back = decode(fcp, "W", wire)
            check(
                abs(back["s"]) == 1 << (n - 1) and back["u"] == 1 and back["tail"] == 7
                and type(back["s"]) is int,
                "w%d/p%d/min: %r" % (n, pad, back),
            )


# -------------------------------------------------- 2. hand written shapes
FLOATS32 = [0.0, -0.0, 1.0, -1.5, 3.4028234663852886e38, 1.401298464324817e-45,
            float("inf"), float("-inf"), 0.15625, 16777216.0]
FLOATS64 = [0.0, -0.0, 1.0, 0.1, -2.5e-308, 5e-324, 1.7976931348623157e308,
            float("inf"), float("-inf"), 3.141592653589793]


def shapes():
    enums = {"Color": [("Red", 0), ("Green", 1), ("Blue", 2), ("Max", 5)],
             "Flag": [("Off", 0), ("On", 1)],
             "Big": [("A", 0), ("Z", 200)]}
    structs = {
        # declaration order differs from field-id order on purpose
        "Inner": [("c", 2, ("enum", "Color")), ("a", 0, ("u", 3)), ("b", 1, ("i", 5))],
        "Mid": [("x", 0, ("u", 1)), ("in1", 1, ("struct", "Inner")),
                ("arr", 2, ("arr", ("struct", "Inner"), 2)), ("f", 3, ("enum", "Flag"))],
        "Outer": [
            ("lead", 0, ("u", 5)),
            ("name", 1, ("str",)),
            ("m", 2, ("struct", "Mid")),
            ("f32", 3, ("f32",)),
            ("bit", 4, ("u", 1)),
            ("f64", 5, ("f64",)),
            ("dyn", 6, ("dyn", ("i", 11))),
            ("opt", 7, ("opt", ("struct", "Inner"))),
            ("optdyn", 8, ("opt", ("dyn", ("str",)))),
            ("dynopt", 9, ("dyn", ("opt", ("u", 7)))),
            ("grid", 10, ("arr", ("arr", ("i", 3), 3), 2)),
            ("big", 11, ("enum", "Big")),
            ("dd", 12, ("dyn", ("dyn", ("struct", "Inner")))),
            ("of", 13, ("opt", ("f32",))),
            ("oo", 14, ("opt", ("opt", ("u", 9)))),
            ("end", 15, ("i", 64)),
        ],
    }
    fcp = load(structs, enums)

    def inner(i):
        return {"a": i % 8, "b": (i % 31) - 15, "c": [0, 1, 2, 5][i % 4]}

    def mid(i):
        return {"x": i & 1, "in1": inner(i), "arr": [inner(i + 1), inner(i + 2)], "f": (i >> 1) & 1}

    long_s = "".join(chr(32 + (i % 95)) for i in range(300)) + "\x00\x7f"
    strings = ["", "a", "hello world", long_s]
    dyns = [[], [-1023], [1023, -1, 0, 5], list(range(-100, 100, 3))]
    for i in range(12):
        v = {
            "lead": (i * 7) % 32,
            "name": strings[i % 4],
            "m": mid(i),
            "f32": FLOATS32[i % len(FLOATS32)],
            "bit": i & 1,
            "f64": FLOATS64[i % len(FLOATS64)],
            "dyn": dyns[i % 4],
            "opt": None if i % 3 == 0 else inner(i + 5),
            "optdyn": [None, [], ["x", "", "yz" * 20]][i % 3],
            "dynopt": [[], [None], [127, None, 0, None, None, 64]][i % 3],
            "grid": None,  # filled in below (2 x 3)
            "big": [0, 200][i & 1],
            "dd": [[], [[]], [[inner(1)], [], [inner(2), inner(3)]]][i % 3],
            "of": [None, -0.0, 2.5][i % 3],
            "oo": [None, 0, 511][i % 3],
            "end": [0, -1, (1 << 63) - 1, -(1 << 63) + 1][i % 4],
        }
        v["grid"] = [[-3, 3, 0], [1, -1, 2]] if i & 1 else [[3, 3, 3], [-1, -3, 0]]
        roundtrip(fcp, "Outer", v, structs, enums, "outer#%d" % i)
        roundtrip(fcp, "Mid", mid(i), structs, enums, "mid#%d" % i)
        roundtrip(fcp, "Inner", inner(i), structs, enums, "inner#%d" % i)

    # floats at every bit offset
    for pad in range(8):
        fs = ([("p", 0, ("u", pad))] if pad else []) + [
            ("a", 1, ("f32",)), ("b", 2, ("u", 1)), ("c", 3, ("f64",)), ("d", 4, ("str",))]
        st = {"F": fs}
        f = load(st, {})
        for i in range(len(FLOATS32)):
            v = {"a": FLOATS32[i], "b": i & 1, "c": FLOATS64[i], "d": "ab"[: i % 3]}
            if pad:
                v["p"] = (1 << pad) - 1
            roundtrip(f, "F", v, st, {}, "float/p%d/#%d" % (pad, i))

    # pinned wire bytes (layout anchors independent of the reference packer)
    st = {"P": [("a", 0, ("u", 3)), ("b", 1, ("i", 5)), ("c", 2, ("opt", ("u", 8))), ("d", 3, ("str",))]}
    f = load(st, {})
    w = encode(f, "P", {"a": 5, "b": -2, "c": 0xAB, "d": "Hi"})
    check(w.hex() == "f501ab020000004869", "pinned wire P: %s" % w.hex())
    w = encode(f, "P", {"a": 0, "b": 0, "c": None, "d": ""})
    check(w.hex() == "000000000000", "pinned wire P/None: %s" % w.hex())


# ------------------------------------------- 3. random nested type trees
COUNTER = [0]


def rand_type(rng, depth, structs, enums):
    kinds = ["u", "i", "u", "i", "f32", "f64", "str", "enum"]
    if depth > 0:
        kinds += ["arr", "dyn", "opt", "struct", "arr", "dyn", "opt"]
    k = rng.choice(kinds)
    if k in ("u", "i"):
        return (k, rng.choice([1, 2, 3, 7, 8, 9, 15, 16, 17, 31, 32, 33, 63, 64, rng.randint(1, 64)]))
    if k in ("f32", "f64", "str"):
        return (k,)
    if k == "enum":
        name = "E%d" % len(enums)
        top = rng.choice([0, 1, 2, 3, 4, 7, 8, 100, 255, 256, 1000])
        members = [("m0", 0)] if top == 0 else [("m0", 0), ("m1", top)]
        enums[name] = members
        return ("enum", name)
    if k == "arr":
        return ("arr", rand_type(rng, depth - 1, structs, enums), rng.randint(1, 4))
    if k in ("dyn", "opt"):
        return (k, rand_type(rng, depth - 1, structs, enums))
    COUNTER[0] += 1
    name = "S%d" % COUNTER[0]
    ids = list(range(rng.randint(1, 4)))
    fields = [("f%d" % i, i, rand_type(rng, depth - 1, structs, enums)) for i in ids]
    rng.shuffle(fields)
    structs[name] = fields  # inserted after its children: a type is declared before use
    return ("struct", name)


def rand_value(rng, t, structs, enums):
    k = t[0]
    if k == "u":
        n = t[1]
        return rng.choice([0, 1, (1 << n) - 1, 1 << (n - 1), rng.getrandbits(n)])
    if k == "i":
        n = t[1]
        lo, hi = -(1 << (n - 1)) + 1, (1 << (n - 1)) - 1  # most negative: see width_sweep
        if lo > hi:
            return 0
        return rng.choice([0, -1 if lo <= -1 else 0, lo, hi, rng.randint(lo, hi)])
    if k == "f32":
        while True:
            x = pystruct.unpack("f", pystruct.pack("I", rng.getrandbits(32)))[0]
            if x == x:
                return x
    if k == "f64":
        while True:
            x = pystruct.unpack("d", pystruct.pack("Q", rng.getrandbits(64)))[0]
            if x == x:
                return x
    if k == "str":
        return "".join(chr(rng.randint(0, 127)) for _ in range(rng.choice([0, 0, 1, 3, 9, 40])))
    if k == "enum":
        return rng.choice(enums[t[1]])[1]
    if k == "struct":
        return {fn: rand_value(rng, ft, structs, enums) for fn, _, ft in structs[t[1]]}
    if k == "arr":
        return [rand_value(rng, t[1], structs, enums) for _ in range(t[2])]
    if k == "dyn":
        return [rand_value(rng, t[1], structs, enums) for _ in range(rng.choice([0, 0, 1, 2, 5]))]
    if k == "opt":
        return None if rng.random() < 0.4 else rand_value(rng, t[1], structs, enums)
    raise AssertionError(k)


def random_trees():
    rng = random.Random(0xC01)
    for case in range(120):
        ordered, enums = {}, {}
        nf = rng.randint(1, 6)
        fields = [("r%d" % i, i, rand_type(rng, 3, ordered, enums)) for i in range(nf)]
        rng.shuffle(fields)
        ordered["Root"] = fields  # last: nested structs are declared first
        fcp = load(ordered, enums)
        for rep in range(6):
            v = rand_value(rng, ("struct", "Root"), ordered, enums)
            roundtrip(fcp, "Root", v, ordered, enums, "rand#%d.%d" % (case, rep))


# ------------------------------------------------------------ 4. error paths
def outcome(fn):
    try:
        return ("ok", fn())
    except BaseException as e:  # noqa: B902 - the demo records the exact class
        return (type(e).__name__, str(e))


def errors():
    structs = {"In": [("q", 0, ("u", 4))],
               "E": [("a", 0, ("u", 12)), ("s", 1, ("str",)), ("d", 2, ("dyn", ("u", 16))),
                     ("o", 3, ("opt", ("f64",))), ("i", 4, ("struct", "In")), ("z", 5, ("i", 20))]}
    fcp = load(structs, {})
    v = {"a": 0xABC, "s": "xyz", "d": [1, 2, 3], "o": 1.5, "i": {"q": 9}, "z": -77}
    wire = roundtrip(fcp, "E", v, structs, {}, "err/base")
    # every strict prefix of the wire is a buffer overrun, never a wrong value
    for cut in range(len(wire)):
        r = outcome(lambda: decode(fcp, "E", wire[:cut]))
        check(r == ("ValueError", "buffer overrrun"), "prefix %d: %r" % (cut, r))
    # a string length that exceeds the buffer
    bad = bytearray(wire)
    bad[2] |= 0xF0  # length field of s starts at bit 12
    bad[3] = 0xFF
    r = outcome(lambda: decode(fcp, "E", bad))
    check(r == ("ValueError", "buffer overrrun"), "huge length: %r" % (r,))
    # non-ascii byte in a string
    bad = bytearray(wire)
    # s occupies bits 44.. ; set the top bit of the first character (bit 51)
    bad[6] |= 0x08
    r = outcome(lambda: decode(fcp, "E", bad))
    check(r[0] == "UnicodeDecodeError", "non ascii: %r" % (r,))
    # missing field, unknown struct
    r = outcome(lambda: encode(fcp, "E", {k: x for k, x in v.items() if k != "d"}))
    check(r == ("KeyError", "'d'"), "missing field: %r" % (r,))
    r1 = outcome(lambda: encode(fcp, "Nope", v))
    r2 = outcome(lambda: decode(fcp, "Nope", wire))
    check(r1[0] == r2[0] != "ok" and r1[1] == r2[1], "unknown struct: %r %r" % (r1, r2))
    check(r1[0] == "UnwrapError", "unknown struct class: %r" % (r1,))
    # short fixed array, wrong value kinds
    st2 = {"A": [("x", 0, ("arr", ("u", 8), 3))]}
    f2 = load(st2, {})
    r = outcome(lambda: encode(f2, "A", {"x": [1, 2]}))
    check(r == ("IndexError", "list index out of range"), "short array: %r" % (r,))
    r = outcome(lambda: encode(f2, "A", {"x": [1, 2, 3, 4]}))
    check(r == ("ok", bytearray([1, 2, 3])), "long array: %r" % (r,))
    r = outcome(lambda: encode(fcp, "E", dict(v, o="nope")))
    check(r[0] == "error", "float from str: %r" % (r,))
    r = outcome(lambda: encode(fcp, "E", dict(v, a="nope")))
    check(r[0] == "TypeError", "int from str: %r" % (r,))
    # out-of-range values are truncated to the field width, neighbours intact
    w = encode(fcp, "E", dict(v, a=0x1ABC))
    check(w == wire, "truncation of out-of-range unsigned")
    # empty input
    r = outcome(lambda: decode(fcp, "E", bytearray()))
    check(r == ("ValueError", "buffer overrrun"), "empty: %r" % (r,))
    # a struct whose only field is an empty dynamic array / None optional
    st3 = {"Z": [("d", 0, ("dyn", ("u", 1))), ("o", 1, ("opt", ("str",)))]}
    f3 = load(st3, {})
    roundtrip(f3, "Z", {"d": [], "o": None}, st3, {}, "empty/none")
    roundtrip(f3, "Z", {"d": [1, 0, 1, 1, 0, 1, 1, 1, 0, 1], "o": ""}, st3, {}, "bits/emptystr")


def main():
    width_sweep()
    shapes()
    random_trees()
    errors()
    if FAILS:
        print("FAILED %d of %d checks" % (len(FAILS), CASES))
        return 1
    print("PASS (%d checks)" % CASES)
    return 0


if __name__ == "__main__":
    sys.exit(main())
