#!/venv/bin/python
"""C09 demo 2: verdict with a plug-in's checks registered equals the specification.

Exercises named bindings (``impl <protocol> for <Struct> as <name>``), where the
name of the binding differs from the struct it is bound to. Both the DBC and the
C plug-in have to reject a binding to an unknown struct and nothing else here.
"""
import itertools
import sys
from collections import Counter

from fcp.parser import get_fcp_from_string
from fcp.verifier import make_general_verifier
import fcp_dbc
import fcp_can_c

HEADER = 'version: "3"\n'

CASES = {
    # well formed: binding called 'status' on the existing struct A
    "named binding": [
        "struct A { x @0: u8, y @1: u16, }",
        "impl can for A as status { id: 16, }",
    ],
    # ill formed: binding called 'A' (an existing struct) on the unknown struct Nope
    "named binding to unknown struct": [
        "struct A { x @0: u8, }",
        "impl can for Nope as A { id: 16, }",
    ],
    # well formed, plain
    "plain binding": [
        "struct A { x @0: u8, }",
        "impl can for A { id: 16, }",
    ],
    # ill formed, plain
    "plain binding to unknown struct": [
        "struct A { x @0: u8, }",
        "impl can for Nope { id: 16, }",
    ],
}


def unique(xs):
    return all(n == 1 for n in Counter(xs).values())


def general_ok(fcp):
    services = {s.name for s in fcp.services}
    return (
        unique([t.name for t in fcp.structs + fcp.enums])
        and unique([(i.name, i.protocol) for i in fcp.impls])
        and all(unique([f.name for f in s.fields]) for s in fcp.structs)
        and all(len(s.fields) > 0 for s in fcp.structs)
        and all(unique([e.name for e in en.enumeration]) for en in fcp.enums)
        and all(unique([e.value for e in en.enumeration]) for en in fcp.enums)
        and all(
            srv in services
            for d in fcp.devices
            for srv in (d.fields.get("services") or [])
        )
    )


def bindings_known(fcp):
    structs = {s.name for s in fcp.structs}
    return all(i.type in structs for i in fcp.impls)


def dbc_ok(fcp):
    ids = [
        i.fields.get("id")
        for i in fcp.impls
        if i.protocol == "can" and i.fields.get("id") is not None
    ]
    return bindings_known(fcp) and unique(ids)


def c_ok(fcp):
    # only scalar unsigned fields are used in this demo
    structs = {s.name: s for s in fcp.structs}

    def width(name):
        return sum(int(f.type.name[1:]) for f in structs[name].fields)

    return bindings_known(fcp) and all(
        width(i.type) <= 64 for i in fcp.impls if i.protocol == "can"
    )


PLUGINS = {"dbc": (fcp_dbc.Generator, dbc_ok), "can_c": (fcp_can_c.Generator, c_ok)}


def main():
    bad = []
    for (label, decls), (plugin, (generator, plugin_ok)) in itertools.product(
        CASES.items(), PLUGINS.items()
    ):
        for perm in itertools.permutations(decls):
            fcp = get_fcp_from_string(HEADER + "\n".join(perm) + "\n").unwrap()
            verifier = make_general_verifier()
            generator().register_checks(verifier)
            got = verifier.verify(fcp).is_ok()
            want = general_ok(fcp) and plugin_ok(fcp)
            if got != want:
                bad.append((plugin, label, perm, got, want))

    for plugin, label, perm, got, want in bad:
        print(f"wrong verdict with {plugin} checks on '{label}': "
              f"verifier ok={got}, specification ok={want}")
        print("    " + "\n    ".join(perm))
    if bad:
        print("FAIL")
        return 1
    print("PASS")
    return 0


if __name__ == "__main__":
    sys.exit(main())
