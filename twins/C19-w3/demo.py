#!/venv/bin/python
"""Differential test for property C19.

"Generated C message scheduler honours periods over every call history."

For a spread of schemas (1..4 messages per device, periods in {-1, absent,
1..N, huge}, several devices interleaved in one schema, the implicit "global"
device, enums) the C code is generated with the fcp_can_c plug-in found through
PYTHONPATH, compiled together with a small generated harness, and driven with
many call histories (exhaustive short ones plus seeded random longer ones over
the time deltas {0, 1, P-1, P, P+1, 2P, wrap-around}).  Every history runs in a
fresh process image (fork) because the scheduler keeps its state in function
statics.  The transmitted frames (call index, id, dlc, payload) are compared
with an independent Python model of the property; the device values change
before every call so a stale frame would be noticed.

Run with e.g.
  PYTHONPATH=$R/src:$R/plugins/fcp_dbc:$R/plugins/fcp_can_c:$R/plugins/fcp_cpp:$R/plugins/fcp_nop \
      /venv/bin/python demo.py
Exits 0 and prints PASS when the property holds on all inputs.
"""

import itertools
import os
import random
import re
import shutil
import subprocess
import sys
import tempfile
from pathlib import Path

FCP_ROOT = os.environ.get("FCP_ROOT", "/tmp/twin3-C19")

from fcp.parser import get_fcp_from_string  # noqa: E402
from fcp_can_c import Generator  # noqa: E402
from fcp_can_c.can_c_writer import CanCWriter, pascal_to_snake, snake_to_pascal  # noqa: E402

M32 = 0xFFFFFFFF
CC = shutil.which("gcc") or shutil.which("clang") or "cc"

# ----------------------------------------------------------------------------
# Schemas.  A message is (StructName, frame id, device or None, period or None,
# shape) where shape "ab" is {a: u8, b: u16} (dlc 3) and "a" is {a: u8} (dlc 1).
# period None means "no period field at all".
# ----------------------------------------------------------------------------
SCHEMAS = {
    "one_p1": dict(msgs=[("Alpha", 10, "ecu", 1, "ab")]),
    "one_explicit_minus1": dict(msgs=[("Alpha", 10, "ecu", -1, "a")]),
    "one_no_period": dict(msgs=[("Alpha", 10, "ecu", None, "ab")]),
    "two_1_2": dict(msgs=[("Alpha", 10, "ecu", 1, "a"), ("Beta", 11, "ecu", 2, "ab")]),
    "three_repo_test": dict(
        msgs=[
            ("Pedals", 10, "ecu", 15, "ab"),
            ("Shutdown", 11, "ecu", 20, "a"),
            ("Button", 12, "ecu", -1, "a"),
        ]
    ),
    "four_3_m1_5_3": dict(
        msgs=[
            ("MsgOne", 100, "front_ecu", 3, "ab"),
            ("MsgTwo", 101, "front_ecu", -1, "ab"),
            ("MsgThree", 102, "front_ecu", 5, "a"),
            ("MsgFour", 103, "front_ecu", 3, "ab"),
        ]
    ),
    "four_7_1_1000_2": dict(
        msgs=[
            ("Wheel", 200, "dash", 7, "a"),
            ("Speed", 201, "dash", 1, "ab"),
            ("Slow", 202, "dash", 1000, "ab"),
            ("Fast", 203, "dash", 2, "a"),
        ]
    ),
    "interleaved_two_devices": dict(
        msgs=[
            ("Aa", 1, "ecu", 5, "ab"),
            ("Bb", 2, "bms", 3, "a"),
            ("Cc", 3, "ecu", None, "ab"),
            ("Dd", 4, "bms", 4, "ab"),
            ("Ee", 5, "ecu", 2, "a"),
        ]
    ),
    "global_device_and_enums": dict(
        enums=2,
        msgs=[
            ("Gone", 20, None, 4, "ab"),
            ("Ecumsg", 21, "ecu", 6, "a"),
            ("Gtwo", 22, None, None, "a"),
            ("Gthree", 23, None, 9, "ab"),
        ],
    ),
    "huge_periods": dict(
        msgs=[
            ("Hone", 30, "ecu", 2147483647, "a"),
            ("Htwo", 31, "ecu", 2147483648, "ab"),
            ("Hthree", 32, "ecu", 4294967295, "a"),
            ("Hfour", 33, "ecu", 65536, "ab"),
        ]
    ),
    "equal_periods": dict(
        msgs=[
            ("Ea", 40, "ecu", 4, "ab"),
            ("Eb", 41, "ecu", 4, "ab"),
            ("Ec", 42, "ecu", 4, "a"),
        ]
    ),
}


def schema_source(spec):
    out = ['version: "3"', ""]
    for i in range(spec.get("enums", 0)):
        out.append("enum Kind%d {\n    Off%d = 0,\n    On%d = 1,\n}\n" % (i, i, i))
    for name, frame_id, device, period, shape in spec["msgs"]:
        fields = "    a @0: u8,\n" + ("    b @1: u16,\n" if shape == "ab" else "")
        out.append("struct %s {\n%s}\n" % (name, fields))
        body = "    id: %d,\n" % frame_id
        if device is not None:
            body += '    device: "%s",\n' % device
        if period is not None:
            body += "    period: %d,\n" % period
        out.append("impl can for %s {\n%s}\n" % (name, body))
    return "\n".join(out)


def devices_of(spec):
    """Device name -> messages in schema order (independent of the writer)."""
    devices = {}
    for name, frame_id, device, period, shape in spec["msgs"]:
        dev = device if device is not None else "global"
        devices.setdefault(dev, []).append(
            dict(
                pascal=name,
                snake=pascal_to_snake(name),
                id=frame_id,
                period=-1 if period is None else period,
                shape=shape,
            )
        )
    return devices


# ----------------------------------------------------------------------------
# Model of the property
# ----------------------------------------------------------------------------
def value_a(j, k):
    return (j * 7 + k * 13 + 1) & 0xFF


def value_b(j, k):
    return (j * 257 + k * 31 + 5) & 0xFFFF


def model(messages, history):
    """Expected transmissions of one history as harness output lines."""
    lines = []
    last_call = 0
    last_send = [0] * len(messages)
    for j, t in enumerate(history):
        if t == last_call:
            continue
        last_call = t
        for k, m in enumerate(messages):
            period = m["period"]
            if period == -1:
                continue
            if ((t - last_send[k]) & M32) >= period:
                data = [value_a(j, k)] + [0] * 7
                dlc = 1
                if m["shape"] == "ab":
                    b = value_b(j, k)
                    data[1], data[2] = b & 0xFF, b >> 8
                    dlc = 3
                lines.append(
                    "S %d %d %d %s" % (j, m["id"], dlc, " ".join("%02x" % x for x in data))
                )
                last_send[k] = t
    return lines


def check_model_invariants(messages, history, lines):
    """The 'hence' part of the statement, checked on the C output itself."""
    sent = {}
    for line in lines:
        _, j, frame_id, *_ = line.split()
        sent.setdefault(int(frame_id), []).append(history[int(j)])
    for m in messages:
        times = sent.get(m["id"], [])
        if m["period"] == -1:
            assert not times, "message without period was sent"
            continue
        prev = 0
        for t in times:
            assert ((t - prev) & M32) >= m["period"], "sent twice within a period"
            prev = t


# ----------------------------------------------------------------------------
# Histories
# ----------------------------------------------------------------------------
def histories_for(messages, rng):
    periods = sorted({m["period"] for m in messages if m["period"] != -1})
    deltas = {0, 1}
    for p in periods:
        deltas.update(x & M32 for x in (p - 1, p, p + 1, 2 * p))
    wrap = {M32, 1 << 31, M32 - 1}
    small = sorted(deltas)
    if len(small) > 9:
        keep = {0, 1}
        keep.update(rng.sample([d for d in small if d > 1], 7))
        small = sorted(keep)
    every = sorted(deltas | wrap)

    out = []
    starts = [None, M32 - 2, M32]
    for start in starts:
        for length in (1, 2, 3):
            for combo in itertools.product(small, repeat=length):
                t = 0
                h = []
                if start is not None:
                    t = start
                    h.append(t)
                for d in combo:
                    t = (t + d) & M32
                    h.append(t)
                out.append(h)
    for _ in range(350):
        t = rng.choice([0, 0, M32 - 5, 1 << 31])
        h = [t] if t else []
        for _ in range(rng.randint(4, 14)):
            t = (t + rng.choice(every)) & M32
            h.append(t)
        out.append(h)
    # dense ramps: every tick for a while, and the tick just around each period
    longest = max([p for p in periods if p < 64] + [1])
    out.append(list(range(0, 3 * longest + 3)))
    out.append([(M32 - longest + i) & M32 for i in range(0, 3 * longest + 3)])
    return out


# ----------------------------------------------------------------------------
# Harness
# ----------------------------------------------------------------------------
HARNESS = r"""
#include <stdio.h>
#include <stdlib.h>
#include <stdint.h>
#include <string.h>
#include <unistd.h>
#include <sys/wait.h>
#include "@SNAKE@_can.h"

/* the global device does not get a prototype in its header; a repeated
   compatible declaration is harmless for the others */
void can_send_@SNAKE@_msgs_scheduled(const CanDevice@PASCAL@ *dev, uint32_t time,
                                     void (*send_can_func)(const CanFrame *));

static int call_idx;

static void sender(const CanFrame *f) {
    printf("S %d %u %u", call_idx, (unsigned)f->id, (unsigned)f->dlc);
    for (int i = 0; i < 8; i++) printf(" %02x", (unsigned)f->data[i]);
    printf("\n");
}

static void set_values(CanDevice@PASCAL@ *d, int j) {
@SETTERS@
}

int main(int argc, char **argv) {
    FILE *in = fopen(argv[1], "r");
    if (!in) return 3;
    int n = 0;
    if (fscanf(in, "%d", &n) != 1) return 3;
    uint32_t **hist = malloc(sizeof(*hist) * (size_t)n);
    int *len = malloc(sizeof(*len) * (size_t)n);
    for (int h = 0; h < n; h++) {
        if (fscanf(in, "%d", &len[h]) != 1) return 3;
        hist[h] = malloc(sizeof(uint32_t) * (size_t)(len[h] + 1));
        for (int j = 0; j < len[h]; j++) {
            unsigned long v;
            if (fscanf(in, "%lu", &v) != 1) return 3;
            hist[h][j] = (uint32_t)v;
        }
    }
    fclose(in);

    for (int h = 0; h < n; h++) {
        fflush(stdout);
        pid_t pid = fork();
        if (pid < 0) return 4;
        if (pid == 0) {
            CanDevice@PASCAL@ dev;
            memset(&dev, 0, sizeof dev);
            printf("H %d\n", h);
            for (int j = 0; j < len[h]; j++) {
                call_idx = j;
                set_values(&dev, j);
                can_send_@SNAKE@_msgs_scheduled(&dev, hist[h][j], sender);
            }
            printf("E %d\n", h);
            fflush(stdout);
            _exit(0);
        }
        int status = 0;
        if (waitpid(pid, &status, 0) != pid || !WIFEXITED(status) || WEXITSTATUS(status) != 0)
            return 5;
    }
    return 0;
}
"""


def harness_source(device, messages):
    setters = []
    for k, m in enumerate(messages):
        setters.append(
            "    d->%s.a = (uint8_t)((j * 7 + %d * 13 + 1) & 0xFF);" % (m["snake"], k)
        )
        if m["shape"] == "ab":
            setters.append(
                "    d->%s.b = (uint16_t)((j * 257 + %d * 31 + 5) & 0xFFFF);" % (m["snake"], k)
            )
    return (
        HARNESS.replace("@SNAKE@", pascal_to_snake(device))
        .replace("@PASCAL@", snake_to_pascal(device))
        .replace("@SETTERS@", "\n".join(setters))
    )


def fail(msg):
    print("FAIL:", msg)
    sys.exit(1)


def generate(spec, outdir):
    fcp = get_fcp_from_string(schema_source(spec)).unwrap()
    files = Generator().generate(fcp, {"output": outdir})
    for f in files:
        assert f["type"] == "file"
        Path(f["path"]).write_text(f["contents"])
    return fcp, files


def check_generated_files(name, spec, fcp, files, outdir):
    """Text-level facts that every correct rendering has."""
    devices = devices_of(spec)
    names = [os.path.basename(str(f["path"])) for f in files]
    if names[:3] != ["can_frame.h", "can_signal_parser.h", "can_signal_parser.c"]:
        fail("%s: static files %r" % (name, names[:3]))
    # header list: one "global" per enum, then devices in first-appearance order
    expect_headers = ["global"] * spec.get("enums", 0)
    for dev in devices:
        if dev not in expect_headers:
            expect_headers.append(dev)
    expect = [d + "_can.h" for d in expect_headers] + [
        pascal_to_snake(d) + "_can.c" for d in devices
    ]
    if names[3:] != expect:
        fail("%s: generated files %r != %r" % (name, names[3:], expect))

    # the writer API gives the same answer when asked twice (no state consumed)
    writer = CanCWriter(fcp)
    first = (list(writer.generate_device_headers()), list(writer.generate_device_sources()))
    second = (list(writer.generate_device_headers()), list(writer.generate_device_sources()))
    if first != second:
        fail("%s: writer output changes between calls" % name)
    by_path = {os.path.basename(str(f["path"])): f["contents"] for f in files}
    for dev_name, text in first[0]:
        if by_path[dev_name + "_can.h"] != text:
            fail("%s: header of %s differs between writer and generator" % (name, dev_name))
    for src_name, text in first[1]:
        if by_path[src_name + "_can.c"] != text:
            fail("%s: source of %s differs between writer and generator" % (name, src_name))

    for dev, messages in devices.items():
        header = by_path[dev + "_can.h"]
        for m in messages:
            upper = m["snake"].upper()
            if not re.search(r"^#define CAN_MSG_PERIOD_%s %d$" % (upper, m["period"]), header, re.M):
                fail("%s: period macro of %s" % (name, m["pascal"]))
            if not re.search(r"^#define CAN_MSG_ID_%s %d$" % (upper, m["id"]), header, re.M):
                fail("%s: id macro of %s" % (name, m["pascal"]))
        proto = "void can_send_%s_msgs_scheduled(const CanDevice%s *dev, uint32_t time, void (*send_can_func)(const CanFrame *));" % (
            pascal_to_snake(dev),
            snake_to_pascal(dev),
        )
        if (proto in header) != (dev != "global"):
            fail("%s: scheduler prototype of %s" % (name, dev))
        if dev != "global" and "global" in expect_headers:
            if '#include "global_can.h"' not in header:
                fail("%s: %s does not include the global header" % (name, dev))


def main():
    rng = random.Random(19)
    total_hist = 0
    total_frames = 0
    total_devices = 0
    with tempfile.TemporaryDirectory(prefix="c19demo") as tmp:
        for name, spec in SCHEMAS.items():
            outdir = os.path.join(tmp, name)
            os.makedirs(outdir)
            fcp, files = generate(spec, outdir)
            check_generated_files(name, spec, fcp, files, outdir)

            for device, messages in devices_of(spec).items():
                total_devices += 1
                snake = pascal_to_snake(device)
                harness = os.path.join(outdir, "harness_%s.c" % snake)
                Path(harness).write_text(harness_source(device, messages))
                exe = os.path.join(outdir, "harness_%s" % snake)
                cmd = [
                    CC, "-std=gnu11", "-O1", "-w", "-I", outdir, harness,
                    os.path.join(outdir, "%s_can.c" % snake),
                    os.path.join(outdir, "can_signal_parser.c"),
                    "-o", exe, "-lm",
                ]
                r = subprocess.run(cmd, capture_output=True, text=True)
                if r.returncode != 0:
                    fail("%s/%s does not compile:\n%s" % (name, device, r.stderr[-3000:]))

                hists = histories_for(messages, rng)
                hfile = os.path.join(outdir, "hist_%s.txt" % snake)
                with open(hfile, "w") as f:
                    f.write("%d\n" % len(hists))
                    for h in hists:
                        f.write(" ".join(str(x) for x in [len(h)] + h) + "\n")
                r = subprocess.run([exe, hfile], capture_output=True, text=True)
                if r.returncode != 0:
                    fail("%s/%s harness exit %d" % (name, device, r.returncode))

                got = {}
                current = None
                for line in r.stdout.splitlines():
                    if line.startswith("H "):
                        current = int(line[2:])
                        got[current] = []
                    elif line.startswith("E "):
                        if int(line[2:]) != current:
                            fail("%s/%s: garbled output" % (name, device))
                        current = None
                    else:
                        got[current].append(line)
                if sorted(got) != list(range(len(hists))):
                    fail("%s/%s: %d of %d histories reported" % (name, device, len(got), len(hists)))

                for i, h in enumerate(hists):
                    want = model(messages, h)
                    if got[i] != want:
                        fail(
                            "%s/%s history %r\n  periods %r\n  got  %r\n  want %r"
                            % (name, device, h, [m["period"] for m in messages], got[i], want)
                        )
                    check_model_invariants(messages, h, got[i])
                    total_frames += len(want)
                total_hist += len(hists)

    print(
        "checked %d schemas, %d devices, %d call histories, %d transmitted frames"
        % (len(SCHEMAS), total_devices, total_hist, total_frames)
    )
    print("PASS")


if __name__ == "__main__":
    main()
