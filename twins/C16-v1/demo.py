#!/usr/bin/env python
"""C16 demo 1: truncating a message inside a trailing array must be detected.

Run with PYTHONPATH pointing at the worktree under test, e.g.
  PYTHONPATH=$FCP_ROOT/src python demo.py
"""
import sys

from fcp.parser import get_fcp_from_string
from fcp.serde import encode, decode

SCHEMA = """
version: "3"

struct Point {
    x @0: u8,
    y @1: u16,
}

struct Track {
    id @0: u16,
    points @1: [Point],
}

struct Grid {
    id @0: u8,
    cells @1: [u16, 4],
}
"""

fcp = get_fcp_from_string(SCHEMA).unwrap()
failures = []


def sweep(name, value):
    enc = encode(fcp, name, value)
    assert decode(fcp, name, enc) == value, "round trip broken"
    for cut in range(len(enc)):
        try:
            got = decode(fcp, name, enc[:cut])
        except Exception:
            continue
        failures.append("%s: prefix of %d/%d bytes decoded to %r" % (name, cut, len(enc), got))


sweep("Track", {"id": 7, "points": [{"x": 1, "y": 2}, {"x": 3, "y": 4}, {"x": 5, "y": 6}]})
sweep("Grid", {"id": 1, "cells": [10, 20, 30, 40]})

# corrupted length prefix: 2**32 - 1 points announced, none present
try:
    got = decode(fcp, "Track", bytearray([7, 0, 0xFF, 0xFF, 0xFF, 0xFF]))
    failures.append("Track: length prefix 2**32-1 with no data decoded to %r" % (got,))
except Exception:
    pass

if failures:
    for f in failures:
        print(f)
    print("FAIL")
    sys.exit(1)
print("PASS")
sys.exit(0)
