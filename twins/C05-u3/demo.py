#!/usr/bin/env python
"""Differential test for property C05.

"Generated DBC describes exactly the packed layout of every CAN binding."

The expected layout is computed here from a tiny schema model that is
completely independent of fcp.encoding / fcp_dbc; the generated DBC text is read
back with (a) a small regular-expression DBC reader written here and (b)
cantools' own loader, and frames packed from boundary / random values are
decoded through both.

Run with the worktree on PYTHONPATH, e.g.

    R=/tmp/twin2-C05
    PYTHONPATH=$R/src:$R/plugins/fcp_dbc:$R/plugins/fcp_can_c:$R/plugins/fcp_cpp:$R/plugins/fcp_nop \
        /venv/bin/python demo.py
"""

import os
import random
import re
import struct
import sys
import tempfile
from pathlib import Path

import cantools

from fcp.parser import get_fcp
from fcp.encoding import make_encoder, PackedEncoderContext
from fcp_dbc import Generator
from fcp_dbc.dbc_writer import write_dbc

FCP_ROOT = Path(os.environ.get("FCP_ROOT", "/tmp/twin2-C05"))

CHECKS = 0
FAILURES = []


def check(cond, what):
    global CHECKS
    CHECKS += 1
    if not cond:
        FAILURES.append(what)
        if len(FAILURES) < 25:
            print("FAIL:", what)


# --------------------------------------------------------------------------
# A tiny, independent schema model
# --------------------------------------------------------------------------
# type: ("u", n) | ("i", n) | ("f32",) | ("f64",) | ("enum", name)
#       | ("struct", name) | ("array", type, n)
# struct: name -> [(field_name, field_id, type, unit-or-None)]
# enum:   name -> [(member, value)]
# impl:   dict(type=, name=None|str, id=, bus=None|str, device=None|str,
#              signals={field_name: {"endianess":..,"mux_count":..,"mux_signal":..}})


class Schema:
    def __init__(self, enums=None, structs=None, impls=None):
        self.enums = enums or {}
        self.structs = structs or {}
        self.impls = impls or []


def type_text(t):
    k = t[0]
    if k in ("u", "i"):
        return f"{k}{t[1]}"
    if k in ("f32", "f64", "str"):
        return k
    if k in ("enum", "struct"):
        return t[1]
    if k == "array":
        return f"[{type_text(t[1])}, {t[2]}]"
    if k == "dynarray":
        return f"[{type_text(t[1])}]"
    if k == "optional":
        return f"Optional[{type_text(t[1])}]"
    raise AssertionError(t)


def value_text(v):
    return f'"{v}"' if isinstance(v, str) else str(v)


def schema_text(schema):
    out = ['version: "3"', ""]
    for name, members in schema.enums.items():
        out.append(f"enum {name} {{")
        for member, value in members:
            out.append(f"    {member} = {value},")
        out.append("}")
        out.append("")
    for name, fields in schema.structs.items():
        out.append(f"struct {name} {{")
        for fname, fid, ftype, unit in fields:
            unit_text = f' | unit("{unit}")' if unit is not None else ""
            out.append(f"    {fname} @{fid}: {type_text(ftype)}{unit_text},")
        out.append("}")
        out.append("")
    for impl in schema.impls:
        alias = f" as {impl['name']}" if impl.get("name") else ""
        out.append(f"impl {impl.get('protocol', 'can')} for {impl['type']}{alias} {{")
        for key in ("id", "bus", "device"):
            if impl.get(key) is not None:
                out.append(f"    {key}: {value_text(impl[key])},")
        for extra_key, extra_value in impl.get("extra", {}).items():
            out.append(f"    {extra_key}: {value_text(extra_value)},")
        for sname, sfields in impl.get("signals", {}).items():
            out.append(f"    signal {sname} {{")
            for key, value in sfields.items():
                out.append(f"        {key}: {value_text(value)},")
            out.append("    },")
        out.append("}")
        out.append("")
    return "\n".join(out)


class Leaf:
    def __init__(self, name, raw_name, start, width, kind, unit, opts):
        self.name = name  # name in the DBC
        self.raw_name = raw_name  # "::" separated name
        self.start = start
        self.width = width
        self.kind = kind  # "u" | "i" | "f" | "e"
        self.unit = unit or ""
        self.opts = opts

    @property
    def big(self):
        return self.opts.get("endianess") == "big"


def enum_width(members):
    biggest = max(value for _, value in members)
    return max(1, biggest.bit_length())


def expected_leaves(schema, impl):
    """Layout of one binding: fields in id order, depth first, back to back."""
    leaves = []
    cursor = [0]
    signals = impl.get("signals", {})

    def field(fname, ftype, unit, prefix):
        kind = ftype[0]
        if kind == "struct":
            walk(ftype[1], prefix + fname + "::")
            return
        if kind == "array":
            for i in range(ftype[2]):
                field(f"{fname}_{i}", ftype[1], unit, prefix)
            return
        if kind in ("u", "i"):
            width, leaf_kind = ftype[1], kind
        elif kind == "f32":
            width, leaf_kind = 32, "f"
        elif kind == "f64":
            width, leaf_kind = 64, "f"
        elif kind == "enum":
            width, leaf_kind = enum_width(schema.enums[ftype[1]]), "e"
        else:
            raise AssertionError(ftype)
        raw = prefix + fname
        leaves.append(
            Leaf(
                raw.replace("::", "_"),
                raw,
                cursor[0],
                width,
                leaf_kind,
                unit,
                signals.get(fname, {}),
            )
        )
        cursor[0] += width

    def walk(struct_name, prefix):
        for fname, _fid, ftype, unit in sorted(
            schema.structs[struct_name], key=lambda f: f[1]
        ):
            field(fname, ftype, unit, prefix)

    walk(impl["type"], "")
    return leaves


# --------------------------------------------------------------------------
# An independent (regular expression) DBC reader
# --------------------------------------------------------------------------

BO_RE = re.compile(r"^BO_ (\d+) (\w+): (\d+) (\S+)$")
SG_RE = re.compile(
    r"^ SG_ (\w+) ?(M|m\d+M?)? : (\d+)\|(\d+)@([01])([+-]) "
    r"\(([^,]+),([^)]+)\) \[([^|]*)\|([^\]]*)\] \"([^\"]*)\" (\S+)$"
)
VALTYPE_RE = re.compile(r"^SIG_VALTYPE_ (\d+) (\w+) : (\d+);$")
MULVAL_RE = re.compile(r"^SG_MUL_VAL_ (\d+) (\w+) (\w+) ([\d\-, ]+);$")
BU_RE = re.compile(r"^BU_:(.*)$")


def read_dbc(text):
    messages = []
    nodes = None
    by_id = {}
    current = None
    for line in text.split("\r\n"):
        m = BO_RE.match(line)
        if m:
            current = {
                "id": int(m.group(1)),
                "name": m.group(2),
                "length": int(m.group(3)),
                "signals": {},
                "order": [],
            }
            messages.append(current)
            by_id.setdefault(current["id"], current)
            continue
        m = SG_RE.match(line)
        if m:
            sig = {
                "name": m.group(1),
                "mux": m.group(2),
                "start": int(m.group(3)),
                "length": int(m.group(4)),
                "byte_order": "little" if m.group(5) == "1" else "big",
                "signed": m.group(6) == "-",
                "factor": m.group(7),
                "offset": m.group(8),
                "unit": m.group(11),
                "float": 0,
                "mul_val": None,
            }
            current["signals"][sig["name"]] = sig
            current["order"].append(sig["name"])
            continue
        if line.startswith(" SG_") or line.startswith("BO_ "):
            raise AssertionError("unparsed DBC line: " + repr(line))
        m = VALTYPE_RE.match(line)
        if m:
            by_id[int(m.group(1))]["signals"][m.group(2)]["float"] = int(m.group(3))
            continue
        m = MULVAL_RE.match(line)
        if m:
            ranges = []
            for part in m.group(4).split(","):
                lo, hi = part.strip().split("-")
                ranges.append((int(lo), int(hi)))
            by_id[int(m.group(1))]["signals"][m.group(2)]["mul_val"] = (
                m.group(3),
                ranges,
            )
            continue
        m = BU_RE.match(line)
        if m:
            nodes = m.group(1).split()
    return messages, nodes


def dbc_extract(sig, data):
    """Raw value of a signal as the DBC format defines it."""
    length = sig["length"]
    if sig["byte_order"] == "little":
        raw = (int.from_bytes(data, "little") >> sig["start"]) & ((1 << length) - 1)
    else:
        raw = 0
        pos = sig["start"]
        for _ in range(length):
            raw = (raw << 1) | ((data[pos // 8] >> (pos % 8)) & 1)
            pos = pos + 15 if pos % 8 == 0 else pos - 1
    if sig["float"] == 1:
        return struct.unpack("<f", struct.pack("<I", raw))[0]
    if sig["float"] == 2:
        return struct.unpack("<d", struct.pack("<Q", raw))[0]
    if sig["signed"] and length > 0 and raw >> (length - 1):
        raw -= 1 << length
    return raw


# --------------------------------------------------------------------------
# Packing frames according to the layout
# --------------------------------------------------------------------------


def raw_bits(leaf, value):
    if leaf.kind == "f":
        if leaf.width == 32:
            return struct.unpack("<I", struct.pack("<f", value))[0]
        return struct.unpack("<Q", struct.pack("<d", value))[0]
    return value & ((1 << leaf.width) - 1)


def pack_frame(leaves, values, nbytes):
    data = bytearray(nbytes)
    acc = 0
    for leaf in leaves:
        bits = raw_bits(leaf, values[leaf.name])
        if leaf.big:
            assert leaf.start % 8 == 0 and leaf.width % 8 == 0
            continue
        acc |= bits << leaf.start
    data[:] = acc.to_bytes(nbytes, "little")
    for leaf in leaves:
        if leaf.big:
            first = leaf.start // 8
            count = leaf.width // 8
            bits = raw_bits(leaf, values[leaf.name])
            data[first : first + count] = bits.to_bytes(count, "big")
    return bytes(data)


def f32(x):
    return struct.unpack("<f", struct.pack("<f", x))[0]


def candidate_values(leaf, rng):
    w = leaf.width
    if leaf.kind == "f":
        base = [0.0, 1.0, -1.0, 0.5, -2.75, 1e10, -3.5e-7, rng.uniform(-1e6, 1e6)]
        return [f32(x) for x in base] if w == 32 else base
    if leaf.kind == "i":
        lo, hi = -(1 << (w - 1)), (1 << (w - 1)) - 1
        return [0, lo, hi, -1, rng.randint(lo, hi), rng.randint(lo, hi)]
    hi = (1 << w) - 1
    return [0, hi, 1 & hi, hi >> 1, rng.randint(0, hi), rng.randint(0, hi)]


# --------------------------------------------------------------------------
# Running the generator
# --------------------------------------------------------------------------


def parse(text):
    with tempfile.TemporaryDirectory() as tmp:
        path = Path(tmp) / "schema.fcp"
        path.write_text(text)
        return get_fcp(path).unwrap()


def generate(text):
    fcp = parse(text)
    results = Generator().generate(fcp, {"output": "out"})
    return fcp, results


def check_schema(label, schema, rng):
    text = schema_text(schema)
    fcp, results = generate(text)

    can_impls = [i for i in schema.impls if i.get("protocol", "can") == "can"]

    # expected grouping by bus, in order of first appearance
    by_bus = {}
    for impl in can_impls:
        by_bus.setdefault(impl.get("bus") or "default", []).append(impl)

    check(
        [r["bus"] for r in results] == list(by_bus),
        f"{label}: buses {[r['bus'] for r in results]} != {list(by_bus)}",
    )
    for r in results:
        check(r["type"] == "file", f"{label}: result type")
        check(r["path"] == Path("out") / (r["bus"] + ".fcp"), f"{label}: path {r['path']}")

    # generation is repeatable, also through write_dbc directly
    again = Generator().generate(fcp, {"output": "out"})
    check(
        [(r["bus"], r["contents"]) for r in again]
        == [(r["bus"], r["contents"]) for r in results],
        f"{label}: second generation differs",
    )
    direct = write_dbc(fcp)
    check(direct.is_ok(), f"{label}: write_dbc is not Ok")
    check(
        [tuple(x) for x in direct.unwrap()]
        == [(r["bus"], r["contents"]) for r in results],
        f"{label}: write_dbc differs from Generator.generate",
    )

    for r in results:
        bus = r["bus"]
        impls = by_bus.get(bus, [])
        messages, nodes = read_dbc(r["contents"])
        db = cantools.database.load_string(r["contents"], "dbc")

        check(
            [(m["id"], m["name"]) for m in messages]
            == [(i["id"], i.get("name") or i["type"]) for i in impls],
            f"{label}/{bus}: messages {[(m['id'], m['name']) for m in messages]}",
        )
        expected_nodes = []
        for impl in impls:
            dev = impl.get("device")
            if dev is not None and dev not in expected_nodes:
                expected_nodes.append(dev)
        check(nodes == expected_nodes, f"{label}/{bus}: nodes {nodes} != {expected_nodes}")

        for impl, message in zip(impls, messages):
            mlabel = f"{label}/{bus}/{message['name']}"
            leaves = expected_leaves(schema, impl)
            total = leaves[-1].start + leaves[-1].width
            nbytes = (total + 7) // 8
            check(message["length"] == nbytes, f"{mlabel}: length {message['length']} != {nbytes}")
            check(
                sorted(message["signals"]) == sorted(l.name for l in leaves),
                f"{mlabel}: signal names {sorted(message['signals'])}",
            )
            mux_owners = {
                l.opts["mux_signal"] for l in leaves if l.opts.get("mux_signal") is not None
            }
            for leaf in leaves:
                sig = message["signals"].get(leaf.name)
                if sig is None:
                    continue
                slabel = f"{mlabel}.{leaf.name}"
                exp_start = leaf.start if leaf.opts.get("endianess", "little") == "little" else leaf.start + 7
                check(sig["start"] == exp_start, f"{slabel}: start {sig['start']} != {exp_start}")
                check(sig["length"] == leaf.width, f"{slabel}: width {sig['length']} != {leaf.width}")
                check(
                    sig["byte_order"] == ("big" if leaf.big else "little"),
                    f"{slabel}: byte order {sig['byte_order']}",
                )
                check(sig["signed"] == (leaf.kind == "i"), f"{slabel}: signedness")
                exp_float = 0 if leaf.kind != "f" else (1 if leaf.width == 32 else 2)
                check(sig["float"] == exp_float, f"{slabel}: value type {sig['float']}")
                check(sig["unit"] == leaf.unit, f"{slabel}: unit {sig['unit']!r} != {leaf.unit!r}")
                check(
                    (sig["factor"], sig["offset"]) == ("1", "0"),
                    f"{slabel}: scaling {sig['factor']},{sig['offset']}",
                )
                # multiplexing
                is_mux = leaf.raw_name in mux_owners
                mux_signal = leaf.opts.get("mux_signal")
                mux_count = leaf.opts.get("mux_count")
                if mux_signal is None:
                    exp_mux = "M" if is_mux else None
                    check(sig["mux"] == exp_mux, f"{slabel}: mux indicator {sig['mux']}")
                    check(sig["mul_val"] is None, f"{slabel}: unexpected SG_MUL_VAL_")
                else:
                    check(
                        sig["mux"] == "m0" + ("M" if is_mux else ""),
                        f"{slabel}: mux indicator {sig['mux']}",
                    )
                    # "m0" alone already says "only when the selector is 0";
                    # the writer may leave SG_MUL_VAL_ out in that case.
                    check(
                        sig["mul_val"] == (mux_signal, [(0, mux_count - 1)])
                        or (sig["mul_val"] is None and mux_count == 1),
                        f"{slabel}: SG_MUL_VAL_ {sig['mul_val']}",
                    )
                # the same through cantools
                csig = db.get_message_by_frame_id(impl["id"]).get_signal_by_name(leaf.name)
                check(
                    (csig.start, csig.length, csig.byte_order, csig.is_signed, csig.is_float)
                    == (
                        exp_start,
                        leaf.width,
                        "big_endian" if leaf.big else "little_endian",
                        leaf.kind == "i",
                        leaf.kind == "f",
                    ),
                    f"{slabel}: cantools view differs",
                )
                check(
                    csig.multiplexer_signal == mux_signal
                    and csig.is_multiplexer == is_mux
                    and csig.multiplexer_ids
                    == (list(range(mux_count)) if mux_signal is not None else None),
                    f"{slabel}: cantools mux view differs",
                )

            # the layout seen by the packed encoder itself agrees
            encoder = make_encoder(
                "packed", fcp, PackedEncoderContext().with_unroll_arrays(True)
            )
            fimpl = [i for i in fcp.get_matching_impls("can")][can_impls.index(impl)]
            for _ in range(2):  # encoder instances are reusable
                pieces = encoder.generate(fimpl)
                check(
                    [(p.name, p.bitstart, p.bitlength) for p in pieces]
                    == [(l.raw_name, l.start, l.width) for l in leaves],
                    f"{mlabel}: encoder layout differs",
                )

            # frames round trip through the DBC
            if any(l.width == 0 for l in leaves):
                continue
            cmsg = db.get_message_by_frame_id(impl["id"])
            per_leaf = {l.name: candidate_values(l, rng) for l in leaves}
            rounds = max(len(v) for v in per_leaf.values())
            for n in range(rounds):
                values = {name: vals[n % len(vals)] for name, vals in per_leaf.items()}
                # keep multiplexer selectors inside the declared range
                for leaf in leaves:
                    if leaf.opts.get("mux_signal") is not None:
                        owner = leaf.opts["mux_signal"].replace("::", "_")
                        values[owner] = 0
                data = pack_frame(leaves, values, nbytes)
                for leaf in leaves:
                    got = dbc_extract(message["signals"][leaf.name], data)
                    check(
                        got == values[leaf.name],
                        f"{mlabel}.{leaf.name}: decoded {got} != {values[leaf.name]} from {data.hex()}",
                    )
                try:
                    decoded = cmsg.decode(data, decode_choices=False, scaling=False)
                except Exception as e:  # noqa
                    decoded = f"{type(e).__name__}: {e}"
                check(
                    decoded == values,
                    f"{mlabel}: cantools decoded {decoded} != {values} from {data.hex()}",
                )


# --------------------------------------------------------------------------
# Hand written schemas
# --------------------------------------------------------------------------


def hand_written():
    yield "basic", Schema(
        structs={"Foo": [("s1", 0, ("u", 8), None), ("s2", 1, ("i", 16), "m/s")]},
        impls=[dict(type="Foo", id=10)],
    )
    yield "field-id-order", Schema(
        structs={
            "Foo": [
                ("late", 7, ("u", 3), None),
                ("early", 0, ("i", 5), "V"),
                ("mid", 3, ("u", 1), None),
            ]
        },
        impls=[dict(type="Foo", id=0x7FF, name="renamed", device="ecu")],
    )
    yield "unaligned-everything", Schema(
        enums={"E": [("A", 0), ("B", 1)], "Big": [("X", 3), ("Y", 256), ("Z", 7)]},
        structs={
            "In": [("x", 0, ("i", 2), "V"), ("y", 1, ("f32",), "A")],
            "Foo": [
                ("s1", 0, ("u", 3), None),
                ("s2", 1, ("array", ("struct", "In"), 1), None),
                ("e", 2, ("enum", "E"), "unit-e"),
                ("g", 3, ("enum", "Big"), None),
                ("tail", 4, ("i", 7), None),
            ],
        },
        impls=[dict(type="Foo", id=1), dict(type="In", id=2, device="n1")],
    )
    yield "full-frame-f64", Schema(
        structs={"D": [("d", 0, ("f64",), "rad")]},
        impls=[dict(type="D", id=3)],
    )
    yield "exactly-64-bits", Schema(
        structs={
            "P": [("a", 0, ("u", 1), None), ("b", 1, ("i", 63), None)],
            "Q": [("a", 0, ("u", 64), None)],
            "R": [("a", 0, ("i", 64), None)],
            "S": [("a", 0, ("array", ("u", 1), 64), None)],
        },
        impls=[
            dict(type="P", id=1),
            dict(type="Q", id=2),
            dict(type="R", id=3),
            dict(type="S", id=4),
        ],
    )
    yield "one-bit", Schema(
        structs={"B": [("flag", 0, ("u", 1), None)]},
        impls=[dict(type="B", id=0)],
    )
    yield "nested-nested", Schema(
        structs={
            "A": [("p", 0, ("u", 4), "a"), ("q", 1, ("i", 4), "b")],
            "B": [("a1", 0, ("struct", "A"), "ignored"), ("z", 1, ("u", 2), None), ("a2", 2, ("struct", "A"), None)],
            "C": [("pre", 0, ("u", 1), None), ("b", 1, ("struct", "B"), None), ("post", 2, ("f32",), None)],
        },
        impls=[dict(type="C", id=77, bus="inner", device="d")],
    )
    yield "arrays", Schema(
        enums={"E": [("A", 0), ("B", 2)]},
        structs={
            "In": [("k", 0, ("u", 3), "kg")],
            "Arr": [
                ("v", 0, ("array", ("u", 5), 3), "m"),
                ("w", 1, ("array", ("array", ("i", 3), 2), 2), None),
                ("s", 2, ("array", ("struct", "In"), 2), None),
                ("e", 3, ("array", ("enum", "E"), 2), "en"),
                ("z", 4, ("array", ("u", 8), 0), None),
                ("last", 5, ("u", 2), None),
            ],
        },
        impls=[dict(type="Arr", id=5, signals={"v_1": {"endianess": "little"}})],
    )
    yield "big-endian", Schema(
        structs={
            "Foo": [
                ("s1", 0, ("u", 8), None),
                ("s2", 1, ("u", 8), None),
                ("s3", 2, ("i", 16), "deg"),
                ("s4", 3, ("u", 24), None),
                ("s5", 4, ("u", 5), None),
            ]
        },
        impls=[
            dict(
                type="Foo",
                id=10,
                signals={
                    "s2": {"endianess": "big"},
                    "s3": {"endianess": "big"},
                    "s4": {"endianess": "big"},
                },
            )
        ],
    )
    yield "big-endian-in-array-and-struct", Schema(
        structs={
            "In": [("hi", 0, ("u", 16), None), ("lo", 1, ("i", 8), None)],
            "Foo": [("a", 0, ("array", ("u", 8), 2), None), ("n", 1, ("struct", "In"), None)],
        },
        impls=[
            dict(
                type="Foo",
                id=12,
                signals={
                    "a_1": {"endianess": "big"},
                    "hi": {"endianess": "big"},
                    "lo": {"endianess": "big"},
                },
            )
        ],
    )
    yield "muxed", Schema(
        structs={
            "Foo": [
                ("s1", 0, ("u", 8), None),
                ("s2", 1, ("u", 8), None),
                ("s3", 2, ("i", 12), "x"),
                ("plain", 3, ("u", 4), None),
            ]
        },
        impls=[
            dict(
                type="Foo",
                id=10,
                signals={
                    "s2": {"mux_count": 4, "mux_signal": "s1"},
                    "s3": {"mux_count": 1, "mux_signal": "s1"},
                },
            )
        ],
    )
    yield "muxed-twice", Schema(
        structs={
            "Foo": [
                ("sel_a", 0, ("u", 2), None),
                ("val_a", 1, ("u", 6), None),
                ("other", 2, ("u", 8), None),
            ],
            "Bar": [("sel", 0, ("u", 4), None), ("v", 1, ("f32",), None)],
        },
        impls=[
            dict(type="Foo", id=1, signals={"val_a": {"mux_count": 3, "mux_signal": "sel_a"}}),
            dict(type="Bar", id=2, signals={"v": {"mux_count": 16, "mux_signal": "sel"}}),
        ],
    )
    yield "several-buses", Schema(
        structs={
            "Foo": [("s1", 0, ("u", 16), "m/s"), ("s2", 1, ("u", 16), "m/s^2")],
            "Bar": [("b", 0, ("i", 9), None)],
        },
        impls=[
            dict(type="Foo", id=10, bus="bus1", device="ecu1"),
            dict(type="Bar", id=11, bus="bus2", device="ecu2"),
            dict(type="Foo", id=10, bus="bus2", device="ecu1", name="foo_again"),
            dict(type="Bar", id=12, name="bar_default", device="ecu3"),
            dict(type="Bar", id=13, bus="bus1", name="bar1", device="ecu1"),
            dict(type="Bar", id=14, bus="bus1", name="bar2", device="ecu0"),
            dict(type="Bar", id=15, bus="bus1", name="bar3"),
        ],
    )
    yield "other-protocols-ignored", Schema(
        structs={"Foo": [("s1", 0, ("u", 16), None)], "Huge": [("s", 0, ("array", ("u", 64), 4), None)]},
        impls=[
            dict(type="Huge", id=1, protocol="udp"),
            dict(type="Foo", id=2),
            dict(type="Foo", id=3, protocol="default"),
        ],
    )
    yield "no-can-binding", Schema(
        structs={"Foo": [("s1", 0, ("u", 16), None)]},
        impls=[dict(type="Foo", id=3, protocol="uart")],
    )


# --------------------------------------------------------------------------
# Random schemas
# --------------------------------------------------------------------------


def random_schema(rng, n):
    enums = {}
    for i in range(rng.randint(0, 2)):
        top = rng.choice([0, 1, 2, 3, 4, 7, 8, 15, 16, 100, 255, 256, 1000])
        members = [(f"M{i}_0", top)]
        for j in range(rng.randint(0, 3)):
            members.append((f"M{i}_{j + 1}", rng.randint(0, top)))
        rng.shuffle(members)
        enums[f"E{i}"] = members

    def scalar():
        roll = rng.random()
        if roll < 0.35:
            return ("u", rng.choice([1, 2, 3, 5, 7, 8, 8, 9, 12, 16, 16, 24, 31, 32]))
        if roll < 0.6:
            return ("i", rng.choice([2, 3, 4, 7, 8, 8, 11, 16, 16, 17, 32]))
        if roll < 0.7:
            return ("f32",)
        if roll < 0.72:
            return ("f64",)
        if roll < 0.85 and enums:
            return ("enum", rng.choice(list(enums)))
        return ("u", rng.randint(1, 20))

    structs = {}
    names = []
    counter = [0]
    units = [None, None, "m/s", "V", "kg", "%", "deg C"]

    def fresh():
        counter[0] += 1
        return f"f{counter[0]}"

    for s in range(rng.randint(1, 3)):
        fields = []
        ids = rng.sample(range(0, 12), rng.randint(1, 4))
        for fid in ids:
            roll = rng.random()
            if roll < 0.2 and names:
                ftype = ("struct", rng.choice(names))
            elif roll < 0.35:
                ftype = ("array", scalar(), rng.randint(1, 3))
            elif roll < 0.42 and names:
                ftype = ("array", ("struct", rng.choice(names)), rng.randint(1, 2))
            else:
                ftype = scalar()
            fields.append((fresh(), fid, ftype, rng.choice(units)))
        name = f"S{s}"
        structs[name] = fields
        names.append(name)

    schema = Schema(enums=enums, structs=structs)
    impls = []
    buses = [None, None, "bus_a", "bus_b"]
    next_id = 1
    for name in names:
        for _ in range(rng.randint(0, 2) if name != names[-1] else rng.randint(1, 2)):
            impl = dict(
                type=name,
                id=next_id,
                name=f"msg_{next_id}" if rng.random() < 0.7 or any(i["type"] == name for i in impls) else None,
                bus=rng.choice(buses),
                device=rng.choice([None, "ecu_a", "ecu_b", "ecu_c"]),
                signals={},
            )
            next_id += rng.randint(1, 40)
            leaves = expected_leaves(schema, impl)
            total = leaves[-1].start + leaves[-1].width
            if total > 64:
                continue
            # big endian only where every occurrence of the field name is byte aligned
            by_field = {}
            for leaf in leaves:
                fname = leaf.raw_name.split("::")[-1]
                by_field.setdefault(fname, []).append(leaf)
            for fname, group in by_field.items():
                if (
                    all(l.start % 8 == 0 and l.width % 8 == 0 and l.kind in "ui" for l in group)
                    and rng.random() < 0.5
                ):
                    impl["signals"][fname] = {"endianess": "big"}
            # multiplex a top level integer signal on the first top level one
            top = [l for l in leaves if "::" not in l.raw_name and l.kind == "u"]
            if len(top) >= 2 and rng.random() < 0.4:
                owner, muxed = top[0], rng.choice(top[1:])
                if len(by_field[muxed.raw_name]) == 1 and len(by_field[owner.raw_name]) == 1:
                    opts = impl["signals"].setdefault(muxed.raw_name, {})
                    opts["mux_count"] = rng.randint(1, min(1 << owner.width, 9))
                    opts["mux_signal"] = owner.raw_name
            impls.append(impl)
    schema.impls = impls
    return schema


# --------------------------------------------------------------------------
# Error behaviour and odd inputs
# --------------------------------------------------------------------------


def outcome(text):
    """(kind, detail) describing what generation does for a schema text."""
    try:
        fcp = parse(text)
    except BaseException as e:  # noqa
        return ("parse-error", type(e).__name__)
    try:
        results = Generator().generate(fcp, {"output": "out"})
    except BaseException as e:  # noqa
        return (type(e).__name__, str(e))
    return ("ok", [(r["bus"], r["contents"]) for r in results])


def error_cases():
    # too big: 72 bits
    big = Schema(
        structs={"Foo": [("s1", 0, ("u", 32), None), ("s2", 1, ("u", 32), None), ("s3", 2, ("u", 8), None)]},
        impls=[dict(type="Foo", id=10)],
    )
    check(
        outcome(schema_text(big)) == ("ValueError", "Message Foo too big. Current length: 72"),
        f"too big: {outcome(schema_text(big))}",
    )
    # 65 bits, nested, second impl is the offender, named impl reports the type name
    big2 = Schema(
        structs={
            "In": [("a", 0, ("array", ("u", 13), 5), None)],
            "Ok": [("a", 0, ("u", 64), None)],
        },
        impls=[dict(type="Ok", id=1), dict(type="In", id=2, name="alias", bus="b")],
    )
    check(
        outcome(schema_text(big2)) == ("ValueError", "Message In too big. Current length: 65"),
        f"too big 2: {outcome(schema_text(big2))}",
    )
    # too big wins over a missing id; a missing id alone is an Err from write_dbc
    check(
        outcome(schema_text(Schema(structs=big.structs, impls=[dict(type="Foo", id=None, bus="x")])))
        == ("ValueError", "Message Foo too big. Current length: 72"),
        "too big and no id",
    )
    noid = Schema(
        structs={"Foo": [("s1", 0, ("u", 8), None)]},
        impls=[dict(type="Foo", id=1), dict(type="Foo", id=None, bus="x", name="second")],
    )
    res = write_dbc(parse(schema_text(noid)))
    check(res.is_err() and res.err_value == "No id field found in extension", f"no id: {res}")
    kind, _ = outcome(schema_text(noid))
    check(kind == "UnwrapError", f"no id through the generator: {kind}")

    # types the packed encoder cannot lay out
    for label, ftype, shown in (
        ("str", ("str",), "StringType"),
        ("dynamic array", ("dynarray", ("u", 8)), "DynamicArrayType"),
        ("optional", ("optional", ("u", 8)), "OptionalType"),
        ("array of str", ("array", ("str",), 2), "StringType"),
    ):
        bad = Schema(
            structs={"Foo": [("ok", 0, ("u", 8), None), ("bad", 1, ftype, None)]},
            impls=[dict(type="Foo", id=1)],
        )
        kind, detail = outcome(schema_text(bad))
        check(
            kind == "ValueError"
            and detail.startswith("Error computing type length for type ")
            and shown in detail,
            f"{label}: {kind} {detail}",
        )

    # binding for a type that does not exist
    ghost = 'version: "3"\n\nstruct Foo {\n    s1 @0: u8,\n}\n\nimpl can for Nope {\n    id: 1,\n}\n'
    kind, _ = outcome(ghost)
    check(kind == "UnwrapError", f"ghost type: {kind}")

    # no bindings at all: nothing is generated
    nothing = Schema(structs={"Foo": [("s1", 0, ("u", 8), None)]}, impls=[])
    check(outcome(schema_text(nothing)) == ("ok", []), "no impls")


ODD_TEXTS = {
    # a binding whose type is an enum
    "impl-for-enum": 'version: "3"\n\nenum E {\n    A = 0,\n    B = 5,\n}\n\nimpl can for E {\n    id: 4,\n}\n',
    "impl-for-enum-zero": 'version: "3"\n\nenum Z {\n    A = 0,\n}\n\nimpl can for Z {\n    id: 4,\n}\n',
    # a zero width field
    "u0": 'version: "3"\n\nstruct Foo {\n    a @0: u8,\n    z @1: u0,\n    b @2: u8,\n}\n\nimpl can for Foo {\n    id: 4,\n}\n',
    # odd option values
    "odd-endianess": 'version: "3"\n\nstruct Foo {\n    a @0: u8,\n    b @1: u8,\n}\n\nimpl can for Foo {\n    id: 4,\n    signal b {\n        endianess: "middle",\n    },\n}\n',
    "mux-count-only": 'version: "3"\n\nstruct Foo {\n    a @0: u8,\n    b @1: u8,\n}\n\nimpl can for Foo {\n    id: 4,\n    signal b {\n        mux_count: 2,\n    },\n}\n',
    "mux-signal-only": 'version: "3"\n\nstruct Foo {\n    a @0: u8,\n    b @1: u8,\n}\n\nimpl can for Foo {\n    id: 4,\n    signal b {\n        mux_signal: "a",\n    },\n}\n',
    "list-device": 'version: "3"\n\nstruct Foo {\n    a @0: u8,\n}\n\nimpl can for Foo {\n    id: 4,\n    device: [x, y],\n}\n\nimpl can for Foo as again {\n    id: 5,\n    device: [x, y],\n}\n',
    "list-bus": 'version: "3"\n\nstruct Foo {\n    a @0: u8,\n}\n\nimpl can for Foo {\n    id: 4,\n    bus: [x, y],\n}\n',
    "int-bus": 'version: "3"\n\nstruct Foo {\n    a @0: u8,\n}\n\nimpl can for Foo {\n    id: 4,\n    bus: 7,\n}\n',
    "list-mux-signal": 'version: "3"\n\nstruct Foo {\n    a @0: u8,\n    b @1: u8,\n}\n\nimpl can for Foo {\n    id: 4,\n    signal b {\n        mux_count: 2,\n        mux_signal: [a],\n    },\n}\n',
    # several things wrong at once: which error wins must not change
    "list-bus-string-id": 'version: "3"\n\nstruct Foo {\n    a @0: u8,\n}\n\nimpl can for Foo {\n    id: "ten",\n    bus: [x, y],\n}\n',
    "list-bus-no-id": 'version: "3"\n\nstruct Foo {\n    a @0: u8,\n}\n\nimpl can for Foo {\n    bus: [x, y],\n}\n',
    "list-bus-too-big": 'version: "3"\n\nstruct Foo {\n    a @0: u64,\n    b @1: u1,\n}\n\nimpl can for Foo {\n    id: 1,\n    bus: [x, y],\n}\n',
    "list-bus-u0": 'version: "3"\n\nstruct Foo {\n    a @0: u0,\n}\n\nimpl can for Foo {\n    id: 1,\n    bus: [x, y],\n}\n',
    "string-id-list-device": 'version: "3"\n\nstruct Foo {\n    a @0: u8,\n}\n\nimpl can for Foo {\n    id: "ten",\n    device: [x],\n}\n',
    "no-id-str-field": 'version: "3"\n\nstruct Foo {\n    a @0: str,\n}\n\nimpl can for Foo {\n    bus: "b",\n}\n',
    "second-bus-fails": 'version: "3"\n\nstruct Foo {\n    a @0: u8,\n}\n\nstruct Bar {\n    a @0: u0,\n}\n\nimpl can for Foo {\n    id: 1,\n    device: [x],\n}\n\nimpl can for Bar {\n    id: 2,\n    bus: "b2",\n}\n',
    "string-id": 'version: "3"\n\nstruct Foo {\n    a @0: u8,\n}\n\nimpl can for Foo {\n    id: "ten",\n}\n',
    "duplicate-signal-blocks": 'version: "3"\n\nstruct Foo {\n    a @0: u8,\n    b @1: u8,\n}\n\nimpl can for Foo {\n    id: 4,\n    signal b {\n        endianess: "big",\n    },\n    signal b {\n        endianess: "little",\n    },\n}\n',
}


def odd_cases():
    for label, text in ODD_TEXTS.items():
        first = outcome(text)
        second = outcome(text)
        check(first == second, f"odd {label}: not repeatable")
        expected = ODD_EXPECTED.get(label)
        check(
            expected is not None and digest(first) == expected,
            f"odd {label}: {digest(first)!r} (expected {expected!r})",
        )


def digest(result):
    kind, detail = result
    if kind == "ok":
        lines = []
        for bus, contents in detail:
            lines.append(f"bus={bus}")
            for line in contents.split("\r\n"):
                if line.startswith(("BO_ ", " SG_ ", "SG_MUL_VAL_", "SIG_VALTYPE_", "BU_:")):
                    lines.append(line)
        return "ok|" + "|".join(lines)
    return f"{kind}|{detail}"


# What the code base does today for the odd inputs (recorded from the unchanged
# tree; a behaviour preserving change must keep every one of them).
ODD_EXPECTED = {
    'impl-for-enum': "AttributeError|'StructType' object has no attribute 'is_signed'",
    'impl-for-enum-zero': "AttributeError|'StructType' object has no attribute 'is_signed'",
    'u0': 'Error|The signal z length 0 is not greater than 0 in message Foo.',
    'odd-endianess': 'Error|The signal b does not fit in message Foo.',
    'mux-count-only': 'ok|bus=default|BU_: |BO_ 4 Foo: 2 Vector__XXX| SG_ b m0 : 8|8@1+ (1,0) [0|0] "" Vector__XXX| SG_ a : 0|8@1+ (1,0) [0|0] "" Vector__XXX|SG_MUL_VAL_ 4 b None 0-1;',
    'mux-signal-only': 'ok|bus=default|BU_: |BO_ 4 Foo: 2 Vector__XXX| SG_ b : 8|8@1+ (1,0) [0|0] "" Vector__XXX| SG_ a M : 0|8@1+ (1,0) [0|0] "" Vector__XXX',
    'list-device': "TypeError|expected string or bytes-like object, got 'list'",
    'list-bus': "TypeError|unhashable type: 'list'",
    'int-bus': "TypeError|unsupported operand type(s) for +: 'int' and 'str'",
    'list-mux-signal': 'ok|bus=default|BU_: |BO_ 4 Foo: 2 Vector__XXX| SG_ b m0 : 8|8@1+ (1,0) [0|0] "" Vector__XXX| SG_ a : 0|8@1+ (1,0) [0|0] "" Vector__XXX|SG_MUL_VAL_ 4 b [\'a\'] 0-1;',
    'list-bus-string-id': "TypeError|unhashable type: 'list'",
    'list-bus-no-id': 'UnwrapError|No id field found in extension',
    'list-bus-too-big': 'ValueError|Message Foo too big. Current length: 65',
    'list-bus-u0': "TypeError|unhashable type: 'list'",
    'string-id-list-device': "AttributeError|'str' object has no attribute 'bit_length'",
    'no-id-str-field': "ValueError|Error computing type length for type StringType(type='str')",
    'second-bus-fails': 'Error|The signal a length 0 is not greater than 0 in message Bar.',
    'string-id': "AttributeError|'str' object has no attribute 'bit_length'",
    'duplicate-signal-blocks': 'ok|bus=default|BU_: |BO_ 4 Foo: 2 Vector__XXX| SG_ b : 15|8@0+ (1,0) [0|0] "" Vector__XXX| SG_ a : 0|8@1+ (1,0) [0|0] "" Vector__XXX',
}


# --------------------------------------------------------------------------
# The expected files shipped with the plug-in's own tests
# --------------------------------------------------------------------------


def shipped_examples():
    directory = FCP_ROOT / "plugins" / "fcp_dbc" / "tests" / "schemas" / "generator"
    seen = 0
    for schema_path in sorted(directory.glob("*.fcp")):
        fcp = get_fcp(schema_path).unwrap()
        for r in Generator().generate(fcp, {"output": "output"}):
            expected = (directory / f"{schema_path.stem}_{r['bus']}.dbc").read_text()
            lines = [
                line
                for line in r["contents"].split("\r\n")
                if line.startswith(("BO_", " SG_", "SG_MUL_VAL_"))
            ]
            check("\n".join(lines) + "\n" == expected, f"shipped example {schema_path.stem}/{r['bus']}")
            seen += 1
    check(seen >= 11, f"only {seen} shipped examples found under {directory}")


def main():
    rng = random.Random(0xC05)
    for label, schema in hand_written():
        check_schema(label, schema, rng)
    for n in range(120):
        schema = random_schema(rng, n)
        check_schema(f"random{n}", schema, rng)
    error_cases()
    odd_cases()
    shipped_examples()

    if "--print-odd" in sys.argv:
        for label, text in ODD_TEXTS.items():
            print(f"    {label!r}: {digest(outcome(text))!r},")

    if FAILURES:
        print(f"FAIL: {len(FAILURES)} of {CHECKS} checks failed")
        return 1
    print(f"PASS ({CHECKS} checks)")
    return 0


if __name__ == "__main__":
    sys.exit(main())
