#!/venv/bin/python
"""Differential test for property C16.

Python decoder detects truncated input instead of fabricating values:
decoding any strict prefix of a valid encoding, or any byte string shorter
than what its length prefixes announce, raises a decoding error, and the work
done is bounded by the input length.

The script compares fcp.serde.decode with a small independent reference
decoder (written from the wire-format description, kept in this file) on
 * valid encodings of nested / unaligned / variable-length shapes,
 * every byte-boundary truncation of those encodings,
 * corrupted u32 length prefixes up to 2**32-1 (timed),
 * random byte strings (value or error type + message must agree),
 * repeated calls and several bytes-like input types.

Run with PYTHONPATH pointing at the tree under test. Prints PASS, exit 0.
"""

import os
import random
import struct
import sys
import tempfile
import time
from pathlib import Path

from fcp.parser import get_fcp
from fcp.serde import decode, encode
from fcp.specs.type import (
    ArrayType,
    DoubleType,
    DynamicArrayType,
    EnumType,
    FloatType,
    OptionalType,
    SignedType,
    StringType,
    StructType,
    UnsignedType,
)

SCHEMA = """version: "3"

enum Tiny {
    Only = 0,
}

enum Mode {
    Off = 0,
    On = 1,
    Auto = 2,
    Fault = 5,
}

enum Wide {
    A = 0,
    B = 300,
}

struct Bits {
    a @ 0: u3,
    b @ 1: i5,
    c @ 2: Mode,
    d @ 3: u1,
    e @ 4: i12,
}

struct Scalars {
    s7 @ 7: i64,
    s0 @ 0: u8,
    s1 @ 1: i8,
    s2 @ 2: u16,
    s3 @ 3: i16,
    s4 @ 4: u32,
    s5 @ 5: i32,
    s6 @ 6: u64,
    s8 @ 8: f32,
    s9 @ 9: f64,
    s10 @ 10: str,
}

struct Text {
    lead @ 0: u5,
    name @ 1: str,
    tail @ 2: u3,
}

struct Vec {
    pre @ 0: u2,
    items @ 1: [u7],
    post @ 2: Tiny,
}

struct Fixed {
    m @ 0: [i3, 5],
    n @ 1: [Bits, 2],
}

struct Opt {
    x @ 0: Optional[u16],
    y @ 1: Optional[Bits],
    z @ 2: Optional[str],
}

struct Nested {
    w @ 0: Wide,
    rows @ 1: [Vec],
    names @ 2: [str],
    maybe @ 3: Optional[[u8]],
    grid @ 4: [[u4, 3]],
    inner @ 5: Text,
    f @ 6: f32,
    g @ 7: f64,
}
"""


def load_schema():
    with tempfile.TemporaryDirectory() as d:
        p = Path(d) / "c16_demo.fcp"
        p.write_text(SCHEMA)
        res = get_fcp(p)
        return res.unwrap()


# --------------------------------------------------------------------------
# reference decoder: one big integer, little-endian bit order
# --------------------------------------------------------------------------
class RefOverrun(Exception):
    pass


class Ref:
    def __init__(self, fcp, data):
        self.fcp = fcp
        self.n = 8 * len(data)
        self.v = int.from_bytes(bytes(data), "little")
        self.pos = 0

    def bits(self, k):
        if self.pos + k > self.n:
            raise RefOverrun()
        w = (self.v >> self.pos) & ((1 << k) - 1)
        self.pos += k
        return w

    def raw(self, count):
        # bounded by the input: never allocate from the announced count
        if self.pos + 8 * count > self.n:
            raise RefOverrun()
        return bytes(self.bits(8) for _ in range(count))

    def value(self, t):
        if isinstance(t, UnsignedType):
            return self.bits(t.get_length())
        if isinstance(t, SignedType):
            k = t.get_length()
            w = self.bits(k)
            # the shipped decoder keeps exactly 2**(k-1) positive
            return w - (1 << k) if w > (1 << k) / 2 else w
        if isinstance(t, FloatType):
            return struct.unpack("f", self.raw(4))[0]
        if isinstance(t, DoubleType):
            return struct.unpack("d", self.raw(8))[0]
        if isinstance(t, StringType):
            return self.raw(self.bits(32)).decode("ascii")
        if isinstance(t, EnumType):
            return self.bits(self.fcp.get_enum(t.name).unwrap().get_packed_size())
        if isinstance(t, StructType):
            return self.struct(t.name)
        if isinstance(t, ArrayType):
            return [self.value(t.underlying_type) for _ in range(t.size)]
        if isinstance(t, DynamicArrayType):
            count = self.bits(32)
            out = []
            for _ in range(count):
                out.append(self.value(t.underlying_type))
            return out
        if isinstance(t, OptionalType):
            if self.bits(8) != 0:
                return self.value(t.underlying_type)
            return None
        raise AssertionError("unknown type")

    def struct(self, name):
        s = self.fcp.get_struct(name).unwrap()
        out = {}
        for f in sorted(s.fields, key=lambda f: f.field_id):
            out[f.name] = self.value(f.type)
        return out


def ref_outcome(fcp, name, data):
    try:
        return ("ok", Ref(fcp, data).struct(name))
    except RefOverrun:
        return ("err", "ValueError", "buffer overrrun")
    except UnicodeDecodeError as e:
        return ("err", "UnicodeDecodeError", str(e))


def sut_outcome(fcp, name, data):
    try:
        return ("ok", decode(fcp, name, data))
    except Exception as e:  # noqa: BLE001 - the class is part of what is compared
        return ("err", type(e).__name__, str(e))


def same(a, b):
    """Structural equality that also distinguishes int/float/None and NaN."""
    if type(a) is not type(b):
        return False
    if isinstance(a, dict):
        return list(a.keys()) == list(b.keys()) and all(same(a[k], b[k]) for k in a)
    if isinstance(a, (list, tuple)):
        return len(a) == len(b) and all(same(x, y) for x, y in zip(a, b))
    if isinstance(a, float):
        return struct.pack("d", a) == struct.pack("d", b)
    return a == b


FAILS = []


def check(cond, msg):
    if not cond:
        FAILS.append(msg)
        if len(FAILS) < 15:
            print("FAIL:", msg)


BITS0 = {"a": 5, "b": -3, "c": 5, "d": 1, "e": -2047}
BITS1 = {"a": 7, "b": 15, "c": 2, "d": 0, "e": 2047}
BITS2 = {"a": 0, "b": -15, "c": 0, "d": 1, "e": -1}

SAMPLES = [
    ("Bits", BITS0),
    ("Bits", BITS1),
    ("Bits", BITS2),
    (
        "Scalars",
        {
            "s0": 255, "s1": -127, "s2": 65535, "s3": -32767, "s4": 2**32 - 1,
            "s5": -(2**31) + 1, "s6": 2**64 - 1, "s7": -(2**63 - 1), "s8": 1.5,
            "s9": -2.25e300, "s10": "hello, world",
        },
    ),
    (
        "Scalars",
        {
            "s0": 0, "s1": 127, "s2": 0, "s3": 32767, "s4": 0, "s5": 2**31 - 1,
            "s6": 0, "s7": 2**63 - 1, "s8": 0.0, "s9": float("inf"), "s10": "",
        },
    ),
    ("Text", {"lead": 31, "name": "unaligned string", "tail": 5}),
    ("Text", {"lead": 0, "name": "", "tail": 0}),
    ("Vec", {"pre": 3, "items": [], "post": 0}),
    ("Vec", {"pre": 1, "items": [127, 0, 1, 64, 99], "post": 0}),
    ("Vec", {"pre": 2, "items": list(range(100)), "post": 0}),
    ("Fixed", {"m": [-3, 3, 0, -1, 2], "n": [BITS0, BITS1]}),
    ("Opt", {"x": None, "y": None, "z": None}),
    ("Opt", {"x": 4660, "y": BITS2, "z": "opt"}),
    ("Opt", {"x": 0, "y": None, "z": ""}),
    (
        "Nested",
        {
            "w": 300,
            "rows": [
                {"pre": 0, "items": [1, 2, 3], "post": 0},
                {"pre": 3, "items": [], "post": 0},
                {"pre": 1, "items": [127] * 9, "post": 0},
            ],
            "names": ["a", "", "longer name"],
            "maybe": [9, 8, 7],
            "grid": [[1, 2, 3], [15, 0, 15]],
            "inner": {"lead": 17, "name": "in", "tail": 7},
            "f": -0.5,
            "g": 1e-300,
        },
    ),
    (
        "Nested",
        {
            "w": 0, "rows": [], "names": [], "maybe": None, "grid": [],
            "inner": {"lead": 0, "name": "", "tail": 0}, "f": 0.0, "g": 0.0,
        },
    ),
]


# The most negative value of a signed field comes back positive (long-standing
# behaviour of the shipped decoder). These samples are only compared with the
# reference decoder, not with the value that was encoded.
QUIRK_SAMPLES = [
    ("Bits", {"a": 1, "b": -16, "c": 1, "d": 0, "e": -2048}),
    ("Fixed", {"m": [-4, -4, 0, 3, -4], "n": [BITS0, BITS2]}),
]


def is_trunc_error(out):
    return out == ("err", "ValueError", "buffer overrrun")


def main():
    fcp = load_schema()
    rng = random.Random(0xC16)
    names = [s.name for s in fcp.structs]
    n_checks = 0

    encodings = []
    for name, value in SAMPLES + QUIRK_SAMPLES:
        enc = encode(fcp, name, value)
        check(isinstance(enc, bytearray), "encode returns bytearray")
        encodings.append((name, value, enc))

        # 1. round trip and agreement with the reference
        got = sut_outcome(fcp, name, enc)
        check(got[0] == "ok", "%s: valid encoding rejected %r" % (name, got))
        if (name, value) in SAMPLES:
            check(same(got[1], value), "%s: round trip %r" % (name, got))
        check(same(got, ref_outcome(fcp, name, enc)), "%s: reference disagrees" % name)

        # repeated calls / other bytes-like inputs give the same answer and do
        # not mutate their argument
        snapshot = bytes(enc)
        for alt in (bytes(enc), bytearray(enc), memoryview(bytes(enc)), list(enc)):
            check(same(sut_outcome(fcp, name, alt), got), "%s: input type %s" % (name, type(alt)))
        check(bytes(enc) == snapshot, "%s: decode mutated its input" % name)

        # 2. every strict prefix is rejected with the decoder's overrun error
        for k in range(len(enc)):
            out = sut_outcome(fcp, name, enc[:k])
            n_checks += 1
            check(is_trunc_error(out), "%s: prefix %d/%d gave %r" % (name, k, len(enc), out))
            check(same(out, ref_outcome(fcp, name, enc[:k])), "%s: prefix %d ref" % (name, k))

        # 3. trailing bytes are ignored exactly as before
        out = sut_outcome(fcp, name, enc + bytearray([0xAA, 0x55]))
        check(same(out, got), "%s: trailing bytes changed the value" % name)

    # 4. corrupted length prefixes: announce more than there is
    huge = [2**32 - 1, 2**32 - 2, 2**31, 2**31 - 1, 2**24 + 1, 2**16, 4096]
    t0 = time.perf_counter()
    # 4a. byte-aligned prefixes (str at offset 0 is not available; use S with [u7]/str
    #     after a sub-byte lead so the prefix is unaligned too)
    for name, value, enc in encodings:
        if name == "Text":
            # prefix sits at bit 5
            for h in huge + [len(value["name"]) + 1, len(value["name"]) + 2]:
                v = int.from_bytes(enc, "little")
                v &= ~(0xFFFFFFFF << 5)
                v |= h << 5
                bad = bytearray(v.to_bytes(len(enc), "little"))
                out = sut_outcome(fcp, name, bad)
                n_checks += 1
                check(is_trunc_error(out), "Text: length %d gave %r" % (h, out))
                check(same(out, ref_outcome(fcp, name, bad)), "Text: length %d ref" % h)
        if name == "Vec":
            # prefix sits at bit 2
            for h in huge + [len(value["items"]) + 2, len(value["items"]) + 9]:
                v = int.from_bytes(enc, "little")
                v &= ~(0xFFFFFFFF << 2)
                v |= h << 2
                bad = bytearray(v.to_bytes(len(enc), "little"))
                out = sut_outcome(fcp, name, bad)
                n_checks += 1
                check(is_trunc_error(out), "Vec: length %d gave %r" % (h, out))
                check(same(out, ref_outcome(fcp, name, bad)), "Vec: length %d ref" % h)
    # 4b. prefix only, nothing behind it
    for h in huge + [1]:
        for name, lead_bits in (("Text", 5), ("Vec", 2)):
            v = h << lead_bits
            bad = bytearray(v.to_bytes(5, "little"))
            out = sut_outcome(fcp, name, bad)
            n_checks += 1
            check(is_trunc_error(out), "%s: bare length %d gave %r" % (name, h, out))
    # 4c. nested: outer array of strings / arrays with huge inner counts
    bad = bytearray([1]) + bytearray([0]) + (2**32 - 1).to_bytes(4, "little") * 3
    for name in ("Nested", "Opt", "Scalars"):
        out = sut_outcome(fcp, name, bad)
        check(same(out, ref_outcome(fcp, name, bad)), "%s: nested huge ref %r" % (name, out))
    # Opt with z present and a 4 GiB string announced
    bad = bytearray([0, 0, 1]) + (2**32 - 1).to_bytes(4, "little") + b"abc"
    out = sut_outcome(fcp, "Opt", bad)
    check(is_trunc_error(out), "Opt: huge optional string gave %r" % (out,))
    elapsed = time.perf_counter() - t0
    check(elapsed < 20.0, "huge length prefixes took %.1fs: work not bounded by input" % elapsed)

    # 5. random byte strings: same value or same error as the reference
    for _ in range(1500):
        name = rng.choice(names)
        n = rng.choice([0, 1, 2, 3, 5, 8, 13, 21, 40])
        data = bytearray(rng.getrandbits(8) for _ in range(n))
        if rng.random() < 0.5:
            # bias towards small counts / ascii so that successes happen too
            data = bytearray(b & rng.choice([0x01, 0x03, 0x7F, 0x0F]) for b in data)
        a = sut_outcome(fcp, name, data)
        b = ref_outcome(fcp, name, data)
        n_checks += 1
        check(same(a, b), "%s: random %s -> %r vs ref %r" % (name, bytes(data).hex(), a, b))

    # 6. mutated valid encodings (bit flips, then truncation)
    for name, value, enc in encodings:
        for _ in range(40):
            m = bytearray(enc)
            if m:
                i = rng.randrange(len(m))
                m[i] ^= 1 << rng.randrange(8)
                m = m[: rng.randrange(len(m) + 1)]
            a = sut_outcome(fcp, name, m)
            b = ref_outcome(fcp, name, m)
            n_checks += 1
            check(same(a, b), "%s: mutated %s -> %r vs ref %r" % (name, bytes(m).hex(), a, b))

    # 7. unknown struct name fails the same way every time
    e1 = sut_outcome(fcp, "NoSuchStruct", bytearray(b"\x00"))
    e2 = sut_outcome(fcp, "NoSuchStruct", bytearray(b"\x00"))
    check(e1[0] == "err" and e1 == e2, "unknown struct: %r / %r" % (e1, e2))

    # 8. a field whose type is none of the known classes is refused, also when
    #    it sits behind fields that decode fine
    from fcp.specs.type import Type

    odd = load_schema()
    odd.get_struct("Bits").unwrap().fields[2].type = Type()
    for data in (b"", b"\x00", b"\xff\xff\xff\xff"):
        out = sut_outcome(odd, "Bits", bytearray(data))
        want = ("err", "ValueError", "buffer overrrun" if not data else "Unmatched type")
        check(out == want, "unknown field type on %r: %r" % (data, out))
    out = sut_outcome(odd, "Fixed", bytearray(b"\xff" * 16))
    check(out == ("err", "ValueError", "Unmatched type"), "unknown nested type: %r" % (out,))

    if FAILS:
        print("FAILED: %d checks failed" % len(FAILS))
        return 1
    print("checked %d truncation/corruption/random cases under %s" % (
        n_checks, os.path.dirname(sys.modules["fcp.serde"].__file__)))
    print("PASS")
    return 0


if __name__ == "__main__":
    sys.exit(main())
