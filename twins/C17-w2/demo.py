#!/usr/bin/env python
"""Differential test for property C17: generated artifacts are a deterministic
function of the schema.

The parent process runs this very file as a worker in several fresh processes,
under different PYTHONHASHSEED values and with different things parsed and
generated beforehand in the same process, and checks that every worker reports
the same set of files with identical contents (the generation-stamp comment line
of the C++ generator is dropped before comparing).

The code under test is found through PYTHONPATH; FCP_ROOT (default
/tmp/twin3-C17) is only used to locate schema files shipped in the repository.
"""

import hashlib
import json
import os
import subprocess
import sys
import tempfile
from pathlib import Path

FCP_ROOT = Path(os.environ.get("FCP_ROOT", "/tmp/twin3-C17"))

# --------------------------------------------------------------------------- #
# corpus
# --------------------------------------------------------------------------- #

CORPUS = {
    "basic": """version: "3"
struct Foo {
    s1 @0: u8 | unit("m/s"),
    s2 @1: u16 | unit("kg"),
}
impl can for Foo {
    id: 10,
    device: "ecu1",
}
""",
    # fields declared out of field_id order, unaligned widths, signed types
    "unordered_unaligned": """version: "3"
struct Odd {
    c @2: i13,
    a @0: u3,
    d @3: u1,
    b @1: i5,
    e @4: f32,
}
impl can for Odd {
    id: 17,
    device: "odd_ecu",
    period: 20,
    signal c {
        endianess: "big",
    },
}
""",
    # enums, arrays of enums, arrays of scalars, arrays of structs, nesting
    "arrays_enums": """version: "3"
enum Mode {
    Off = 0,
    On = 1,
    Fault = 5,
}
enum Tiny {
    Only = 0,
}
struct Inner {
    x @0: u4,
    m @1: Mode,
}
struct Outer {
    modes @1: [Mode, 3],
    first @0: Tiny,
    inner @2: Inner,
    pairs @3: [Inner, 2],
    raw @4: [u5, 2],
}
impl can for Outer {
    id: 300,
    device: "gateway",
    bus: "bus2",
}
impl can for Inner {
    id: 301,
    bus: "bus1",
}
""",
    # the same struct on several buses / protocols, named impls, mux signals
    "multi_protocol": """version: "3"
struct Foo {
    s1 @0: u8,
    s2 @1: u8,
}
struct Bar {
    b1 @0: u16,
    b2 @1: [u8, 2],
}
struct Lonely {
    l @0: u32,
}
impl can for Foo {
    id: 10,
    bus: "bus1",
    signal s2 {
        mux_count: 4,
        mux_signal: "s1",
    },
}
impl can for Foo as FooTwo {
    id: 11,
    bus: "bus2",
    device: "dash",
}
impl uart for Foo {
    endianess: "big",
}
impl uart for Bar as BarUart {
    baud: 9600,
}
impl zigbee for Bar {
    channel: 4,
}
impl can for Bar {
    id: 12,
    device: "dash",
    endianess: "big",
}
""",
    # services (rpc structs and enums are derived), dynamic types, keywords
    "services": """version: "3"
enum E {
    S0 = 0,
    S1 = 1,
    S2 = 2,
}
struct Req {
    a @0: u8,
    e @1: E,
}
struct Rsp {
    ok @0: u1,
    text @1: str,
    list @2: [u8],
    maybe @3: Optional[E],
}
struct Plain {
    v @0: f64,
}
impl can for Plain {
    id: 77,
}
impl register for Plain {
    addr: 3,
}
service Ctl @1 {
    method Get(Req) @0 returns Rsp,
    method Set(Req) @1 returns Rsp,
}
service Aux @7 {
    method Ping(Plain) @3 returns Plain,
}
device ecu1 {
    services: [Ctl, Aux],
}
""",
    # no impl besides the implicit default ones, 64 bit fields
    "defaults_only": """version: "3"
struct Wide {
    a @0: u64,
    b @1: i64,
}
struct Deep3 {
    w @0: u7,
}
struct Deep2 {
    d3 @1: Deep3,
    pad @0: u2,
}
struct Deep1 {
    d2 @0: Deep2,
    tail @1: [Deep3, 2],
}
""",
    # error inputs: too long for a CAN frame / missing id / unknown type
    "err_too_big": """version: "3"
struct Big {
    a @0: u64,
    b @1: u8,
}
impl can for Big {
    id: 1,
    device: "x",
}
""",
    "err_no_id": """version: "3"
struct NoId {
    a @0: u8,
}
impl can for NoId {
    device: "x",
}
""",
    "err_dynamic_in_can": """version: "3"
struct Dyn {
    a @0: u8,
    b @1: [u8],
}
impl can for Dyn {
    id: 5,
}
""",
}

PARSE_ERRORS = {
    "err_unknown_type": 'version: "3"\nstruct A {\n    a @0: Missing,\n}\n',
    "err_syntax": 'version: "3"\nstruct {\n',
    "err_version": 'version: "2"\nstruct A {\n    a @0: u8,\n}\n',
}

REPO_SCHEMAS = [
    "plugins/fcp_cpp/tests/schemas/test.fcp",
    "plugins/fcp_dbc/tests/schemas/generator/007_muxed_signals.fcp",
    "plugins/fcp_dbc/tests/schemas/generator/009_compounded_type_array.fcp",
    "plugins/fcp_dbc/tests/schemas/generator/010_multiple_bus.fcp",
    "plugins/fcp_can_c/tests/002_nested_enum/test.fcp",
    "plugins/fcp_can_c/tests/005_big_endian/test.fcp",
    "plugins/fcp_can_c/example/example.fcp",
    "example/example.fcp",
]

GENERATORS = ["fcp_cpp", "fcp_dbc", "fcp_can_c"]

STAMP_PREFIX = "// Generated using fcp "


def normalise(contents):
    return "\n".join(
        line for line in str(contents).split("\n") if not line.startswith(STAMP_PREFIX)
    )


def digest(text):
    return hashlib.sha256(text.encode("utf-8")).hexdigest()


# --------------------------------------------------------------------------- #
# worker
# --------------------------------------------------------------------------- #


def parse(source):
    from fcp.parser import get_fcp_from_string

    return get_fcp_from_string(source)


def run_generator(generator_name, fcp):
    """Return {file name: digest} or an error marker for one generator run."""
    import importlib

    generator = importlib.import_module(generator_name).Generator()
    with tempfile.TemporaryDirectory() as out:
        try:
            results = generator.generate(fcp, {"output": Path(out) / "gen"})
        except BaseException as e:  # noqa: B902 - error outcomes are part of the result
            return {"!error": type(e).__name__ + ": " + normalise(str(e))[:200]}

        files = {}
        for result in results:
            name = Path(str(result["path"])).name
            d = digest(normalise(result["contents"]))
            if name in files and files[name] != d:
                return {"!error": "two different contents for " + name}
            files[name] = d
        return files


def generate_all(source):
    parsed = parse(source)
    if parsed.is_err():
        return {"!parse_error": digest(str(parsed.err()))}
    fcp = parsed.unwrap()
    return {name: run_generator(name, fcp) for name in GENERATORS}


def all_schemas():
    schemas = dict(CORPUS)
    schemas.update(PARSE_ERRORS)
    for rel in REPO_SCHEMAS:
        path = FCP_ROOT / rel
        if path.exists() and "mod " not in path.read_text():
            schemas["repo:" + rel] = path.read_text()
    return schemas


def worker(mode):
    schemas = all_schemas()
    names = sorted(schemas)
    report = {}

    if mode == "reversed":
        names = names[::-1]
    elif mode == "warm":
        # parse and generate unrelated things first, including failures
        for name in ["err_syntax", "services", "err_too_big", "arrays_enums"]:
            generate_all(schemas[name])
            generate_all(schemas[name])
        from fcp.reflection import get_reflection_schema

        get_reflection_schema().unwrap()
    elif mode == "interleaved":
        names = names[::2] + names[1::2]

    for name in names:
        report[name] = generate_all(schemas[name])
        if mode in ("twice", "warm"):
            again = generate_all(schemas[name])
            if again != report[name]:
                report[name] = {"!unstable": [report[name], again]}

    report["!extra"] = extra_checks()
    print(json.dumps(report, sort_keys=True))


# --------------------------------------------------------------------------- #
# parent
# --------------------------------------------------------------------------- #

RUNS = [
    ("0", "plain"),
    ("1", "plain"),
    ("2", "reversed"),
    ("42", "warm"),
    ("12345", "twice"),
    ("4294967295", "interleaved"),
    ("random", "plain"),
    ("random", "warm"),
]


def main():
    reports = []
    for seed, mode in RUNS:
        env = dict(os.environ)
        env["PYTHONHASHSEED"] = seed
        proc = subprocess.run(
            [sys.executable, os.path.abspath(__file__), "--worker", mode],
            env=env,
            capture_output=True,
            text=True,
        )
        if proc.returncode != 0:
            print(proc.stdout[-2000:])
            print(proc.stderr[-4000:])
            print(f"FAIL: worker seed={seed} mode={mode} exited {proc.returncode}")
            return 1
        reports.append(((seed, mode), json.loads(proc.stdout.strip().split("\n")[-1])))

    (ref_run, reference) = reports[0]
    failures = 0
    for run, report in reports[1:]:
        for name in sorted(set(reference) | set(report)):
            if reference.get(name) != report.get(name):
                failures += 1
                print(f"MISMATCH {name}: run {ref_run} vs run {run}")
                print("   ", json.dumps(reference.get(name), sort_keys=True)[:600])
                print("   ", json.dumps(report.get(name), sort_keys=True)[:600])

    # sanity: the corpus really produced files, and the error inputs errors
    generated = sum(
        len(files)
        for name, per_gen in reference.items()
        if not name.startswith("!") and "!parse_error" not in per_gen
        for files in per_gen.values()
        if "!error" not in files
    )
    if generated < 150:
        failures += 1
        print(f"suspiciously few generated files: {generated}")
    for name in PARSE_ERRORS:
        if "!parse_error" not in reference[name]:
            failures += 1
            print(f"{name} should not parse")
    for name in ("err_too_big", "err_no_id", "err_dynamic_in_can"):
        if "!error" not in reference[name]["fcp_dbc"]:
            failures += 1
            print(f"{name} should be refused by the dbc generator")
    if reference["!extra"].get("failures"):
        failures += 1
        print("extra checks failed:", reference["!extra"]["failures"][:10])

    print(
        f"runs={len(reports)} schemas={len(reference) - 1} files={generated} "
        f"extra_checks={reference['!extra'].get('checked')} "
        f"digest={digest(json.dumps(reference, sort_keys=True))[:16]}"
    )
    if failures:
        print("FAIL")
        return 1
    print("PASS")
    return 0


# --------------------------------------------------------------------------- #
# extra checks: impl selection against a straightforward reference
# --------------------------------------------------------------------------- #


def _ref_matching_impls_or_default(fcp, protocol):
    """For every struct, in order: its impls for the protocol, else its default impls."""
    selected = []
    for struct in fcp.structs:
        own = [i for i in fcp.impls if i.type == struct.name and i.protocol == protocol]
        if len(own) == 0:
            own = [
                i for i in fcp.impls if i.type == struct.name and i.protocol == "default"
            ]
        selected += own
    return selected


def _same_objects(xs, ys):
    return len(xs) == len(ys) and all(x is y for x, y in zip(xs, ys))


def extra_checks():
    import itertools
    import random
    from copy import deepcopy
    from fcp.specs.v2 import FcpV2
    from fcp.specs.impl import Impl
    from fcp.specs.struct import Struct
    from fcp.specs.struct_field import StructField
    from fcp.specs.type import UnsignedType

    failures = []
    checked = 0

    def check(label, fcp, protocols):
        nonlocal checked
        for protocol in protocols:
            checked += 1
            expected = _ref_matching_impls_or_default(fcp, protocol)
            got = fcp.get_matching_impls_or_default(protocol)
            if not _same_objects(expected, got):
                failures.append(
                    f"{label}/{protocol}: {[i.name for i in expected]} != {[i.name for i in got]}"
                )
            # the result belongs to the caller
            got.append(None)
            got.reverse()
            again = fcp.get_matching_impls_or_default(protocol)
            if not _same_objects(expected, again):
                failures.append(f"{label}/{protocol}: result aliased internal state")

    # every schema of the corpus, before and after the rpc expansion of the C++ plug-in
    from fcp_cpp.rpc import generate_rpc

    for name, source in sorted(all_schemas().items()):
        parsed = parse(source)
        if parsed.is_err():
            continue
        fcp = parsed.unwrap()
        protocols = sorted(set(i.protocol for i in fcp.impls)) + ["nope", "", "Default"]
        check(name, fcp, protocols)
        check(name + "+rpc", generate_rpc(fcp), protocols)
        # the parsed schema is not modified by looking things up
        if repr(fcp) != repr(parse(source).unwrap()):
            failures.append(f"{name}: schema changed by lookups")

    # hand made schemas: duplicated impls, duplicated struct names, impls for
    # unknown structs, impls declared before / after / interleaved
    def struct(name):
        return Struct(name=name, fields=[StructField(name="a", field_id=0, type=UnsignedType("u8"))])

    def impl(name, protocol, type):
        return Impl(name, protocol, type, {}, [])

    rng = random.Random(1234)
    struct_names = ["A", "B", "C", "A", "a"]
    protocols = ["default", "can", "uart", "can ", ""]
    for case in range(120):
        fcp = FcpV2()
        for name in rng.sample(struct_names, rng.randint(0, len(struct_names))):
            fcp.structs.append(struct(name))
        for n in range(rng.randint(0, 12)):
            fcp.impls.append(
                impl(
                    "impl%d" % n,
                    rng.choice(protocols),
                    rng.choice(struct_names + ["Ghost"]),
                )
            )
        check("random%d" % case, fcp, protocols + ["zigbee"])

        # the lists are live: appended impls and structs, merges and removals
        # must be seen by the next call
        fcp.impls.append(impl("late", "can", "B"))
        fcp.structs.append(struct("B"))
        check("random%d+late" % case, fcp, protocols)
        other = FcpV2()
        other.structs.append(struct("M"))
        other.impls.append(impl("m_default", "default", "M"))
        other.impls.append(impl("m_uart", "uart", "M"))
        fcp.merge(other)
        check("random%d+merged" % case, fcp, protocols)
        if fcp.impls:
            del fcp.impls[rng.randrange(len(fcp.impls))]
        check("random%d+removed" % case, fcp, protocols)
        fcp.impls.reverse()
        check("random%d+reversed" % case, fcp, protocols)
        for extension in fcp.impls:
            if rng.random() < 0.3:
                extension.protocol = rng.choice(protocols)
        check("random%d+retargeted" % case, fcp, protocols)
        check("random%d+copy" % case, deepcopy(fcp), protocols)

    # exhaustive small case: one struct, every combination of up to three impls
    kinds = [("can", "A"), ("default", "A"), ("uart", "A"), ("can", "Z")]
    for n in range(4):
        for combo in itertools.product(kinds, repeat=n):
            fcp = FcpV2()
            fcp.structs.append(struct("A"))
            for k, (protocol, type) in enumerate(combo):
                fcp.impls.append(impl("i%d" % k, protocol, type))
            check("exhaustive" + repr(combo), fcp, ["can", "default", "uart", "lin"])

    return {"checked": checked, "failures": failures}


if __name__ == "__main__":
    if len(sys.argv) >= 3 and sys.argv[1] == "--worker":
        worker(sys.argv[2])
        sys.exit(0)
    sys.exit(main())
