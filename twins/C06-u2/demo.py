#!/venv/bin/python
"""Differential demo for property C06 (generated C CAN code packs/unpacks per the packed layout).

Run with the worktree on PYTHONPATH, e.g.
  cd /tmp/twin2-C06 && PYTHONPATH=/tmp/twin2-C06/src:/tmp/twin2-C06/plugins/fcp_dbc:/tmp/twin2-C06/plugins/fcp_can_c:/tmp/twin2-C06/plugins/fcp_cpp:/tmp/twin2-C06/plugins/fcp_nop /venv/bin/python demo.py

It builds random and corner-case flat CAN schemas, runs the fcp_can_c generator,
compiles the generated C with a driver, and compares id / DLC / data bytes /
decoded values against an independent reference packing written in this file.
Prints PASS and exits 0 when everything agrees.
"""
import hashlib
import math
import os
import random
import shutil
import struct
import subprocess
import sys
import tempfile
from pathlib import Path

FCP_ROOT = os.environ.get("FCP_ROOT", "/tmp/twin2-C06")

from fcp.parser import get_fcp_from_string, get_fcp  # noqa: E402
from fcp.verifier import Verifier  # noqa: E402
from fcp_can_c import Generator  # noqa: E402

FAILURES = []


def check(cond, what):
    if not cond:
        FAILURES.append(what)
        print("FAIL:", what)


def pick_cc():
    for cc in (os.environ.get("CC"), "clang", "gcc", "cc"):
        if cc and shutil.which(cc):
            return cc
    raise SystemExit("no C compiler found")


# --------------------------------------------------------------------------
# Schema model + independent reference layout
# --------------------------------------------------------------------------


class Field:
    def __init__(self, name, fid, kind, bits, enum=None):
        self.name = name
        self.fid = fid
        self.kind = kind  # 'u', 'i', 'f32', 'f64', 'enum'
        self.bits = bits
        self.enum = enum  # (enum_name, [(label, value)...])

    def type_text(self):
        if self.kind in ("u", "i"):
            return f"{self.kind}{self.bits}"
        if self.kind == "enum":
            return self.enum[0]
        return self.kind

    def c_scalar(self):
        """The C type the generated struct member is expected to have."""
        if self.kind == "f32":
            return "float"
        if self.kind == "f64":
            return "double"
        if self.kind == "enum":
            return self.enum[0]
        width = 8
        while width < self.bits:
            width *= 2
        return ("int" if self.kind == "i" else "uint") + f"{width}_t"


class Message:
    def __init__(self, name, can_id, device, fields, big_endian=False):
        self.name = name
        self.can_id = can_id
        self.device = device  # None -> default ("global")
        self.fields = fields  # declaration order
        self.big_endian = big_endian

    def ordered(self):
        return sorted(self.fields, key=lambda f: f.fid)

    def layout(self):
        """[(field, start, length)] in packing order, independent of fcp."""
        out, pos = [], 0
        for f in self.ordered():
            out.append((f, pos, f.bits))
            pos += f.bits
        return out

    def total_bits(self):
        return sum(f.bits for f in self.fields)

    def dlc(self):
        return (self.total_bits() + 7) // 8

    def snake(self):
        return "".join("_" + c.lower() if c.isupper() else c for c in self.name).lstrip("_")


def enum_bits(values):
    m = max(values)
    return max(1, m.bit_length())


def schema_text(enums, messages):
    out = ['version: "3"', ""]
    for name, members in enums:
        out.append(f"enum {name} {{")
        for label, value in members:
            out.append(f"    {label} = {value},")
        out.append("}")
        out.append("")
    for m in messages:
        out.append(f"struct {m.name} {{")
        for f in m.fields:
            out.append(f"    {f.name} @{f.fid}: {f.type_text()},")
        out.append("}")
        out.append("")
        out.append(f"impl can for {m.name} {{")
        out.append(f"    id: {m.can_id},")
        if m.device is not None:
            out.append(f'    device: "{m.device}",')
        if m.big_endian:
            for f in m.fields:
                out.append(f"    signal {f.name} {{")
                out.append('        endianness: "big",')
                out.append("    },")
        out.append("}")
        out.append("")
    return "\n".join(out)


# --------------------------------------------------------------------------
# Values
# --------------------------------------------------------------------------


def f32_bits(x):
    return struct.unpack("<I", struct.pack("<f", x))[0]


def f64_bits(x):
    return struct.unpack("<Q", struct.pack("<d", x))[0]


def bits_f32(b):
    return struct.unpack("<f", struct.pack("<I", b))[0]


def bits_f64(b):
    return struct.unpack("<d", struct.pack("<Q", b))[0]


def field_values(f, rng, n):
    """Return n raw values: python ints for ints/enums, IEEE bit patterns for floats."""
    if f.kind == "u":
        top = (1 << f.bits) - 1
        base = [0, 1 & top, top, 1 << (f.bits - 1), top // 3, top - (top // 3)]
        while len(base) < n:
            base.append(rng.randint(0, top))
    elif f.kind == "i":
        lo, hi = -(1 << (f.bits - 1)), (1 << (f.bits - 1)) - 1
        base = [0, -1, lo, hi, min(1, hi), hi // 3 if hi else 0]
        while len(base) < n:
            base.append(rng.randint(lo, hi))
    elif f.kind == "enum":
        vals = [v for _, v in f.enum[1]]
        base = list(vals)
        while len(base) < n:
            base.append(rng.choice(vals))
    elif f.kind == "f32":
        base = [f32_bits(x) for x in (0.0, 1.5, -2.25, 3.4028234663852886e38, float("inf"), float("-inf"), -0.0)]
        base.append(0x00000001)  # smallest denormal
        while len(base) < n:
            b = rng.getrandbits(32)
            if (b >> 23) & 0xFF == 0xFF:  # skip NaN/inf payloads
                b &= ~(1 << 30)
            base.append(b)
    elif f.kind == "f64":
        base = [f64_bits(x) for x in (0.0, 1.5, -2.25, 1.7976931348623157e308, float("inf"), float("-inf"), -0.0)]
        base.append(0x0000000000000001)
        while len(base) < n:
            b = rng.getrandbits(64)
            if (b >> 52) & 0x7FF == 0x7FF:
                b &= ~(1 << 62)
            base.append(b)
    rng.shuffle(base)
    return base[:n]


def raw_to_wire(f, raw):
    """Unsigned bit pattern of width f.bits that the layout packing stores."""
    return raw & ((1 << f.bits) - 1)


def expected_frame(m, row):
    """row: dict field name -> raw value.  Returns 8 data bytes."""
    word = 0
    for f, start, length in m.layout():
        wire = raw_to_wire(f, row[f.name])
        if m.big_endian:
            # only used for single full-width byte-aligned signals at bit 0
            wire = int.from_bytes(wire.to_bytes(length // 8, "little"), "big")
        word |= wire << start
    return word.to_bytes(8, "little")


# --------------------------------------------------------------------------
# C driver generation
# --------------------------------------------------------------------------


def c_u64(v):
    return "0x%016xULL" % (v & 0xFFFFFFFFFFFFFFFF)


def driver_source(messages, tables):
    devices = sorted({m.device or "global" for m in messages})
    out = [
        "#include <stdio.h>",
        "#include <string.h>",
        "#include <stdint.h>",
        "#include <stdbool.h>",
        '#include "can_frame.h"',
    ]
    for d in devices:
        out.append(f'#include "{d}_can.h"')
    for m in messages:
        rows = tables[m.name]
        fields = m.ordered()
        sn = m.snake()
        dev = m.device or "global"
        out.append(f"static void run_{sn}(void) {{")
        out.append(f"    static const uint64_t vals[{len(rows)}][{len(fields)}] = {{")
        for row in rows:
            out.append("        {" + ", ".join(c_u64(row[f.name]) for f in fields) + "},")
        out.append("    };")
        out.append(f"    for (unsigned r = 0; r < {len(rows)}; r++) {{")
        out.append(f"        CanMsg{m.name} m;")
        out.append("        memset(&m, 0, sizeof m);")
        for k, f in enumerate(fields):
            if f.kind == "f32":
                out.append(f"        {{ uint32_t b = (uint32_t)vals[r][{k}]; memcpy(&m.{f.name}, &b, 4); }}")
            elif f.kind == "f64":
                out.append(f"        {{ uint64_t b = vals[r][{k}]; memcpy(&m.{f.name}, &b, 8); }}")
            else:
                out.append(f"        m.{f.name} = ({f.c_scalar()})(int64_t)vals[r][{k}];")
        # static type expectations of the generated struct
        for f in fields:
            out.append(f"        {{ {f.c_scalar()} *p = &m.{f.name}; (void)p; }}")
        out.append(f"        CanFrame fr = can_encode_msg_{sn}(&m);")
        out.append(f'        printf("{m.name} %u %u %u %d ", r, (unsigned)fr.id, (unsigned)fr.dlc, (int)can_is_{dev}_msg(&fr));')
        out.append('        for (int i = 0; i < 8; i++) printf("%02x", fr.data[i]);')
        out.append(f"        CanMsg{m.name} d = can_decode_msg_{sn}(&fr);")
        for f in fields:
            if f.kind == "f32":
                out.append(f'        {{ uint32_t b; memcpy(&b, &d.{f.name}, 4); printf(" %llx", (unsigned long long)b); }}')
            elif f.kind == "f64":
                out.append(f'        {{ uint64_t b; memcpy(&b, &d.{f.name}, 8); printf(" %llx", (unsigned long long)b); }}')
            else:
                out.append(f'        printf(" %llx", (unsigned long long)(int64_t)d.{f.name});')
        out.append('        printf("\\n");')
        # decode must also be repeatable / not depend on hidden state
        out.append(f"        CanMsg{m.name} d2 = can_decode_msg_{sn}(&fr);")
        for f in fields:
            out.append(f'        if (memcmp(&d.{f.name}, &d2.{f.name}, sizeof d.{f.name}) != 0) printf("UNSTABLE\\n");')
        out.append("    }")
        out.append("}")
    out.append("int main(void) {")
    for m in messages:
        out.append(f"    run_{m.snake()}();")
    out.append("    return 0;")
    out.append("}")
    return "\n".join(out) + "\n"


def generate_files(fcp, outdir):
    """Run the C generator and write its files (same as CodeGenerator.gen)."""
    results = Generator().generate(fcp, {"output": Path(outdir)})
    for r in results:
        check(r["type"] == "file", "generator result type is file")
        Path(r["path"]).write_text(str(r["contents"]))
    return results


def to_signed(v, bits=64):
    v &= (1 << bits) - 1
    return v - (1 << bits) if v >> (bits - 1) else v


def run_batch(tag, enums, messages, rng, workdir, nvals=14, opt="-O0"):
    text = schema_text(enums, messages)
    fcp = get_fcp_from_string(text).unwrap()
    outdir = os.path.join(workdir, tag)
    os.makedirs(outdir)
    results = generate_files(fcp, outdir)

    # the verifier checks the plug-in registers accept every in-subset schema
    v = Verifier()
    Generator().register_checks(v)
    res = v.verify(fcp)
    check(res.is_ok(), f"{tag}: plug-in checks accept the schema")

    tables = {}
    for m in messages:
        cols = {f.name: field_values(f, rng, nvals) for f in m.fields}
        tables[m.name] = [{name: col[i] for name, col in cols.items()} for i in range(nvals)]

    Path(outdir, "driver.c").write_text(driver_source(messages, tables))
    cc = pick_cc()
    csrc = sorted(str(p) for p in Path(outdir).glob("*.c"))
    exe = os.path.join(outdir, "driver")
    cp = subprocess.run([cc, opt, "-w", "-I", outdir, "-o", exe] + csrc, capture_output=True, text=True)
    check(cp.returncode == 0, f"{tag}: generated C compiles ({cp.stderr[:400]})")
    if cp.returncode != 0:
        return messages, results
    rp = subprocess.run([exe], capture_output=True, text=True)
    check(rp.returncode == 0, f"{tag}: driver ran")
    by_name = {m.name: m for m in messages}
    seen = 0
    for line in rp.stdout.splitlines():
        parts = line.split()
        if parts[0] == "UNSTABLE":
            check(False, f"{tag}: decode not repeatable")
            continue
        m = by_name[parts[0]]
        r = int(parts[1])
        row = tables[m.name][r]
        where = f"{tag}:{m.name}[{r}] {row}"
        check(int(parts[2]) == m.can_id, f"{where}: id {parts[2]} != {m.can_id}")
        check(int(parts[3]) == m.dlc(), f"{where}: dlc {parts[3]} != {m.dlc()}")
        check(parts[4] == "1", f"{where}: can_is_<device>_msg")
        exp = expected_frame(m, row).hex()
        if m.big_endian:
            # bytes past the DLC are not part of the frame; the byte-swapped
            # signed encoders leave sign bits there today, so only the DLC
            # bytes are pinned for big-endian signals.
            n = 2 * m.dlc()
            check(parts[5][:n] == exp[:n], f"{where}: data {parts[5][:n]} != {exp[:n]}")
        else:
            check(parts[5] == exp, f"{where}: data {parts[5]} != {exp}")
        for f, got in zip(m.ordered(), parts[6:]):
            got = int(got, 16)
            raw = row[f.name]
            if f.kind == "f32":
                ok = bits_f32(got & 0xFFFFFFFF) == bits_f32(raw)
            elif f.kind == "f64":
                ok = bits_f64(got) == bits_f64(raw)
            elif f.kind == "i":
                ok = to_signed(got) == raw
            else:
                ok = got == raw
            check(ok, f"{where}: decode {f.name} got {got:#x} want {raw:#x}")
        seen += 1
    check(seen == len(messages) * nvals, f"{tag}: saw {seen} rows")
    return messages, results


# --------------------------------------------------------------------------
# Random flat CAN schemas
# --------------------------------------------------------------------------


def random_message(rng, name, can_id, device, enums, shape=None):
    """shape: optional list of (kind,bits|enum) to force; else random."""
    fields = []
    if shape is None:
        n = rng.randint(1, 8)
        budget = 64
        shape = []
        for i in range(n):
            left = n - i - 1
            room = budget - left  # leave at least one bit for the others
            choices = ["u", "u", "i", "i"]
            if enums:
                choices.append("enum")
            if room >= 32:
                choices.append("f32")
            if room >= 64:
                choices.append("f64")
            kind = rng.choice(choices)
            if kind == "f32":
                spec = ("f32", 32)
            elif kind == "f64":
                spec = ("f64", 64)
            elif kind == "enum":
                fit = [e for e in enums if enum_bits([v for _, v in e[1]]) <= room]
                if not fit:
                    spec = ("u", rng.randint(1, room))
                else:
                    e = rng.choice(fit)
                    spec = ("enum", e)
            else:
                # bias to small and to byte-edge widths so many offsets are unaligned
                bits = rng.choice([1, 2, 3, 5, 7, 8, 9, 12, 15, 16, 17, 24, 31, 32, 33, 48, 63, 64, rng.randint(1, 64)])
                bits = max(1, min(bits, room))
                spec = (kind, bits)
            shape.append(spec)
            budget -= spec[1] if spec[0] != "enum" else enum_bits([v for _, v in spec[1][1]])
    ids = list(range(len(shape)))
    rng.shuffle(ids)
    for k, spec in enumerate(shape):
        if spec[0] == "enum":
            e = spec[1]
            fields.append(Field(f"s{k}", ids[k], "enum", enum_bits([v for _, v in e[1]]), e))
        else:
            fields.append(Field(f"s{k}", ids[k], spec[0], spec[1]))
    return Message(name, can_id, device, fields)


def make_enums(tag):
    return [
        (f"{tag}Bool", [(f"{tag}_OFF", 0), (f"{tag}_ON", 1)]),
        (f"{tag}Zero", [(f"{tag}_ONLY", 0)]),
        (f"{tag}Tri", [(f"{tag}_T0", 0), (f"{tag}_T1", 1), (f"{tag}_T2", 2)]),
        (f"{tag}Byte", [(f"{tag}_B0", 0), (f"{tag}_B7", 7), (f"{tag}_B255", 255)]),
        (f"{tag}Wide", [(f"{tag}_W3", 3), (f"{tag}_W256", 256)]),
        (f"{tag}Huge", [(f"{tag}_H1", 1), (f"{tag}_HMAX", 2147483647)]),
    ]


def fixed_shapes(enums):
    e = {name[1:]: (name, members) for name, members in enums}
    return [
        [("u", 64)],
        [("i", 64)],
        [("f64", 64)],
        [("f32", 32), ("f32", 32)],
        [("u", 1)] * 8,
        [("i", 1), ("f32", 32), ("i", 31)],
        [("u", 3), ("i", 12), ("enum", e["Tri"]), ("f32", 32), ("enum", e["Byte"])],
        [("enum", e["Huge"]), ("enum", e["Wide"]), ("enum", e["Zero"]), ("enum", e["Bool"]), ("i", 22)],
        [("u", 7), ("u", 9), ("u", 17), ("u", 31)],
        [("i", 33), ("u", 31)],
        [("u", 63), ("i", 1)],
        [("i", 2), ("i", 7), ("i", 8), ("i", 9), ("i", 15), ("i", 16), ("i", 6), ("u", 1)],
    ]


def run_random_schemas(workdir, seed=0xC06, batches=6, per_batch=6, nvals=14):
    rng = random.Random(seed)
    devices = ["ecu", "bms", None, "dash_board"]
    can_id = 1
    all_results = []
    # fixed corner shapes first
    enums = make_enums("F")
    shapes = fixed_shapes(enums)
    for b in range(0, len(shapes), 6):
        msgs = []
        for k, shape in enumerate(shapes[b : b + 6]):
            msgs.append(random_message(rng, f"Fx{b + k}", can_id, devices[(b + k) % 4], enums, shape))
            can_id += 1
        all_results.append(run_batch(f"fixed{b}", enums, msgs, rng, workdir, nvals, opt="-O2" if b else "-O0"))
    for b in range(batches):
        enums = make_enums(f"R{b}") if b % 3 != 2 else []
        msgs = []
        for k in range(per_batch):
            msgs.append(random_message(rng, f"Rb{b}m{k}", can_id, rng.choice(devices), enums))
            can_id += 1
        all_results.append(run_batch(f"rand{b}", enums, msgs, rng, workdir, nvals, opt="-O2" if b % 2 else "-O0"))
    return all_results


def run_big_endian(workdir):
    rng = random.Random(5)
    shapes = [("u", 8), ("u", 16), ("u", 32), ("u", 64), ("i", 8), ("i", 16), ("i", 32), ("i", 64), ("f32", 32), ("f64", 64)]
    msgs = []
    for k, (kind, bits) in enumerate(shapes):
        m = Message(f"Be{k}", 100 + k, "ecu", [Field("val", 0, kind, bits)], big_endian=True)
        msgs.append(m)
    run_batch("bigendian", [], msgs, rng, workdir, 12)


# --------------------------------------------------------------------------
# Generated text of the repository's own example schemas must not move
# --------------------------------------------------------------------------

REPO_SCHEMAS = [
    "plugins/fcp_can_c/tests/001_basic_struct/test.fcp",
    "plugins/fcp_can_c/tests/002_nested_enum/test.fcp",
    "plugins/fcp_can_c/tests/003_msg_scheduling/test.fcp",
    "plugins/fcp_can_c/tests/004_little_endian/test.fcp",
    "plugins/fcp_can_c/tests/005_big_endian/test.fcp",
    "plugins/fcp_can_c/example/example.fcp",
]


def device_file_digests(workdir):
    """sha256 of every generated *_can.[ch] (not the static runtime files)."""
    out = {}
    for rel in REPO_SCHEMAS:
        fcp = get_fcp(os.path.join(FCP_ROOT, rel)).unwrap()
        for r in Generator().generate(fcp, {"output": Path(tempfile.mkdtemp(dir=workdir))}):
            base = os.path.basename(str(r["path"]))
            if base.endswith("_can.h") or base.endswith("_can.c"):
                out[rel.split("/")[-2] + "/" + base] = hashlib.sha256(str(r["contents"]).encode()).hexdigest()[:16]
    return out

GOLDEN_DIGESTS = {
    "001_basic_struct/ecu_can.c": "280ef4559c370f1c",
    "001_basic_struct/ecu_can.h": "562f4be4cafcb2dd",
    "002_nested_enum/ecu_can.c": "b329bf67a6c4ab47",
    "002_nested_enum/ecu_can.h": "255b2ceb21f46e4a",
    "002_nested_enum/global_can.h": "540ca94ec4af806f",
    "003_msg_scheduling/ecu_can.c": "a2326f90f7e60c21",
    "003_msg_scheduling/ecu_can.h": "f772f1e0304fb407",
    "004_little_endian/ecu_can.c": "a4507b18f01dee92",
    "004_little_endian/ecu_can.h": "052b4b2d8f405d63",
    "005_big_endian/ecu_can.c": "336312d88dfa8552",
    "005_big_endian/ecu_can.h": "c5a561965af5fd40",
    "example/ecu_can.c": "70f8941e2fb15024",
    "example/ecu_can.h": "fc9af6f545b11cc5",
}

# --------------------------------------------------------------------------
# Extra: the writer's signal list and DLC for hand-made and generated layouts
# --------------------------------------------------------------------------

from fcp.encoding import make_encoder, PackedEncoderContext, Value  # noqa: E402
from fcp.maybe import Some  # noqa: E402
from fcp.specs.type import UnsignedType, SignedType, FloatType, DoubleType, EnumType  # noqa: E402
from fcp_can_c.can_c_writer import create_can_signals, initialize_can_data, CanCWriter  # noqa: E402


def outcome(fn):
    try:
        return fn()
    except Exception as e:  # noqa: BLE001
        return (type(e).__name__, str(e))


def c_types(kind, bits, enum_name=None):
    """(data_type, scalar_type) the writer is expected to choose."""
    if kind == "f32":
        return "float", "float"
    if kind == "f64":
        return "double", "double"
    width = 8
    while width < bits:
        width *= 2
    scalar = ("int" if kind == "i" else "uint") + f"{width}_t"
    return (enum_name if kind == "enum" else scalar), scalar


def sig_tuple(s):
    return (
        s.name,
        s.start_bit,
        s.bit_length,
        s.data_type,
        s.scalar_type,
        s.signed,
        s.byte_order,
        s.is_big_endian_s,
        s.is_multiplexer,
        s.multiplexer_ids,
        s.multiplexer_signal,
        s.multiplexer_count,
        s.scale,
        s.offset,
    )


def check_generated_layouts():
    rng = random.Random(99)
    enums = make_enums("L")
    msgs = [random_message(rng, f"Lm{k}", 1 + k, rng.choice(["ecu", None, "bms"]), enums) for k in range(60)]
    msgs += [random_message(rng, f"Lf{k}", 100 + k, "ecu", enums, shape) for k, shape in enumerate(fixed_shapes(enums))]
    fcp = get_fcp_from_string(schema_text(enums, msgs)).unwrap()
    enc = make_encoder("packed", fcp, PackedEncoderContext().with_unroll_arrays(True))
    by_name = {m.name: m for m in msgs}
    for impl in fcp.get_matching_impls("can"):
        m = by_name[impl.name]
        result = create_can_signals(enc.generate(impl))
        signals, dlc = result
        check(len(result) == 2 and result[0] is signals and result[1] == dlc, f"{m.name}: pair shape")
        check(result == (signals, dlc) and isinstance(result, tuple), f"{m.name}: still a tuple")
        check(isinstance(signals, list) and type(dlc) is int, f"{m.name}: element types")
        check(dlc == m.dlc(), f"{m.name}: dlc {dlc} != {m.dlc()}")
        want = []
        for f, start, length in m.layout():
            data_type, scalar = c_types(f.kind, f.bits, f.enum[0] if f.enum else None)
            want.append((f.name, start, length, data_type, scalar, f.kind == "i", "little_endian", "false", False, None, None, 0, 1.0, 0.0))
        got = [sig_tuple(s) for s in signals]
        check(got == want, f"{m.name}: signals {got} != {want}")

    # the whole-writer view: ids, dlc, devices, per-device grouping
    enums_out, messages, devices = initialize_can_data(fcp)
    check([e.name for e in enums_out] == [e[0] for e in enums], "enum names")
    check([e.values for e in enums_out] == [dict(e[1]) for e in enums], "enum values")
    check([(x.name_pascal, x.frame_id, x.dlc, x.senders, x.period) for x in messages] == [(m.name, m.can_id, m.dlc(), [m.device or "global"], -1) for m in msgs], "message list")
    want_devices = ["global"] * len(enums)
    for m in msgs:
        if (m.device or "global") not in want_devices:
            want_devices.append(m.device or "global")
    check([d.name for d in devices] == want_devices, f"device list {[d.name for d in devices]}")
    w = CanCWriter(fcp)
    check([n for n, _ in w.generate_device_headers()] == want_devices, "one header per device entry")


def check_handmade_pieces():
    u = UnsignedType
    check(tuple(create_can_signals([])) == ([], 0), "empty encoding")
    # every possible end bit, alone and preceded by a later-ending / earlier-ending piece
    for end in range(1, 65):
        for start in {0, end - 1, end // 2}:
            length = end - start
            p = Value("a", u(f"u{length}"), start, length, extended_data={})
            _, dlc = create_can_signals([p])
            check(dlc == (end + 7) // 8, f"dlc for [{start},{end}) = {dlc}")
            far = Value("z", u("u1"), 63, 1, extended_data={})
            near = Value("n", u("u1"), 0, 1, extended_data={})
            check(create_can_signals([far, p])[1] == 8, "furthest piece first")
            check(create_can_signals([p, far, near])[1] == 8, "furthest piece in the middle")
            check(create_can_signals([near, p])[1] == (end + 7) // 8, "nearest piece first")
    # multiplexed / big-endian / composite pieces
    pieces = [
        Value("grp::mux", u("u2"), 0, 2, extended_data={}),
        Value("grp::val", SignedType("i12"), 2, 12, extended_data={"mux_signal": "grp_mux", "mux_count": 3, "endianness": "big"}),
        Value("st", EnumType("State"), 14, 3, composite_type=Some("State"), extended_data={"endianness": "little"}),
        Value("st2", EnumType("State"), 17, 9, extended_data={"mux_count": 4}),
        Value("f", FloatType(), 26, 32, extended_data={"endianness": "big"}),
    ]
    signals, dlc = create_can_signals(pieces)
    check(dlc == 8, f"handmade dlc {dlc}")
    want = [
        ("grp_mux", 0, 2, "uint8_t", "uint8_t", False, "little_endian", "false", False, None, None, 0, 1.0, 0.0),
        ("grp_val", 2, 12, "int16_t", "int16_t", True, "big_endian", "true", True, [0, 1, 2], "grp_mux", 3, 1.0, 0.0),
        ("st", 14, 3, "State", "uint8_t", False, "little_endian", "false", False, None, None, 0, 1.0, 0.0),
        ("st2", 17, 9, "State", "uint16_t", False, "little_endian", "false", False, None, None, 0, 1.0, 0.0),
        ("f", 26, 32, "float", "float", False, "big_endian", "true", False, None, None, 0, 1.0, 0.0),
    ]
    got = [sig_tuple(s) for s in signals]
    check(got == want, f"handmade signals {got}")
    check(sig_tuple(create_can_signals([Value("d", DoubleType(), 0, 64, extended_data={})])[0][0])[3:5] == ("double", "double"), "double piece")
    # error inputs: the first offending piece decides the error
    bad65 = Value("b65", u("u65"), 0, 65, extended_data={})
    bad200 = Value("b200", SignedType("i200"), 0, 200, extended_data={})
    good = Value("g", u("u8"), 0, 8, extended_data={})
    check(outcome(lambda: create_can_signals([good, bad65, bad200])) == ("KeyError", "'u128'"), "first bad piece wins (u128)")
    check(outcome(lambda: create_can_signals([bad200, bad65])) == ("KeyError", "'i256'"), "first bad piece wins (i256)")
    check(outcome(lambda: create_can_signals([Value("m", u("u8"), 0, 8, extended_data={"mux_count": "x"})]))[0] == "TypeError", "bad mux_count")
    check(outcome(lambda: create_can_signals([good, None]))[0] == "AttributeError", "non-piece")


def check_missing_id():
    src = 'version: "3"\nstruct A { a @0: u8, }\nimpl can for A { device: "ecu", }\n'
    fcp = get_fcp_from_string(src).unwrap()
    got = outcome(lambda: initialize_can_data(fcp))
    check(got == ("UnwrapError", "No id field found in extension"), f"missing id: {got}")


def main():
    with tempfile.TemporaryDirectory(prefix="c06demo") as wd:
        run_random_schemas(wd)
        run_big_endian(wd)
        check_generated_layouts()
        check_handmade_pieces()
        check_missing_id()
        digests = device_file_digests(wd)
        check(digests == GOLDEN_DIGESTS, f"generated device files changed: {digests}")
    if FAILURES:
        print(f"FAIL ({len(FAILURES)} mismatches)")
        return 1
    print("PASS")
    return 0


if __name__ == "__main__":
    sys.exit(main())
