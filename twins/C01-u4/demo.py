"""Differential test of the Python codec (fcp.serde) against an independent reference.

Run with PYTHONPATH pointing at the worktree under test, e.g.
  PYTHONPATH=$FCP_ROOT/src /venv/bin/python demo.py
Prints PASS and exits 0 when encode() produces the reference bytes, decode()
returns the reference value and decode(encode(v)) == v on every case.
"""

import math
import random
import struct
import sys

from fcp.parser import get_fcp_from_string
from fcp.serde import encode, decode
from fcp.specs.type import (
    ArrayType,
    DynamicArrayType,
    OptionalType,
    StringType,
    StructType,
    EnumType,
    UnsignedType,
    SignedType,
    FloatType,
    DoubleType,
)

FAILURES = []
CHECKS = 0


def check(cond, what):
    global CHECKS
    CHECKS += 1
    if not cond:
        FAILURES.append(what)
        if len(FAILURES) < 20:
            print("FAIL:", what)


# --------------------------------------------------------------------------
# Independent reference codec: a bit string written LSB first.
# --------------------------------------------------------------------------
class RefWriter:
    def __init__(self):
        self.bits = []

    def word(self, value, n):
        for i in range(n):
            self.bits.append((value >> i) & 1)

    def bytes(self):
        out = bytearray((len(self.bits) + 7) // 8)
        for pos, bit in enumerate(self.bits):
            out[pos // 8] |= bit << (pos % 8)
        return out


class RefReader:
    def __init__(self, data):
        self.data = bytes(data)
        self.pos = 0

    def word(self, n):
        value = 0
        for i in range(n):
            byte = self.pos // 8
            if byte >= len(self.data):
                raise ValueError("buffer overrrun")
            value |= ((self.data[byte] >> (self.pos % 8)) & 1) << i
            self.pos += 1
        return value


def enum_bits(fcp, name):
    enum = [e for e in fcp.enums if e.name == name][0]
    m = max(x.value for x in enum.enumeration)
    return 1 if m in (0, 1) else math.floor(math.log2(m) + 1)


def ordered_fields(fcp, name):
    st = [s for s in fcp.structs if s.name == name][0]
    return sorted(st.fields, key=lambda f: f.field_id)


def ref_encode_type(w, fcp, ty, v):
    if isinstance(ty, (UnsignedType, SignedType)):
        w.word(v, int(ty.name[1:]))
    elif isinstance(ty, FloatType):
        for b in struct.pack("f", v):
            w.word(b, 8)
    elif isinstance(ty, DoubleType):
        for b in struct.pack("d", v):
            w.word(b, 8)
    elif isinstance(ty, StringType):
        w.word(len(v), 32)
        for ch in v:
            w.word(ord(ch), 8)
    elif isinstance(ty, EnumType):
        w.word(v, enum_bits(fcp, ty.name))
    elif isinstance(ty, StructType):
        for f in ordered_fields(fcp, ty.name):
            ref_encode_type(w, fcp, f.type, v[f.name])
    elif isinstance(ty, ArrayType):
        for i in range(ty.size):
            ref_encode_type(w, fcp, ty.underlying_type, v[i])
    elif isinstance(ty, DynamicArrayType):
        w.word(len(v), 32)
        for x in v:
            ref_encode_type(w, fcp, ty.underlying_type, x)
    elif isinstance(ty, OptionalType):
        w.word(0 if v is None else 1, 8)
        if v is not None:
            ref_encode_type(w, fcp, ty.underlying_type, v)
    else:
        raise AssertionError(ty)


def ref_decode_type(r, fcp, ty):
    if isinstance(ty, UnsignedType):
        return r.word(int(ty.name[1:]))
    if isinstance(ty, SignedType):
        n = int(ty.name[1:])
        word = r.word(n)
        # the shipped decoder maps the single pattern 1000..0 to +2^(n-1)
        # (pinned by the existing suite); everything above it is negative
        return word - (1 << n) if 2 * word > (1 << n) else word
    if isinstance(ty, FloatType):
        return struct.unpack("f", bytes(r.word(8) for _ in range(4)))[0]
    if isinstance(ty, DoubleType):
        return struct.unpack("d", bytes(r.word(8) for _ in range(8)))[0]
    if isinstance(ty, StringType):
        n = r.word(32)
        return bytes(r.word(8) for _ in range(n)).decode("ascii")
    if isinstance(ty, EnumType):
        return r.word(enum_bits(fcp, ty.name))
    if isinstance(ty, StructType):
        return {
            f.name: ref_decode_type(r, fcp, f.type)
            for f in ordered_fields(fcp, ty.name)
        }
    if isinstance(ty, ArrayType):
        return [ref_decode_type(r, fcp, ty.underlying_type) for _ in range(ty.size)]
    if isinstance(ty, DynamicArrayType):
        n = r.word(32)
        return [ref_decode_type(r, fcp, ty.underlying_type) for _ in range(n)]
    if isinstance(ty, OptionalType):
        if r.word(8) != 0:
            return ref_decode_type(r, fcp, ty.underlying_type)
        return None
    raise AssertionError(ty)


def ref_encode(fcp, name, value):
    w = RefWriter()
    ref_encode_type(w, fcp, StructType(name), value)
    return w.bytes()


def ref_decode(fcp, name, data):
    return ref_decode_type(RefReader(data), fcp, StructType(name))


def same(a, b, ordered=True):
    """Deep equality, floats compared bit for bit, ints not equal to floats."""
    if isinstance(a, float) or isinstance(b, float):
        return (
            isinstance(a, float)
            and isinstance(b, float)
            and struct.pack("d", a) == struct.pack("d", b)
        )
    if isinstance(a, dict) and isinstance(b, dict):
        keys_a, keys_b = list(a.keys()), list(b.keys())
        if not ordered:
            keys_a, keys_b = sorted(keys_a), sorted(keys_b)
        return keys_a == keys_b and all(same(a[k], b[k], ordered) for k in a)
    if isinstance(a, list) and isinstance(b, list):
        return len(a) == len(b) and all(same(x, y, ordered) for x, y in zip(a, b))
    return type(a) is type(b) and a == b


def outcome(fn, *args):
    try:
        return ("ok", fn(*args))
    except Exception as e:  # noqa: BLE001
        return ("err", type(e).__name__, str(e))


# --------------------------------------------------------------------------
# Schemas
# --------------------------------------------------------------------------
def width_schema():
    """For every pad 0..7 and every width 1..64: pad bits, uN, iN, one tail bit."""
    out = ['version: "3"\n']
    for pad in range(8):
        for n in range(1, 65):
            out.append("struct W%d_%d {\n" % (pad, n))
            fid = 0
            if pad:
                out.append("    p @%d: u%d,\n" % (fid, pad))
                fid += 1
            out.append("    u @%d: u%d,\n" % (fid, n))
            out.append("    s @%d: i%d,\n" % (fid + 1, n))
            out.append("    t @%d: u1,\n" % (fid + 2))
            out.append("}\n")
    return "".join(out)


SHAPES = """version: "3"

enum E1 { A = 0, B = 1, }
enum E0 { A = 0, }
enum E3 { A = 0, B = 3, C = 5, }
enum E4 { A = 1, B = 8, }
enum E9 { A = 0, Z = 300, }
enum E16 { A = 0, Z = 65535, }
enum E17 { A = 0, Z = 65536, }

struct Leaf {
    a @0: u3,
    b @1: i5,
    c @2: E3,
}

struct Floats {
    p @0: u1,
    f @1: f32,
    q @2: u2,
    d @3: f64,
    r @4: i7,
}

struct Enums {
    e1 @0: E1,
    e0 @1: E0,
    e3 @2: E3,
    e4 @3: E4,
    e9 @4: E9,
    e16 @5: E16,
    e17 @6: E17,
}

struct Strs {
    p @0: u5,
    s @1: str,
    t @2: str,
    q @3: u3,
}

struct Arrays {
    p @0: u1,
    a @1: [u3, 5],
    b @2: [i11, 3],
    c @3: [Leaf, 2],
    d @4: [[u2, 2], 3],
    e @5: [f32, 2],
}

struct Dyn {
    p @0: u3,
    a @1: [u7],
    b @2: [Leaf],
    c @3: [[i9]],
    d @4: [str],
    e @5: [Optional[u3]],
}

struct Opt {
    p @0: u1,
    a @1: Optional[u5],
    b @2: Optional[Leaf],
    c @3: Optional[[i6]],
    d @4: Optional[str],
    e @5: Optional[Optional[i3]],
    f @6: Optional[f64],
    g @7: Optional[E9],
}

struct Shuffled {
    z @3: u4,
    y @1: i4,
    x @2: u9,
    w @0: u1,
}

struct Odd {
    a @0: u3,
    z @1: u0,
    y @2: i0,
    w @3: u65,
    v @4: i70,
    t @5: u1,
    e @6: [u0, 3],
    o @7: Optional[u0],
}

struct Deep {
    p @0: u2,
    o @1: Opt,
    d @2: [Dyn, 2],
    s @3: [Shuffled],
    l @4: Optional[[Arrays]],
}
"""


def int_boundaries(n, signed):
    if signed:
        lo, hi = -(1 << (n - 1)), (1 << (n - 1)) - 1
        vals = {lo, lo + 1, -1, 0, 1, hi, hi - 1, -2, lo // 2}
        return sorted(v for v in vals if lo <= v <= hi)
    hi = (1 << n) - 1
    vals = {0, 1, hi, hi - 1, hi // 2, hi // 2 + 1}
    return sorted(v for v in vals if 0 <= v <= hi)


def roundtrip_case(fcp, name, value, expect_identity=True):
    got = outcome(encode, fcp, name, value)
    want = ("ok", ref_encode(fcp, name, value))
    check(got == want, "encode %s %r: %r != %r" % (name, value, got, want))
    if got[0] != "ok":
        return
    check(isinstance(got[1], bytearray), "encode result type %s" % name)
    back = outcome(decode, fcp, name, got[1])
    ref_back = ("ok", ref_decode(fcp, name, got[1]))
    check(
        back[0] == "ok" and same(back[1], ref_back[1]),
        "decode %s %r: %r != %r" % (name, value, back, ref_back),
    )
    if expect_identity:
        check(
            back[0] == "ok" and same(back[1], value, ordered=False),
            "roundtrip %s %r -> %r" % (name, value, back),
        )


def run_widths(fcp):
    rnd = random.Random(1)
    for pad in range(8):
        for n in range(1, 65):
            name = "W%d_%d" % (pad, n)
            us = int_boundaries(n, False)
            ss = int_boundaries(n, True)
            lo = -(1 << (n - 1))
            combos = []
            for i in range(max(len(us), len(ss))):
                combos.append((us[i % len(us)], ss[i % len(ss)], i & 1))
            for _ in range(3):
                combos.append(
                    (rnd.randrange(1 << n), rnd.randrange(lo, -lo), rnd.randrange(2))
                )
            for u, s, t in combos:
                value = {"u": u, "s": s, "t": t}
                if pad:
                    value = {"p": rnd.randrange(1 << pad), **value}
                # -2^(n-1) is decoded as +2^(n-1) by the shipped decoder (pinned by
                # the repository's own suite); it is compared with the reference
                # decoder instead of with the input.
                roundtrip_case(fcp, name, value, expect_identity=(s != lo))


def leaf(rnd):
    return {"a": rnd.randrange(8), "b": rnd.randrange(-15, 16), "c": rnd.choice([0, 3, 5, 7])}


def rstr(rnd, n):
    return "".join(chr(rnd.randrange(0, 128)) for _ in range(n))


F32 = [0.0, -0.0, 1.0, -1.5, 3.4028234663852886e38, 1.401298464324817e-45, float("inf"), float("-inf")]
F64 = [0.0, -0.0, 1.0, 0.1, -1e308, 5e-324, float("inf"), float("-inf"), 2.0**53 + 2]


def run_shapes(fcp):
    rnd = random.Random(2)
    for f in F32:
        for d in F64:
            roundtrip_case(
                fcp,
                "Floats",
                {"p": rnd.randrange(2), "f": f, "q": rnd.randrange(4), "d": d, "r": rnd.randrange(-63, 64)},
            )
    # NaN: compare bit patterns through the reference only
    nan_value = {"p": 1, "f": float("nan"), "q": 2, "d": float("nan"), "r": -3}
    enc = encode(fcp, "Floats", nan_value)
    check(enc == ref_encode(fcp, "Floats", nan_value), "nan bytes")
    dec = decode(fcp, "Floats", enc)
    check(math.isnan(dec["f"]) and math.isnan(dec["d"]) and dec["r"] == -3, "nan decode")

    for vals in [
        (0, 0, 0, 1, 0, 0, 0),
        (1, 0, 5, 8, 300, 65535, 65536),
        (1, 0, 7, 15, 511, 65535, 131071),
        (0, 1, 3, 9, 256, 32768, 65535),
    ]:
        roundtrip_case(fcp, "Enums", dict(zip(["e1", "e0", "e3", "e4", "e9", "e16", "e17"], vals)))

    for n1, n2 in [(0, 0), (1, 0), (0, 1), (5, 7), (255, 256), (1000, 3), (300, 4097)]:
        roundtrip_case(
            fcp, "Strs", {"p": rnd.randrange(32), "s": rstr(rnd, n1), "t": rstr(rnd, n2), "q": rnd.randrange(8)}
        )

    def arrays():
        return {
            "p": rnd.randrange(2),
            "a": [rnd.randrange(8) for _ in range(5)],
            "b": [rnd.randrange(-1023, 1024) for _ in range(3)],
            "c": [leaf(rnd), leaf(rnd)],
            "d": [[rnd.randrange(4) for _ in range(2)] for _ in range(3)],
            "e": [rnd.choice(F32), rnd.choice(F32)],
        }

    for _ in range(10):
        roundtrip_case(fcp, "Arrays", arrays())

    def dyn(k):
        return {
            "p": rnd.randrange(8),
            "a": [rnd.randrange(128) for _ in range(k)],
            "b": [leaf(rnd) for _ in range(k % 5)],
            "c": [[rnd.randrange(-255, 256) for _ in range(j)] for j in range(k % 4)],
            "d": [rstr(rnd, j) for j in range(k % 6)],
            "e": [rnd.choice([None, 0, 7, 3]) for _ in range(k % 7)],
        }

    for k in [0, 1, 2, 3, 7, 8, 9, 64, 257, 700]:
        roundtrip_case(fcp, "Dyn", dyn(k))

    def opt(mask):
        return {
            "p": mask & 1,
            "a": rnd.randrange(32) if mask & 2 else None,
            "b": leaf(rnd) if mask & 4 else None,
            "c": [rnd.randrange(-31, 32) for _ in range(mask % 5)] if mask & 8 else None,
            "d": rstr(rnd, mask % 11) if mask & 16 else None,
            "e": rnd.choice([-3, 0, 3]) if mask & 32 else None,
            "f": rnd.choice(F64) if mask & 64 else None,
            "g": rnd.choice([0, 300, 511]) if mask & 128 else None,
        }

    for mask in list(range(0, 256, 7)) + [255, 254, 1, 2, 4, 8, 16, 32, 64, 128]:
        roundtrip_case(fcp, "Opt", opt(mask))

    for _ in range(8):
        roundtrip_case(
            fcp, "Shuffled", {"z": rnd.randrange(16), "y": rnd.randrange(-7, 8), "x": rnd.randrange(512), "w": rnd.randrange(2)}
        )
    # insertion order of the input dict does not matter, output order is by field id
    enc = encode(fcp, "Shuffled", {"w": 1, "x": 257, "y": -1, "z": 9})
    check(list(decode(fcp, "Shuffled", enc).keys()) == ["w", "y", "x", "z"], "decode key order")

    # widths the parser lets through although they are unusual: 0 and above 64
    for w, v in [(0, 0), ((1 << 65) - 1, -1), (1 << 64, -(1 << 69) + 1), (12345678901234567890123 % (1 << 65), (1 << 69) - 1)]:
        for o in (None, 0):
            roundtrip_case(
                fcp, "Odd", {"a": 5, "z": 0, "y": 0, "w": w, "v": v, "t": 1, "e": [0, 0, 0], "o": o}
            )

    for i in range(12):
        roundtrip_case(
            fcp,
            "Deep",
            {
                "p": i % 4,
                "o": opt(rnd.randrange(256)),
                "d": [dyn(i), dyn(i + 3)],
                "s": [
                    {"z": rnd.randrange(16), "y": rnd.randrange(-7, 8), "x": rnd.randrange(512), "w": rnd.randrange(2)}
                    for _ in range(i % 4)
                ],
                "l": [arrays() for _ in range(i % 3)] if i % 2 else None,
            },
        )


def run_errors(fcp):
    """Same outcome (value or exception type+message) as the reference for bad input."""
    cases = [
        ("Leaf", bytearray()),
        ("Leaf", bytearray([0xFF])),
        ("Leaf", bytearray([0xFF, 0x07])),
        ("Leaf", bytearray([0xFF, 0xFF, 0xFF])),  # trailing data is ignored
        ("Strs", bytearray([0x1F, 0xFF, 0xFF, 0xFF])),
        ("Strs", bytearray([0x1F, 0xFF, 0xFF, 0xFF, 0xFF, 0x00])),  # huge length -> overrun
        ("Strs", bytearray([0xA0, 0x00, 0x00, 0x00, 0x00, 0x10])),  # 1 char = 0x80: not ascii
        ("Dyn", bytearray([0xFB, 0xFF, 0xFF, 0xFF, 0x07, 0x01])),
        ("Opt", bytearray([0x05])),
        ("Opt", bytearray([0x03, 0x00])),
        ("Floats", bytearray([1, 2, 3])),
        ("Floats", bytearray(range(13))),
        ("Floats", bytearray(range(14))),
        ("Floats", bytearray(range(15))),
    ]
    for name, data in cases:
        got = outcome(decode, fcp, name, data)
        want = outcome(ref_decode, fcp, name, data)
        ok = got[0] == want[0] and (same(got[1], want[1]) if got[0] == "ok" else got[1:] == want[1:])
        check(ok, "decode error case %s %r: %r != %r" % (name, bytes(data), got, want))

    # every truncation of a valid message fails with the overrun error or decodes
    # exactly as the reference does
    rnd = random.Random(3)
    value = {
        "p": 5,
        "a": [1, 2, 3],
        "b": [leaf(rnd)],
        "c": [[1, -2], []],
        "d": ["ab", ""],
        "e": [None, 3],
    }
    full = encode(fcp, "Dyn", value)
    for cut in range(len(full) + 1):
        got = outcome(decode, fcp, "Dyn", full[:cut])
        want = outcome(ref_decode, fcp, "Dyn", full[:cut])
        ok = got[0] == want[0] and (same(got[1], want[1]) if got[0] == "ok" else got[1:] == want[1:])
        check(ok, "truncated at %d: %r != %r" % (cut, got, want))

    # encode error paths
    enc_cases = [
        ("Nope", {}, "err"),
        ("Leaf", {"a": 1, "b": 2}, "KeyError"),
        ("Leaf", {"a": 1, "b": 2, "c": 3, "extra": 4}, "ok"),
        ("Leaf", {"a": 1.5, "b": 2, "c": 3}, "TypeError"),
        ("Strs", {"p": 1, "s": [1, 2], "t": "", "q": 0}, "TypeError"),
        ("Arrays", {"p": 1, "a": [1, 2], "b": [], "c": [], "d": [], "e": []}, "IndexError"),
        ("Floats", {"p": 1, "f": "x", "q": 0, "d": 0.0, "r": 0}, "error"),
        ("Floats", {"p": 1, "f": 1e39, "q": 0, "d": 0.0, "r": 0}, "ok"),
    ]
    for name, value, kind in enc_cases:
        got = outcome(encode, fcp, name, value)
        if kind == "ok":
            check(got == ("ok", ref_encode(fcp, name, value)), "encode extra key %r" % (got,))
        elif kind == "err":
            check(got[0] == "err", "encode unknown struct %r" % (got,))
        else:
            check(got[0] == "err" and got[1] == kind, "encode %s %r -> %r (want %s)" % (name, value, got, kind))
    got = outcome(decode, fcp, "Nope", bytearray([0]))
    check(got[0] == "err", "decode unknown struct %r" % (got,))

    # out-of-range integers are truncated to the field width, not rejected
    for v in [8, 9, -1, 255, 1 << 70]:
        value = {"a": v, "b": v, "c": v}
        check(outcome(encode, fcp, "Leaf", value) == ("ok", ref_encode(fcp, "Leaf", value)), "truncation %d" % v)


def run_repeat(fcp):
    """Repeated and interleaved calls give identical answers (no state leaks)."""
    rnd = random.Random(4)
    a = {"a": 5, "b": -3, "c": 5}
    b = {"z": 9, "y": -8 + 1, "x": 511, "w": 1}
    first_a, first_b = encode(fcp, "Leaf", a), encode(fcp, "Shuffled", b)
    for _ in range(20):
        check(encode(fcp, "Leaf", a) == first_a, "repeat Leaf")
        check(encode(fcp, "Shuffled", b) == first_b, "repeat Shuffled")
        check(same(decode(fcp, "Leaf", first_a), a), "repeat decode Leaf")
        check(same(decode(fcp, "Shuffled", first_b), b, ordered=False), "repeat decode Shuffled")
    # the input buffer is not modified by decode
    snapshot = bytearray(first_b)
    decode(fcp, "Shuffled", first_b)
    check(first_b == snapshot, "decode must not modify its input")
    del rnd


def run_mutation():
    """The codec sees the schema as it is at call time (schemas are plain mutable objects)."""
    from fcp.specs.struct_field import StructField
    from fcp.specs.enum import Enumeration

    fcp = get_fcp_from_string(
        'version: "3"\nenum E { A = 0, B = 1, }\nstruct M { a @0: u4, e @1: E, b @2: i4, }\nstruct N { m @0: M, n @1: [M, 2], }\n'
    ).unwrap()
    v = {"a": 9, "e": 1, "b": -2}
    roundtrip_case(fcp, "M", v)
    roundtrip_case(fcp, "N", {"m": v, "n": [v, v]})
    # grow the enum: 1 bit -> 3 bits
    fcp.get_enum("E").unwrap().enumeration.append(Enumeration("C", 6))
    v2 = {"a": 9, "e": 6, "b": -2}
    roundtrip_case(fcp, "M", v2)
    roundtrip_case(fcp, "N", {"m": v2, "n": [v, v2]})
    # add a field in the middle of the id order, and retype one
    m = fcp.get_struct("M").unwrap()
    m.fields.append(StructField("x", 1, UnsignedType("u3")))
    for f in m.fields:
        if f.name == "e":
            f.field_id = 5
    v3 = {"a": 9, "e": 6, "b": -2, "x": 5}
    roundtrip_case(fcp, "M", v3)
    roundtrip_case(fcp, "N", {"m": v3, "n": [v3, v3]})
    check(list(decode(fcp, "M", encode(fcp, "M", v3)).keys()) == ["a", "x", "b", "e"], "order after mutation")
    m.fields[0].type = SignedType("i13")
    v4 = {"a": -4000, "e": 2, "b": 7, "x": 0}
    roundtrip_case(fcp, "M", v4)
    # a second, independent schema with the same struct name but another layout
    other = get_fcp_from_string('version: "3"\nstruct M { a @0: u16, }\n').unwrap()
    roundtrip_case(other, "M", {"a": 65535})
    roundtrip_case(fcp, "M", v4)
    # merged schemas: the first definition of a name wins
    fcp.merge(other)
    roundtrip_case(fcp, "M", v4)


def main(extra=None):
    fcp_w = get_fcp_from_string(width_schema()).unwrap()
    fcp_s = get_fcp_from_string(SHAPES).unwrap()
    import traceback

    sections = [
        lambda: run_widths(fcp_w),
        lambda: run_shapes(fcp_s),
        lambda: run_errors(fcp_s),
        lambda: run_repeat(fcp_s),
        run_mutation,
    ]
    if extra is not None:
        sections.append(lambda: extra(fcp_s, fcp_w))
    for section in sections:
        try:
            section()
        except Exception:  # noqa: BLE001
            check(False, "unexpected exception:\n" + traceback.format_exc())
    if FAILURES:
        print("FAILED %d of %d checks" % (len(FAILURES), CHECKS))
        return 1
    print("PASS (%d checks)" % CHECKS)
    return 0


def extra(fcp_s, fcp_w):
    """What decode accepts as input and what encode hands back."""
    leaf = {"a": 5, "b": -7, "c": 5}
    wire = encode(fcp_s, "Leaf", leaf)
    check(wire == ref_encode(fcp_s, "Leaf", leaf) and len(wire) == 2, "leaf bytes")

    # any sequence of byte values is accepted; items are reduced to their low 8 bits
    variants = [
        bytearray(wire),
        bytes(wire),
        list(wire),
        tuple(wire),
        memoryview(bytes(wire)),
        [wire[0] + 256, wire[1] - 256],
        [wire[0] + (1 << 40), wire[1] - (1 << 70)],
        [wire[0], wire[1], 999, -5],
        iter(list(wire)),
        (b for b in wire),
        [True, False],
    ]
    for v in variants:
        expect = leaf if not (isinstance(v, list) and v == [True, False]) else ref_decode(fcp_s, "Leaf", bytes([1, 0]))
        got = outcome(decode, fcp_s, "Leaf", v)
        check(got[0] == "ok" and same(got[1], expect), "decode from %s: %r" % (type(v).__name__, got))

    # things that are not byte sequences fail the same way, before any field is read
    bad_inputs = [
        ("ab", "TypeError", "unsupported operand type(s) for >>: 'str' and 'int'"),
        ([1.5, 2], "TypeError", "unsupported operand type(s) for >>: 'float' and 'int'"),
        ([1, 2, None], "TypeError", "unsupported operand type(s) for >>: 'NoneType' and 'int'"),
        ([1, 2, 3, "x"], "TypeError", "unsupported operand type(s) for >>: 'str' and 'int'"),
        (5, "TypeError", "'int' object is not iterable"),
        (None, "TypeError", "'NoneType' object is not iterable"),
    ]
    for data, kind, message in bad_inputs:
        got = outcome(decode, fcp_s, "Leaf", data)
        check(got == ("err", kind, message), "bad input %r -> %r" % (data, got))
        # also when the struct does not exist: the input is looked at first
        got = outcome(decode, fcp_s, "Nope", data)
        check(got == ("err", kind, message), "bad input, unknown struct %r -> %r" % (data, got))

    # the input is left alone and can be decoded again; results are independent objects
    source = bytearray(encode(fcp_s, "Dyn", {"p": 1, "a": [1, 2], "b": [leaf], "c": [[-1]], "d": ["q"], "e": [None]}))
    snapshot = bytes(source)
    first = decode(fcp_s, "Dyn", source)
    second = decode(fcp_s, "Dyn", source)
    check(bytes(source) == snapshot, "input untouched")
    check(same(first, second) and first is not second and first["a"] is not second["a"], "independent results")
    first["a"].append(99)
    check(second["a"] == [1, 2], "no sharing between results")

    # encode returns a fresh bytearray every time
    one = encode(fcp_s, "Leaf", leaf)
    two = encode(fcp_s, "Leaf", leaf)
    check(type(one) is bytearray and one == two and one is not two, "fresh result")
    one[0] ^= 0xFF
    one.extend(b"junk")
    check(encode(fcp_s, "Leaf", leaf) == two, "result can be modified freely")

    # a failed encode / decode leaves nothing behind for the next call
    check(outcome(encode, fcp_s, "Leaf", {"a": 1})[0] == "err", "failed encode")
    check(encode(fcp_s, "Leaf", leaf) == two, "encode after a failure")
    check(outcome(decode, fcp_s, "Leaf", bytearray([1]))[1:] == ("ValueError", "buffer overrrun"), "failed decode")
    check(same(decode(fcp_s, "Leaf", two), leaf, ordered=False), "decode after a failure")

    # interleaved encodes of a nested value while decoding another
    rnd = random.Random(44)
    for _ in range(10):
        a = {"z": rnd.randrange(16), "y": rnd.randrange(-7, 8), "x": rnd.randrange(512), "w": rnd.randrange(2)}
        b = {"a": rnd.randrange(8), "b": rnd.randrange(-15, 16), "c": rnd.randrange(8)}
        ea, eb = encode(fcp_s, "Shuffled", a), encode(fcp_s, "Leaf", b)
        check(same(decode(fcp_s, "Leaf", eb), b, ordered=False) and same(decode(fcp_s, "Shuffled", ea), a, ordered=False), "interleaved")

    # an empty struct needs no input at all
    empty = get_fcp_from_string('version: "3"\nstruct Nothing0 { z @0: u0, }\n').unwrap()
    check(outcome(encode, empty, "Nothing0", {"z": 0}) == ("ok", bytearray()), "empty message")
    check(outcome(decode, empty, "Nothing0", b"") == ("ok", {"z": 0}), "empty input")


if __name__ == "__main__":
    sys.exit(main(extra))
