#!/usr/bin/env python
"""C02 demo 1: encoder output must be exactly the canonical bytes (no extra padding).

A message with two fixed-size arrays of the same element type but different
lengths (the longer one declared first) is encoded and compared, byte for
byte, with the canonical FCP wire encoding worked out by hand below (this is
also what the generated C++ produces: every field bit-packed in field order,
zero padding only inside the last byte).
"""
import sys
import tempfile
from pathlib import Path

from fcp.parser import get_fcp
from fcp.serde import encode, decode

SCHEMA = """version: "3"

struct Frame {
    samples @ 0: [u8, 6],
    flags @ 1: [u8, 2],
    seq @ 2: u16,
}

struct Log {
    first @ 0: [u4, 5],
    second @ 1: [u4, 1],
    names @ 2: [str],
}
"""

CASES = [
    (
        "Frame",
        {"samples": [1, 2, 3, 4, 5, 6], "flags": [7, 8], "seq": 0x1234},
        bytes([1, 2, 3, 4, 5, 6, 7, 8, 0x34, 0x12]),
    ),
    (
        "Log",
        {"first": [1, 2, 3, 4, 5], "second": [6], "names": ["a"]},
        # 5 + 1 nibbles = 3 bytes, u32 count 1, u32 length 1, 'a'
        bytes([0x21, 0x43, 0x65, 1, 0, 0, 0, 1, 0, 0, 0, ord("a")]),
    ),
]


def main() -> int:
    with tempfile.TemporaryDirectory() as d:
        path = Path(d) / "demo.fcp"
        path.write_text(SCHEMA)
        fcp = get_fcp(path).unwrap()

    ok = True
    for name, value, canonical in CASES:
        try:
            encoded = bytes(encode(fcp, name, value))
        except Exception as e:  # noqa: BLE001
            print(f"{name}: encode raised {e!r}")
            ok = False
            continue
        if encoded != canonical:
            print(f"{name}: encoded   {encoded.hex()}")
            print(f"{name}: canonical {canonical.hex()}")
            ok = False
        try:
            decoded = decode(fcp, name, bytearray(canonical))
        except Exception as e:  # noqa: BLE001
            print(f"{name}: decode raised {e!r}")
            ok = False
            continue
        if decoded != value:
            print(f"{name}: decoded {decoded} expected {value}")
            ok = False

    print("PASS" if ok else "FAIL")
    return 0 if ok else 1


if __name__ == "__main__":
    sys.exit(main())
