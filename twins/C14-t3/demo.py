#!/venv/bin/python
"""Differential demo for property C14.

CAN messages that do not fit a frame are rejected, never truncated.

For a spread of schemas (total packed size 57..200 bits with the excess located in
a scalar field, a nested struct, an array or an array of structs; variable-size
fields - str, dynamic array, optional - in every position) this script runs the
DBC generator and the C generator the same way the `fcp generate` command does
(GeneratorManager.generate) and additionally through the plug-in API, and checks:

 * a binding that is larger than 64 bits or contains a variable-size field makes
   the generation fail (exception or Err result) with the pinned error text and
   nothing at all is written to the output directory,
 * a binding that fits is generated and no signal in the DBC / C source extends
   beyond its message or overlaps another signal; the layout equals an
   independent model of the packed layout.

Run with
  PYTHONPATH=$R/src:$R/plugins/fcp_dbc:$R/plugins/fcp_can_c:$R/plugins/fcp_cpp:$R/plugins/fcp_nop \
      /venv/bin/python demo.py
It prints PASS and exits 0 when the property holds on all inputs.
"""

import hashlib
import logging
import os
import re
import shutil
import sys
import tempfile
from math import floor, log2
from pathlib import Path

FCP_ROOT = os.environ.get("FCP_ROOT", "/tmp/twin-C14")

import cantools  # noqa: E402

from fcp.parser import get_fcp  # noqa: E402
from fcp.verifier import make_general_verifier  # noqa: E402
from fcp.codegen import GeneratorManager  # noqa: E402
import fcp_dbc  # noqa: E402
import fcp_can_c  # noqa: E402

logging.disable(logging.CRITICAL)

DIGEST = hashlib.sha256()
FAILURES = []
COUNT = 0


def note(*parts):
    for p in parts:
        DIGEST.update(repr(p).encode())
        DIGEST.update(b"\0")


def fail(case, msg):
    FAILURES.append("%s: %s" % (case, msg))


# --------------------------------------------------------------------------
# tiny schema model
# --------------------------------------------------------------------------
# type terms:
#   ("u", n) ("i", n) ("f32",) ("f64",) ("enum", name) ("struct", name)
#   ("arr", t, n) ("str",) ("dyn", t) ("opt", t)


def tsrc(t):
    k = t[0]
    if k in ("u", "i"):
        return "%s%d" % (k, t[1])
    if k in ("f32", "f64", "str"):
        return k
    if k in ("enum", "struct"):
        return t[1]
    if k == "arr":
        return "[%s, %d]" % (tsrc(t[1]), t[2])
    if k == "dyn":
        return "[%s]" % tsrc(t[1])
    if k == "opt":
        return "Optional[%s]" % tsrc(t[1])
    raise AssertionError(t)


class Schema:
    """structs: {name: [(field, id, type)]}; enums: {name: [(member, value)]}.

    impls: [(name, protocol, struct, {key: literal}, {signal: {key: literal}})]
    Referenced types must be declared before use (the parser resolves names
    while reading), so `order` lists the declarations in file order.
    """

    def __init__(self):
        self.structs = {}
        self.enums = {}
        self.impls = []
        self.order = []

    def enum(self, name, members):
        self.enums[name] = members
        self.order.append(("enum", name))
        return self

    def struct(self, name, fields):
        # fields: list of (fname, type) -> ids assigned in order, or (fname, id, type)
        out = []
        for i, f in enumerate(fields):
            if len(f) == 2:
                out.append((f[0], i, f[1]))
            else:
                out.append(f)
        self.structs[name] = out
        self.order.append(("struct", name))
        return self

    def impl(self, name, struct, protocol="can", fields=None, signals=None):
        self.impls.append((name, protocol, struct, fields or {}, signals or {}))
        return self

    def source(self):
        s = ['version: "3"', ""]
        for kind, name in self.order:
            if kind == "enum":
                s.append("enum %s {" % name)
                for m, v in self.enums[name]:
                    s.append("    %s = %d," % (m, v))
                s.append("}")
            else:
                s.append("struct %s {" % name)
                for fname, fid, t in self.structs[name]:
                    s.append("    %s @%d: %s," % (fname, fid, tsrc(t)))
                s.append("}")
            s.append("")
        for name, protocol, struct, fields, signals in self.impls:
            if name == struct:
                s.append("impl %s for %s {" % (protocol, struct))
            else:
                s.append("impl %s for %s as %s {" % (protocol, struct, name))
            for k, v in fields.items():
                s.append("    %s: %s," % (k, v))
            for sig, sfields in signals.items():
                s.append("    signal %s {" % sig)
                for k, v in sfields.items():
                    s.append("        %s: %s," % (k, v))
                s.append("    },")
            s.append("}")
            s.append("")
        return "\n".join(s)

    # ---- independent model of the packed layout -------------------------
    def enum_bits(self, name):
        m = max(v for _, v in self.enums[name])
        return 1 if m in (0, 1) else floor(log2(m) + 1)

    def flatten(self, struct, prefix=""):
        """Return list of (signal name, bits) or raise Variable."""
        out = []
        for fname, _fid, t in sorted(self.structs[struct], key=lambda f: f[1]):
            out += self._flat_field(prefix + fname, t)
        return out

    def _flat_field(self, name, t):
        k = t[0]
        if k in ("u", "i"):
            return [(name, t[1])]
        if k == "f32":
            return [(name, 32)]
        if k == "f64":
            return [(name, 64)]
        if k == "enum":
            return [(name, self.enum_bits(t[1]))]
        if k == "struct":
            return self.flatten(t[1], name + "_")
        if k == "arr":
            out = []
            for i in range(t[2]):
                out += self._flat_field("%s_%d" % (name, i), t[1])
            return out
        raise Variable(t)


class Variable(Exception):
    pass


def split_bits(n, kind="u"):
    """Split n bits into scalar types of at most 64 bits."""
    out = []
    while n > 0:
        c = min(n, 64)
        out.append((kind, c))
        n -= c
    return out


def named(prefix, types):
    return [("%s%d" % (prefix, i), t) for i, t in enumerate(types)]


# --------------------------------------------------------------------------
# running the generators
# --------------------------------------------------------------------------
WORK = tempfile.mkdtemp(prefix="c14demo-")


def parse(schema):
    d = tempfile.mkdtemp(dir=WORK)
    p = os.path.join(d, "schema.fcp")
    with open(p, "w") as f:
        f.write(schema.source())
    r = get_fcp(Path(p))
    if r.is_err():
        raise AssertionError("schema does not parse: %r\n%s" % (r.err(), schema.source()))
    return r.unwrap(), d


def tree(out):
    files = {}
    if os.path.isdir(out):
        for root, _dirs, names in os.walk(out):
            for n in names:
                p = os.path.join(root, n)
                with open(p, newline="") as f:
                    files[os.path.relpath(p, out)] = f.read()
    return files


def run_command(gen, fcp, out):
    """What `fcp generate <gen> schema out` does after parsing."""
    try:
        res = GeneratorManager(make_general_verifier()).generate(gen, None, None, fcp, out)
    except Exception as e:  # noqa: BLE001
        return ("exc", type(e).__name__, str(e))
    if res.is_err():
        return ("err", repr(res.err()))
    return ("ok",)


def bits_of(start, length, big_endian):
    """Set of absolute bit positions (lsb0 numbering byte*8+bit) of a signal."""
    if not big_endian:
        return set(range(start, start + length))
    out = set()
    pos = start
    for _ in range(length):
        out.add(pos)
        if pos % 8 == 0:
            pos += 15
        else:
            pos -= 1
    return out


def check_layout(case, where, frame_bytes, sigs, expected, muxed=()):
    """sigs: list of (name, start, length, big_endian)."""
    used = {}
    for name, start, length, be in sigs:
        b = bits_of(start, length, be)
        if not b or min(b) < 0 or max(b) >= frame_bytes * 8:
            fail(case, "%s: signal %s [%d,+%d] extends beyond %d byte message" % (where, name, start, length, frame_bytes))
        if frame_bytes > 8:
            fail(case, "%s: message longer than 8 bytes" % where)
        if name in muxed:
            continue
        for bit in b:
            if bit in used:
                fail(case, "%s: signal %s overlaps %s at bit %d" % (where, name, used[bit], bit))
                break
            used[bit] = name
    got = [(n, s, l) for n, s, l, _ in sigs]
    if expected is not None and got != expected:
        fail(case, "%s: layout %r differs from the model %r" % (where, got, expected))


def snake(pascal):
    return "".join(["_" + c.lower() if c.isupper() else c for c in pascal]).lstrip("_")


def expected_outcome(schema):
    """First offending CAN impl decides: ('ok', layouts) | ('big', impl, struct, n) | ('var', impl)."""
    layouts = {}
    for name, protocol, struct, fields, signals in schema.impls:
        if protocol != "can":
            continue
        try:
            flat = schema.flatten(struct)
        except Variable:
            return ("var", name, struct)
        total = sum(b for _, b in flat)
        if total > 64:
            return ("big", name, struct, total)
        pos = 0
        lay = []
        for n, b in flat:
            lay.append((n, pos, b))
            pos += b
        layouts[name] = (lay, total, fields, signals)
    return ("ok", layouts)


def check_case(case, schema, be_signals=(), muxed=()):
    """Run both generators on the schema and check the property."""
    global COUNT
    COUNT += 1
    fcp, d = parse(schema)
    exp = expected_outcome(schema)
    note(case, exp[0])

    for gen in ("dbc", "can_c"):
        out = os.path.join(d, "out_" + gen)
        outcome = run_command(gen, fcp, out)
        files = tree(out)
        note(case, gen, outcome, sorted(files.items()))

        if exp[0] != "ok":
            if outcome[0] == "ok":
                fail(case, "%s: oversized / variable-size binding was ACCEPTED" % gen)
            if files:
                fail(case, "%s: files written although generation failed: %s" % (gen, sorted(files)))
            # pinned error texts
            if exp[0] == "big":
                _, iname, sname, total = exp
                if gen == "dbc":
                    want = ("exc", "ValueError", "Message %s too big. Current length: %d" % (sname, total))
                else:
                    want = ("err", "Impl %s is way too big at %d bits" % (iname, total))
                if outcome != want:
                    fail(case, "%s: outcome %r, expected %r" % (gen, outcome, want))
            else:
                _, iname, sname = exp
                if gen == "dbc":
                    good = outcome[0] == "exc" and outcome[1] == "ValueError" and outcome[2].startswith("Error computing type length for type ")
                else:
                    good = outcome[0] == "err" and outcome[1].startswith("Impl %s cannot be packed into a CAN frame: Error computing type length for type " % iname)
                if not good:
                    fail(case, "%s: outcome %r is not the variable-size rejection" % (gen, outcome))
            continue

        layouts = exp[1]
        if outcome != ("ok",):
            fail(case, "%s: binding that fits was rejected: %r" % (gen, outcome))
            continue

        if gen == "dbc":
            seen = set()
            for fname, text in files.items():
                db = cantools.database.load_string(text, database_format="dbc")
                for msg in db.messages:
                    seen.add(msg.name)
                    if msg.name not in layouts:
                        fail(case, "dbc: unexpected message %s" % msg.name)
                        continue
                    lay, total, _f, _s = layouts[msg.name]
                    if msg.length != (total + 7) // 8:
                        fail(case, "dbc: %s length %d for %d bits" % (msg.name, msg.length, total))
                    sigs = [(s.name, s.start, s.length, s.byte_order == "big_endian") for s in msg.signals]
                    sigs.sort(key=lambda s: min(bits_of(s[1], s[2], s[3])))
                    model = None if be_signals else lay
                    check_layout(case, "dbc " + msg.name, msg.length, sigs, model, muxed)
                    if sum(s[2] for s in sigs) != total:
                        fail(case, "dbc: %s describes %d bits, struct has %d" % (msg.name, sum(s[2] for s in sigs), total))
            if seen != set(layouts):
                fail(case, "dbc: messages %s, expected %s" % (sorted(seen), sorted(layouts)))
        else:
            csrc = "".join(t for n, t in sorted(files.items()) if n.endswith("_can.c"))
            for iname, (lay, total, _f, _s) in layouts.items():
                ms = snake(iname)
                m = re.search(r"CanFrame can_encode_msg_%s\(.*?\.dlc = (\d+)\}" % ms, csrc, re.S)
                if not m:
                    fail(case, "can_c: no encoder for %s" % iname)
                    continue
                dlc = int(m.group(1))
                if dlc != (total + 7) // 8:
                    fail(case, "can_c: %s dlc %d for %d bits" % (iname, dlc, total))
                sigs = []
                for name, _s, _l in lay:
                    for direction, fn in (("decode", "as"), ("encode", "from")):
                        mm = re.search(
                            r"#define can_%s_signal_%s_%s\(\w+\) \\\n\s+can_%s_signal_%s_\w+\(\(\w+\), (\d+), (\d+), "
                            % (direction, ms, re.escape(name), direction, fn),
                            csrc,
                        )
                        if not mm:
                            fail(case, "can_c: no %s macro for %s.%s" % (direction, iname, name))
                            continue
                        if direction == "decode":
                            sigs.append((name, int(mm.group(1)), int(mm.group(2)), False))
                        elif sigs and sigs[-1][1:3] != (int(mm.group(1)), int(mm.group(2))):
                            fail(case, "can_c: encode/decode macros of %s.%s disagree" % (iname, name))
                check_layout(case, "can_c " + iname, dlc, sigs, lay, muxed)
            # no other message may be described
            for m in re.finditer(r"CanFrame can_encode_msg_(\w+)\(", csrc):
                if m.group(1) not in {snake(n) for n in layouts}:
                    fail(case, "can_c: unexpected message %s" % m.group(1))

    # plug-in API level (what the plug-in test-suites call)
    for rep in range(2):
        try:
            res = fcp_dbc.Generator().generate(fcp, {"output": os.path.join(d, "api")})
            api = ("ok", [(r["bus"], r["contents"]) for r in res])
        except Exception as e:  # noqa: BLE001
            api = ("exc", type(e).__name__, str(e))
        note(case, "dbc-api", rep, api)
        if (api[0] == "ok") != (exp[0] == "ok"):
            fail(case, "dbc api: outcome %s but expected %s" % (api[0], exp[0]))
        if exp[0] != "ok" and api[0] == "exc" and api[1] != "ValueError":
            fail(case, "dbc api: raised %s instead of ValueError" % api[1])

        verifier = make_general_verifier()
        fcp_can_c.Generator().register_checks(verifier)
        v = verifier.verify(fcp)
        note(case, "can_c-verify", rep, repr(v))
        if v.is_ok() != (exp[0] == "ok"):
            fail(case, "can_c verifier: %r but expected %s" % (v, exp[0]))


# --------------------------------------------------------------------------
# the inputs
# --------------------------------------------------------------------------
def shape_flat_tail(n):
    s = Schema()
    s.struct("Foo", named("f", [("u", 32), ("u", 16), ("u", 8)] + split_bits(n - 56)))
    return s.impl("Foo", "Foo", fields={"id": 10})


def shape_flat_head(n):
    s = Schema()
    s.struct("Foo", named("f", split_bits(n - 24, "i") + [("u", 16), ("u", 8)]))
    return s.impl("Foo", "Foo", fields={"id": 11, "device": '"ecu"'})


def shape_nested(n):
    s = Schema()
    s.struct("Inner", named("x", [("u", 16)] + split_bits(n - 24)))
    s.struct("Foo", [("a", ("u", 5)), ("inner", ("struct", "Inner")), ("z", ("u", 3))])
    return s.impl("Foo", "Foo", fields={"id": 12})


def shape_array(n, w):
    s = Schema()
    fields = [("arr", ("arr", ("u", w), n // w))]
    if n % w:
        fields.append(("rest", ("u", n % w)))
    s.struct("Foo", fields)
    return s.impl("Foo", "Foo", fields={"id": 13})


def shape_struct_array(n):
    s = Schema()
    s.struct("Pair", [("a", ("u", 7)), ("b", ("i", 6))])
    fields = []
    if n % 13:
        fields.append(("head", ("u", n % 13)))
    fields.append(("pairs", ("arr", ("struct", "Pair"), n // 13)))
    s.struct("Foo", fields)
    return s.impl("Foo", "Foo", fields={"id": 14})


def shape_deep(n):
    # C carries an array of u11, B adds 9 bits, A adds the remainder; ids reversed
    k = (n - 9) // 11
    r = n - 9 - 11 * k
    s = Schema()
    s.struct("C", [("v", ("arr", ("u", 11), k))])
    s.struct("B", [("m", 1, ("u", 9)), ("c", 0, ("struct", "C"))])
    fields = [("b", 1, ("struct", "B"))]
    if r:
        fields.append(("t", 0, ("u", r)))
    s.struct("Foo", fields)
    return s.impl("Foo", "Foo", fields={"id": 15})


def shape_enum_float(n):
    # enum of 3 bits + f32 + remainder
    s = Schema()
    s.enum("Mode", [("Off", 0), ("On", 1), ("Auto", 5)])
    s.struct("Foo", [("mode", ("enum", "Mode")), ("temp", ("f32",))] + named("r", split_bits(n - 35)))
    return s.impl("Foo", "Foo", fields={"id": 16})


def shape_double(n):
    s = Schema()
    s.struct("Foo", named("r", split_bits(n - 64)) + [("d", ("f64",))])
    return s.impl("Foo", "Foo", fields={"id": 17})


SHAPES = [
    ("flat_tail", shape_flat_tail),
    ("flat_head", shape_flat_head),
    ("nested", shape_nested),
    ("array8", lambda n: shape_array(n, 8)),
    ("array3", lambda n: shape_array(n, 3)),
    ("struct_array", shape_struct_array),
    ("deep", shape_deep),
    ("enum_float", shape_enum_float),
    ("double", shape_double),
]


def size_sweep():
    for n in range(57, 201):
        if n <= 72 or n in (127, 128, 129, 199, 200):
            shapes = SHAPES
        else:
            shapes = [SHAPES[n % len(SHAPES)], SHAPES[(n * 7 + 3) % len(SHAPES)]]
        for name, mk in shapes:
            if name == "double" and n < 64:
                continue
            check_case("size%d-%s" % (n, name), mk(n))


VARIABLE = [
    ("str", ("str",)),
    ("dyn_u8", ("dyn", ("u", 8))),
    ("opt_u8", ("opt", ("u", 8))),
    ("dyn_struct", ("dyn", ("struct", "Leaf"))),
    ("opt_struct", ("opt", ("struct", "Leaf"))),
    ("arr_str", ("arr", ("str",), 2)),
    ("arr_dyn", ("arr", ("dyn", ("u", 8)), 2)),
    ("opt_str", ("opt", ("str",))),
    ("dyn_dyn", ("dyn", ("dyn", ("u", 4)))),
]


def variable_sweep():
    for vname, vt in VARIABLE:
        for pos in range(3):
            # directly in the bound struct, small (24 bit) fixed part
            base = [("a", ("u", 8)), ("b", ("i", 16))]
            base.insert(pos, ("v", vt))
            s = Schema().struct("Leaf", [("q", ("u", 4))]).struct("Foo", base)
            check_case("var-%s-top%d" % (vname, pos), s.impl("Foo", "Foo", fields={"id": 20}))

            # inside a nested struct
            s = Schema().struct("Leaf", [("q", ("u", 4))]).struct("Inner", base)
            s.struct("Foo", [("h", ("u", 2)), ("inner", ("struct", "Inner")), ("t", ("u", 2))])
            check_case("var-%s-nested%d" % (vname, pos), s.impl("Foo", "Foo", fields={"id": 21}))

        # inside the element struct of an array, two levels down
        s = Schema().struct("Leaf", [("q", ("u", 4))])
        s.struct("Elem", [("k", ("u", 3)), ("v", vt)])
        s.struct("Mid", [("es", ("arr", ("struct", "Elem"), 2))])
        s.struct("Foo", [("a", ("u", 1)), ("mid", ("struct", "Mid"))])
        check_case("var-%s-arrelem" % vname, s.impl("Foo", "Foo", fields={"id": 22}))

        # variable-size field AND more than 64 bits of fixed data, before and after
        for pos in (0, 2):
            base = [("a", ("u", 40)), ("b", ("u", 40))]
            base.insert(pos, ("v", vt))
            s = Schema().struct("Leaf", [("q", ("u", 4))]).struct("Foo", base)
            check_case("var-%s-big%d" % (vname, pos), s.impl("Foo", "Foo", fields={"id": 23}))

        # only field
        s = Schema().struct("Leaf", [("q", ("u", 4))]).struct("Foo", [("v", vt)])
        check_case("var-%s-only" % vname, s.impl("Foo", "Foo", fields={"id": 24}))


def mixed_cases():
    # several bindings, the offending one first / in the middle / last
    for bad_at in range(3):
        for bad in ("big", "var"):
            s = Schema()
            s.struct("Aaa", [("x", ("u", 12)), ("y", ("i", 20))])
            s.struct("Bbb", [("x", ("arr", ("u", 16), 4))])
            if bad == "big":
                s.struct("Ccc", [("p", ("u", 64)), ("q", ("u", 1))])
            else:
                s.struct("Ccc", [("p", ("u", 8)), ("q", ("str",))])
            names = ["Aaa", "Bbb"]
            names.insert(bad_at, "Ccc")
            for i, n in enumerate(names):
                s.impl(n, n, fields={"id": 30 + i, "device": '"dev%d"' % (i % 2)})
            check_case("mixed-%s-at%d" % (bad, bad_at), s)

    # all fit, several devices and buses, exactly 64 bits in three different ways
    s = Schema()
    s.enum("Gear", [("P", 0), ("R", 1), ("N", 2), ("D", 3)])
    s.struct("Aaa", [("x", ("u", 64))])
    s.struct("Bbb", [("x", ("arr", ("u", 1), 64))])
    s.struct("In", [("g", ("enum", "Gear")), ("f", ("f32",))])
    s.struct("Ccc", [("a", ("struct", "In")), ("b", ("i", 30))])
    s.impl("Aaa", "Aaa", fields={"id": 40, "device": '"ecu"', "bus": '"bus1"'})
    s.impl("Bbb", "Bbb", fields={"id": 41, "device": '"ecu"', "bus": '"bus2"'})
    s.impl("Ccc", "Ccc", fields={"id": 42, "device": '"dash"', "period": 100})
    check_case("mixed-all-fit", s)

    # an oversized / variable-size struct that is NOT bound to CAN is none of our business
    s = Schema()
    s.struct("Log", [("text", ("str",)), ("blob", ("arr", ("u", 64), 3))])
    s.struct("Aaa", [("x", ("u", 57))])
    s.impl("Log", "Log", protocol="uart", fields={"id": 1})
    s.impl("Aaa", "Aaa", fields={"id": 50})
    check_case("mixed-non-can-big", s)

    # the same struct bound twice to CAN under different names, too big
    s = Schema()
    s.struct("Aaa", [("x", ("u", 33)), ("y", ("u", 32))])
    s.impl("First", "Aaa", fields={"id": 60})
    check_case("alias-big", s)
    s = Schema()
    s.struct("Aaa", [("x", ("u", 32)), ("y", ("u", 32))])
    s.impl("First", "Aaa", fields={"id": 60})
    check_case("alias-fit", s)

    # multiplexed signals and a big-endian signal in a message that fits / does not
    for extra in (0, 1):
        s = Schema()
        s.struct("Mux", [("sel", ("u", 8)), ("val", ("u", 56 + extra))])
        s.impl("Mux", "Mux", fields={"id": 70}, signals={"val": {"mux_count": 4, "mux_signal": '"sel"'}})
        check_case("mux-%d" % (64 + extra), s, muxed=("val",))
        s = Schema()
        s.struct("Big", [("a", ("u", 16)), ("b", ("u", 32)), ("c", ("u", 16 + extra))])
        s.impl("Big", "Big", fields={"id": 71}, signals={"b": {"endianess": '"big"'}})
        check_case("bigendian-%d" % (64 + extra), s, be_signals=("b",))


def record_only(case, schema):
    """Unusual schemas: the outcome is only recorded in the digest (so that two
    trees can be compared) and checked for the one thing the property demands:
    if anything is generated, it stays inside the frame."""
    global COUNT
    COUNT += 1
    fcp, d = parse(schema)
    for gen in ("dbc", "can_c"):
        outs = []
        for rep in range(2):
            out = os.path.join(d, "out_%s_%d" % (gen, rep))
            outcome = run_command(gen, fcp, out)
            files = tree(out)
            outs.append((outcome, sorted(files.items())))
            if outcome[0] != "ok" and files:
                fail(case, "%s: files written although generation failed" % gen)
            for fname, text in files.items():
                if gen == "dbc":
                    for m in re.finditer(r"BO_ \d+ (\w+): (\d+) ", text):
                        if int(m.group(2)) > 8:
                            fail(case, "dbc: message %s is %s bytes" % m.groups())
                    for m in re.finditer(r" SG_ (\w+) (?:\w+ )?: (\d+)\|(\d+)@1", text):
                        if int(m.group(2)) + int(m.group(3)) > 64:
                            fail(case, "dbc: signal %s ends beyond bit 64" % m.group(1))
                elif fname.endswith("_can.c"):
                    for m in re.finditer(r"can_decode_signal_as_\w+\(\(msg\), (\d+), (\d+), ", text):
                        if int(m.group(1)) + int(m.group(2)) > 64:
                            fail(case, "can_c: a signal ends beyond bit 64")
        if outs[0] != outs[1]:
            fail(case, "%s: two runs on the same schema differ" % gen)
        note(case, gen, outs[0])


def edge_cases():
    # zero-length array only -> nothing to pack
    s = Schema().struct("Foo", [("z", ("arr", ("u", 8), 0))])
    record_only("edge-empty-array-only", s.impl("Foo", "Foo", fields={"id": 80}))
    # zero-length array last / first next to 64 and 65 bits
    for n in (64, 65):
        for pos in (0, 1):
            f = [("a", ("u", n - 32)), ("b", ("u", 32))]
            f.insert(pos * 2, ("z", ("arr", ("u", 8), 0)))
            s = Schema().struct("Foo", f)
            record_only("edge-empty-array-%d-%d" % (n, pos), s.impl("Foo", "Foo", fields={"id": 81}))
    # binding without an id
    s = Schema().struct("Foo", [("a", ("u", 8))])
    record_only("edge-no-id", s.impl("Foo", "Foo", fields={"device": '"ecu"'}))
    s = Schema().struct("Foo", [("a", ("u", 60)), ("b", ("u", 8))])
    record_only("edge-no-id-big", s.impl("Foo", "Foo", fields={"device": '"ecu"'}))
    # field ids not in declaration order, excess in the field that sorts last
    s = Schema().struct("Foo", [("a", 5, ("u", 33)), ("b", 2, ("u", 16)), ("c", 9, ("u", 16))])
    record_only("edge-ids-65", s.impl("Foo", "Foo", fields={"id": 82}))
    s = Schema().struct("Foo", [("a", 5, ("u", 32)), ("b", 2, ("u", 16)), ("c", 9, ("u", 16))])
    record_only("edge-ids-64", s.impl("Foo", "Foo", fields={"id": 82}))
    # duplicated field ids (stable order matters)
    s = Schema().struct("Foo", [("a", 1, ("u", 7)), ("b", 1, ("i", 9)), ("c", 0, ("u", 3))])
    record_only("edge-dup-ids", s.impl("Foo", "Foo", fields={"id": 83}))
    # two bindings of the same struct, one CAN one not
    s = Schema().struct("Foo", [("a", ("u", 64)), ("b", ("u", 64))])
    s.impl("Foo", "Foo", protocol="uart", fields={"id": 1})
    s.impl("FooCan", "Foo", fields={"id": 84})
    record_only("edge-two-protocols", s)
    # big-endian signal that is not byte aligned; mux on an oversized message
    s = Schema().struct("Foo", [("a", ("u", 3)), ("b", ("u", 12)), ("c", ("u", 49))])
    record_only("edge-be-unaligned", s.impl("Foo", "Foo", fields={"id": 85}, signals={"b": {"endianess": '"big"'}}))

    # signal blocks that name a composite field, an unrolled array element or
    # a member of a nested struct
    for n in (64, 65):
        s = Schema().struct("In", [("p", ("u", 8)), ("q", ("u", 8))])
        s.struct("Foo", [("sel", ("u", 8)), ("inner", ("struct", "In")), ("arr", ("arr", ("u", 8), 4)), ("t", ("u", n - 56))])
        sig = {
            "inner": {"mux_count": 2, "mux_signal": '"sel"'},
            "arr": {"endianess": '"big"'},
            "arr_1": {"endianess": '"big"'},
            "q": {"mux_count": 3, "mux_signal": '"sel"'},
        }
        record_only("edge-signal-blocks-%d" % n, s.impl("Foo", "Foo", fields={"id": 86}, signals=sig))


def main():
    size_sweep()
    variable_sweep()
    mixed_cases()
    edge_cases()
    shutil.rmtree(WORK, ignore_errors=True)
    if FAILURES:
        for f in FAILURES[:40]:
            print("FAIL", f)
        print("FAILED: %d problems in %d cases" % (len(FAILURES), COUNT))
        sys.exit(1)
    print("PASS (%d schemas x 2 generators, digest %s)" % (COUNT, DIGEST.hexdigest()[:16]))


if __name__ == "__main__":
    main()
