#!/venv/bin/python
"""Differential demo for property C06 (generated C CAN code packs/unpacks per the packed layout).

Run with the worktree on PYTHONPATH, e.g.
  cd /tmp/twin2-C06 && PYTHONPATH=/tmp/twin2-C06/src:/tmp/twin2-C06/plugins/fcp_dbc:/tmp/twin2-C06/plugins/fcp_can_c:/tmp/twin2-C06/plugins/fcp_cpp:/tmp/twin2-C06/plugins/fcp_nop /venv/bin/python demo.py

It builds random and corner-case flat CAN schemas, runs the fcp_can_c generator,
compiles the generated C with a driver, and compares id / DLC / data bytes /
decoded values against an independent reference packing written in this file.
Prints PASS and exits 0 when everything agrees.
"""
import hashlib
import math
import os
import random
import shutil
import struct
import subprocess
import sys
import tempfile
from pathlib import Path

FCP_ROOT = os.environ.get("FCP_ROOT", "/tmp/twin2-C06")

from fcp.parser import get_fcp_from_string, get_fcp  # noqa: E402
from fcp.verifier import Verifier  # noqa: E402
from fcp_can_c import Generator  # noqa: E402

FAILURES = []


def check(cond, what):
    if not cond:
        FAILURES.append(what)
        print("FAIL:", what)


def pick_cc():
    for cc in (os.environ.get("CC"), "clang", "gcc", "cc"):
        if cc and shutil.which(cc):
            return cc
    raise SystemExit("no C compiler found")


# --------------------------------------------------------------------------
# Schema model + independent reference layout
# --------------------------------------------------------------------------


class Field:
    def __init__(self, name, fid, kind, bits, enum=None):
        self.name = name
        self.fid = fid
        self.kind = kind  # 'u', 'i', 'f32', 'f64', 'enum'
        self.bits = bits
        self.enum = enum  # (enum_name, [(label, value)...])

    def type_text(self):
        if self.kind in ("u", "i"):
            return f"{self.kind}{self.bits}"
        if self.kind == "enum":
            return self.enum[0]
        return self.kind

    def c_scalar(self):
        """The C type the generated struct member is expected to have."""
        if self.kind == "f32":
            return "float"
        if self.kind == "f64":
            return "double"
        if self.kind == "enum":
            return self.enum[0]
        width = 8
        while width < self.bits:
            width *= 2
        return ("int" if self.kind == "i" else "uint") + f"{width}_t"


class Message:
    def __init__(self, name, can_id, device, fields, big_endian=False):
        self.name = name
        self.can_id = can_id
        self.device = device  # None -> default ("global")
        self.fields = fields  # declaration order
        self.big_endian = big_endian

    def ordered(self):
        return sorted(self.fields, key=lambda f: f.fid)

    def layout(self):
        """[(field, start, length)] in packing order, independent of fcp."""
        out, pos = [], 0
        for f in self.ordered():
            out.append((f, pos, f.bits))
            pos += f.bits
        return out

    def total_bits(self):
        return sum(f.bits for f in self.fields)

    def dlc(self):
        return (self.total_bits() + 7) // 8

    def snake(self):
        return "".join("_" + c.lower() if c.isupper() else c for c in self.name).lstrip("_")


def enum_bits(values):
    m = max(values)
    return max(1, m.bit_length())


def schema_text(enums, messages):
    out = ['version: "3"', ""]
    for name, members in enums:
        out.append(f"enum {name} {{")
        for label, value in members:
            out.append(f"    {label} = {value},")
        out.append("}")
        out.append("")
    for m in messages:
        out.append(f"struct {m.name} {{")
        for f in m.fields:
            out.append(f"    {f.name} @{f.fid}: {f.type_text()},")
        out.append("}")
        out.append("")
        out.append(f"impl can for {m.name} {{")
        out.append(f"    id: {m.can_id},")
        if m.device is not None:
            out.append(f'    device: "{m.device}",')
        if m.big_endian:
            for f in m.fields:
                out.append(f"    signal {f.name} {{")
                out.append('        endianness: "big",')
                out.append("    },")
        out.append("}")
        out.append("")
    return "\n".join(out)


# --------------------------------------------------------------------------
# Values
# --------------------------------------------------------------------------


def f32_bits(x):
    return struct.unpack("<I", struct.pack("<f", x))[0]


def f64_bits(x):
    return struct.unpack("<Q", struct.pack("<d", x))[0]


def bits_f32(b):
    return struct.unpack("<f", struct.pack("<I", b))[0]


def bits_f64(b):
    return struct.unpack("<d", struct.pack("<Q", b))[0]


def field_values(f, rng, n):
    """Return n raw values: python ints for ints/enums, IEEE bit patterns for floats."""
    if f.kind == "u":
        top = (1 << f.bits) - 1
        base = [0, 1 & top, top, 1 << (f.bits - 1), top // 3, top - (top // 3)]
        while len(base) < n:
            base.append(rng.randint(0, top))
    elif f.kind == "i":
        lo, hi = -(1 << (f.bits - 1)), (1 << (f.bits - 1)) - 1
        base = [0, -1, lo, hi, min(1, hi), hi // 3 if hi else 0]
        while len(base) < n:
            base.append(rng.randint(lo, hi))
    elif f.kind == "enum":
        vals = [v for _, v in f.enum[1]]
        base = list(vals)
        while len(base) < n:
            base.append(rng.choice(vals))
    elif f.kind == "f32":
        base = [f32_bits(x) for x in (0.0, 1.5, -2.25, 3.4028234663852886e38, float("inf"), float("-inf"), -0.0)]
        base.append(0x00000001)  # smallest denormal
        while len(base) < n:
            b = rng.getrandbits(32)
            if (b >> 23) & 0xFF == 0xFF:  # skip NaN/inf payloads
                b &= ~(1 << 30)
            base.append(b)
    elif f.kind == "f64":
        base = [f64_bits(x) for x in (0.0, 1.5, -2.25, 1.7976931348623157e308, float("inf"), float("-inf"), -0.0)]
        base.append(0x0000000000000001)
        while len(base) < n:
            b = rng.getrandbits(64)
            if (b >> 52) & 0x7FF == 0x7FF:
                b &= ~(1 << 62)
            base.append(b)
    rng.shuffle(base)
    return base[:n]


def raw_to_wire(f, raw):
    """Unsigned bit pattern of width f.bits that the layout packing stores."""
    return raw & ((1 << f.bits) - 1)


def expected_frame(m, row):
    """row: dict field name -> raw value.  Returns 8 data bytes."""
    word = 0
    for f, start, length in m.layout():
        wire = raw_to_wire(f, row[f.name])
        if m.big_endian:
            # only used for single full-width byte-aligned signals at bit 0
            wire = int.from_bytes(wire.to_bytes(length // 8, "little"), "big")
        word |= wire << start
    return word.to_bytes(8, "little")


# --------------------------------------------------------------------------
# C driver generation
# --------------------------------------------------------------------------


def c_u64(v):
    return "0x%016xULL" % (v & 0xFFFFFFFFFFFFFFFF)


def driver_source(messages, tables):
    devices = sorted({m.device or "global" for m in messages})
    out = [
        "#include <stdio.h>",
        "#include <string.h>",
        "#include <stdint.h>",
        "#include <stdbool.h>",
        '#include "can_frame.h"',
    ]
    for d in devices:
        out.append(f'#include "{d}_can.h"')
    for m in messages:
        rows = tables[m.name]
        fields = m.ordered()
        sn = m.snake()
        dev = m.device or "global"
        out.append(f"static void run_{sn}(void) {{")
        out.append(f"    static const uint64_t vals[{len(rows)}][{len(fields)}] = {{")
        for row in rows:
            out.append("        {" + ", ".join(c_u64(row[f.name]) for f in fields) + "},")
        out.append("    };")
        out.append(f"    for (unsigned r = 0; r < {len(rows)}; r++) {{")
        out.append(f"        CanMsg{m.name} m;")
        out.append("        memset(&m, 0, sizeof m);")
        for k, f in enumerate(fields):
            if f.kind == "f32":
                out.append(f"        {{ uint32_t b = (uint32_t)vals[r][{k}]; memcpy(&m.{f.name}, &b, 4); }}")
            elif f.kind == "f64":
                out.append(f"        {{ uint64_t b = vals[r][{k}]; memcpy(&m.{f.name}, &b, 8); }}")
            else:
                out.append(f"        m.{f.name} = ({f.c_scalar()})(int64_t)vals[r][{k}];")
        # static type expectations of the generated struct
        for f in fields:
            out.append(f"        {{ {f.c_scalar()} *p = &m.{f.name}; (void)p; }}")
        out.append(f"        CanFrame fr = can_encode_msg_{sn}(&m);")
        out.append(f'        printf("{m.name} %u %u %u %d ", r, (unsigned)fr.id, (unsigned)fr.dlc, (int)can_is_{dev}_msg(&fr));')
        out.append('        for (int i = 0; i < 8; i++) printf("%02x", fr.data[i]);')
        out.append(f"        CanMsg{m.name} d = can_decode_msg_{sn}(&fr);")
        for f in fields:
            if f.kind == "f32":
                out.append(f'        {{ uint32_t b; memcpy(&b, &d.{f.name}, 4); printf(" %llx", (unsigned long long)b); }}')
            elif f.kind == "f64":
                out.append(f'        {{ uint64_t b; memcpy(&b, &d.{f.name}, 8); printf(" %llx", (unsigned long long)b); }}')
            else:
                out.append(f'        printf(" %llx", (unsigned long long)(int64_t)d.{f.name});')
        out.append('        printf("\\n");')
        # decode must also be repeatable / not depend on hidden state
        out.append(f"        CanMsg{m.name} d2 = can_decode_msg_{sn}(&fr);")
        for f in fields:
            out.append(f'        if (memcmp(&d.{f.name}, &d2.{f.name}, sizeof d.{f.name}) != 0) printf("UNSTABLE\\n");')
        out.append("    }")
        out.append("}")
    out.append("int main(void) {")
    for m in messages:
        out.append(f"    run_{m.snake()}();")
    out.append("    return 0;")
    out.append("}")
    return "\n".join(out) + "\n"


def generate_files(fcp, outdir):
    """Run the C generator and write its files (same as CodeGenerator.gen)."""
    results = Generator().generate(fcp, {"output": Path(outdir)})
    for r in results:
        check(r["type"] == "file", "generator result type is file")
        Path(r["path"]).write_text(str(r["contents"]))
    return results


def to_signed(v, bits=64):
    v &= (1 << bits) - 1
    return v - (1 << bits) if v >> (bits - 1) else v


def run_batch(tag, enums, messages, rng, workdir, nvals=14, opt="-O0"):
    text = schema_text(enums, messages)
    fcp = get_fcp_from_string(text).unwrap()
    outdir = os.path.join(workdir, tag)
    os.makedirs(outdir)
    results = generate_files(fcp, outdir)

    # the verifier checks the plug-in registers accept every in-subset schema
    v = Verifier()
    Generator().register_checks(v)
    res = v.verify(fcp)
    check(res.is_ok(), f"{tag}: plug-in checks accept the schema")

    tables = {}
    for m in messages:
        cols = {f.name: field_values(f, rng, nvals) for f in m.fields}
        tables[m.name] = [{name: col[i] for name, col in cols.items()} for i in range(nvals)]

    Path(outdir, "driver.c").write_text(driver_source(messages, tables))
    cc = pick_cc()
    csrc = sorted(str(p) for p in Path(outdir).glob("*.c"))
    exe = os.path.join(outdir, "driver")
    cp = subprocess.run([cc, opt, "-w", "-I", outdir, "-o", exe] + csrc, capture_output=True, text=True)
    check(cp.returncode == 0, f"{tag}: generated C compiles ({cp.stderr[:400]})")
    if cp.returncode != 0:
        return messages, results
    rp = subprocess.run([exe], capture_output=True, text=True)
    check(rp.returncode == 0, f"{tag}: driver ran")
    by_name = {m.name: m for m in messages}
    seen = 0
    for line in rp.stdout.splitlines():
        parts = line.split()
        if parts[0] == "UNSTABLE":
            check(False, f"{tag}: decode not repeatable")
            continue
        m = by_name[parts[0]]
        r = int(parts[1])
        row = tables[m.name][r]
        where = f"{tag}:{m.name}[{r}] {row}"
        check(int(parts[2]) == m.can_id, f"{where}: id {parts[2]} != {m.can_id}")
        check(int(parts[3]) == m.dlc(), f"{where}: dlc {parts[3]} != {m.dlc()}")
        check(parts[4] == "1", f"{where}: can_is_<device>_msg")
        exp = expected_frame(m, row).hex()
        if m.big_endian:
            # bytes past the DLC are not part of the frame; the byte-swapped
            # signed encoders leave sign bits there today, so only the DLC
            # bytes are pinned for big-endian signals.
            n = 2 * m.dlc()
            check(parts[5][:n] == exp[:n], f"{where}: data {parts[5][:n]} != {exp[:n]}")
        else:
            check(parts[5] == exp, f"{where}: data {parts[5]} != {exp}")
        for f, got in zip(m.ordered(), parts[6:]):
            got = int(got, 16)
            raw = row[f.name]
            if f.kind == "f32":
                ok = bits_f32(got & 0xFFFFFFFF) == bits_f32(raw)
            elif f.kind == "f64":
                ok = bits_f64(got) == bits_f64(raw)
            elif f.kind == "i":
                ok = to_signed(got) == raw
            else:
                ok = got == raw
            check(ok, f"{where}: decode {f.name} got {got:#x} want {raw:#x}")
        seen += 1
    check(seen == len(messages) * nvals, f"{tag}: saw {seen} rows")
    return messages, results


# --------------------------------------------------------------------------
# Random flat CAN schemas
# --------------------------------------------------------------------------


def random_message(rng, name, can_id, device, enums, shape=None):
    """shape: optional list of (kind,bits|enum) to force; else random."""
    fields = []
    if shape is None:
        n = rng.randint(1, 8)
        budget = 64
        shape = []
        for i in range(n):
            left = n - i - 1
            room = budget - left  # leave at least one bit for the others
            choices = ["u", "u", "i", "i"]
            if enums:
                choices.append("enum")
            if room >= 32:
                choices.append("f32")
            if room >= 64:
                choices.append("f64")
            kind = rng.choice(choices)
            if kind == "f32":
                spec = ("f32", 32)
            elif kind == "f64":
                spec = ("f64", 64)
            elif kind == "enum":
                fit = [e for e in enums if enum_bits([v for _, v in e[1]]) <= room]
                if not fit:
                    spec = ("u", rng.randint(1, room))
                else:
                    e = rng.choice(fit)
                    spec = ("enum", e)
            else:
                # bias to small and to byte-edge widths so many offsets are unaligned
                bits = rng.choice([1, 2, 3, 5, 7, 8, 9, 12, 15, 16, 17, 24, 31, 32, 33, 48, 63, 64, rng.randint(1, 64)])
                bits = max(1, min(bits, room))
                spec = (kind, bits)
            shape.append(spec)
            budget -= spec[1] if spec[0] != "enum" else enum_bits([v for _, v in spec[1][1]])
    ids = list(range(len(shape)))
    rng.shuffle(ids)
    for k, spec in enumerate(shape):
        if spec[0] == "enum":
            e = spec[1]
            fields.append(Field(f"s{k}", ids[k], "enum", enum_bits([v for _, v in e[1]]), e))
        else:
            fields.append(Field(f"s{k}", ids[k], spec[0], spec[1]))
    return Message(name, can_id, device, fields)


def make_enums(tag):
    return [
        (f"{tag}Bool", [(f"{tag}_OFF", 0), (f"{tag}_ON", 1)]),
        (f"{tag}Zero", [(f"{tag}_ONLY", 0)]),
        (f"{tag}Tri", [(f"{tag}_T0", 0), (f"{tag}_T1", 1), (f"{tag}_T2", 2)]),
        (f"{tag}Byte", [(f"{tag}_B0", 0), (f"{tag}_B7", 7), (f"{tag}_B255", 255)]),
        (f"{tag}Wide", [(f"{tag}_W3", 3), (f"{tag}_W256", 256)]),
        (f"{tag}Huge", [(f"{tag}_H1", 1), (f"{tag}_HMAX", 2147483647)]),
    ]


def fixed_shapes(enums):
    e = {name[1:]: (name, members) for name, members in enums}
    return [
        [("u", 64)],
        [("i", 64)],
        [("f64", 64)],
        [("f32", 32), ("f32", 32)],
        [("u", 1)] * 8,
        [("i", 1), ("f32", 32), ("i", 31)],
        [("u", 3), ("i", 12), ("enum", e["Tri"]), ("f32", 32), ("enum", e["Byte"])],
        [("enum", e["Huge"]), ("enum", e["Wide"]), ("enum", e["Zero"]), ("enum", e["Bool"]), ("i", 22)],
        [("u", 7), ("u", 9), ("u", 17), ("u", 31)],
        [("i", 33), ("u", 31)],
        [("u", 63), ("i", 1)],
        [("i", 2), ("i", 7), ("i", 8), ("i", 9), ("i", 15), ("i", 16), ("i", 6), ("u", 1)],
    ]


def run_random_schemas(workdir, seed=0xC06, batches=6, per_batch=6, nvals=14):
    rng = random.Random(seed)
    devices = ["ecu", "bms", None, "dash_board"]
    can_id = 1
    all_results = []
    # fixed corner shapes first
    enums = make_enums("F")
    shapes = fixed_shapes(enums)
    for b in range(0, len(shapes), 6):
        msgs = []
        for k, shape in enumerate(shapes[b : b + 6]):
            msgs.append(random_message(rng, f"Fx{b + k}", can_id, devices[(b + k) % 4], enums, shape))
            can_id += 1
        all_results.append(run_batch(f"fixed{b}", enums, msgs, rng, workdir, nvals, opt="-O2" if b else "-O0"))
    for b in range(batches):
        enums = make_enums(f"R{b}") if b % 3 != 2 else []
        msgs = []
        for k in range(per_batch):
            msgs.append(random_message(rng, f"Rb{b}m{k}", can_id, rng.choice(devices), enums))
            can_id += 1
        all_results.append(run_batch(f"rand{b}", enums, msgs, rng, workdir, nvals, opt="-O2" if b % 2 else "-O0"))
    return all_results


def run_big_endian(workdir):
    rng = random.Random(5)
    shapes = [("u", 8), ("u", 16), ("u", 32), ("u", 64), ("i", 8), ("i", 16), ("i", 32), ("i", 64), ("f32", 32), ("f64", 64)]
    msgs = []
    for k, (kind, bits) in enumerate(shapes):
        m = Message(f"Be{k}", 100 + k, "ecu", [Field("val", 0, kind, bits)], big_endian=True)
        msgs.append(m)
    run_batch("bigendian", [], msgs, rng, workdir, 12)


# --------------------------------------------------------------------------
# Generated text of the repository's own example schemas must not move
# --------------------------------------------------------------------------

REPO_SCHEMAS = [
    "plugins/fcp_can_c/tests/001_basic_struct/test.fcp",
    "plugins/fcp_can_c/tests/002_nested_enum/test.fcp",
    "plugins/fcp_can_c/tests/003_msg_scheduling/test.fcp",
    "plugins/fcp_can_c/tests/004_little_endian/test.fcp",
    "plugins/fcp_can_c/tests/005_big_endian/test.fcp",
    "plugins/fcp_can_c/example/example.fcp",
]


def device_file_digests(workdir):
    """sha256 of every generated *_can.[ch] (not the static runtime files)."""
    out = {}
    for rel in REPO_SCHEMAS:
        fcp = get_fcp(os.path.join(FCP_ROOT, rel)).unwrap()
        for r in Generator().generate(fcp, {"output": Path(tempfile.mkdtemp(dir=workdir))}):
            base = os.path.basename(str(r["path"]))
            if base.endswith("_can.h") or base.endswith("_can.c"):
                out[rel.split("/")[-2] + "/" + base] = hashlib.sha256(str(r["contents"]).encode()).hexdigest()[:16]
    return out

GOLDEN_DIGESTS = {
    "001_basic_struct/ecu_can.c": "280ef4559c370f1c",
    "001_basic_struct/ecu_can.h": "562f4be4cafcb2dd",
    "002_nested_enum/ecu_can.c": "b329bf67a6c4ab47",
    "002_nested_enum/ecu_can.h": "255b2ceb21f46e4a",
    "002_nested_enum/global_can.h": "540ca94ec4af806f",
    "003_msg_scheduling/ecu_can.c": "a2326f90f7e60c21",
    "003_msg_scheduling/ecu_can.h": "f772f1e0304fb407",
    "004_little_endian/ecu_can.c": "a4507b18f01dee92",
    "004_little_endian/ecu_can.h": "052b4b2d8f405d63",
    "005_big_endian/ecu_can.c": "336312d88dfa8552",
    "005_big_endian/ecu_can.h": "c5a561965af5fd40",
    "example/ecu_can.c": "70f8941e2fb15024",
    "example/ecu_can.h": "fc9af6f545b11cc5",
}

# --------------------------------------------------------------------------
# Extra: the packed encoder's layout on arrays / nested shapes / error inputs
# --------------------------------------------------------------------------

from fcp.encoding import make_encoder, PackedEncoderContext  # noqa: E402
from fcp.specs.type import (  # noqa: E402
    ArrayType,
    EnumType,
    StringType,
    StructType,
    UnsignedType,
    SignedType,
    FloatType,
    DoubleType,
)

LAYOUT_SRC = """version: "3"
enum E { A = 0, B = 5, }
struct Inner { a @0: u3, b @1: [u5, 3], }
struct S { x @0: [u8, 4], y @1: [[i12, 2], 3], z @2: E, w @3: [E, 5], v @4: Inner, q @5: [f32,2], r @6: f64, }
impl can for S { id: 1, }
struct T { k @0: u8, bad @1: [Inner, 2], }
impl can for T { id: 2, }
struct U { k @0: u8, bad @1: str, }
impl can for U { id: 3, }
struct V { k @0: u8, bad @1: [[u8], 3], }
impl can for V { id: 4, }
struct W { k @0: u8, bad @1: Optional[u8], }
impl can for W { id: 5, }
"""

ERR = "Error computing type length for type "
EXPECTED_LAYOUT = {
    (False, "S"): [("x", 0, 32), ("y", 32, 72), ("z", 104, 3), ("w", 107, 15), ("v::a", 122, 3), ("v::b", 125, 15), ("q", 140, 64), ("r", 204, 64)],
    (False, "T"): ("ValueError", ERR + "StructType(name='Inner', type='Struct')"),
    (False, "U"): ("ValueError", ERR + "StringType(type='str')"),
    (False, "V"): ("ValueError", ERR + "DynamicArrayType(underlying_type=UnsignedType(name='u8', type='unsigned'), type='DynamicArray')"),
    (False, "W"): ("ValueError", ERR + "OptionalType(underlying_type=UnsignedType(name='u8', type='unsigned'), type='Optional')"),
    (True, "S"): [("x_0", 0, 8), ("x_1", 8, 8), ("x_2", 16, 8), ("x_3", 24, 8)]
    + [(f"y_{i}_{j}", 32 + 12 * (2 * i + j), 12) for i in range(3) for j in range(2)]
    + [("z", 104, 3)]
    + [(f"w_{i}", 107 + 3 * i, 3) for i in range(5)]
    + [("v::a", 122, 3)]
    + [(f"v::b_{i}", 125 + 5 * i, 5) for i in range(3)]
    + [("q_0", 140, 32), ("q_1", 172, 32), ("r", 204, 64)],
    (True, "T"): [("k", 0, 8), ("bad_0::a", 8, 3), ("bad_0::b_0", 11, 5), ("bad_0::b_1", 16, 5), ("bad_0::b_2", 21, 5), ("bad_1::a", 26, 3), ("bad_1::b_0", 29, 5), ("bad_1::b_1", 34, 5), ("bad_1::b_2", 39, 5)],
    (True, "U"): ("ValueError", ERR + "StringType(type='str')"),
    (True, "V"): ("ValueError", ERR + "DynamicArrayType(underlying_type=UnsignedType(name='u8', type='unsigned'), type='DynamicArray')"),
    (True, "W"): ("ValueError", ERR + "OptionalType(underlying_type=UnsignedType(name='u8', type='unsigned'), type='Optional')"),
}


def outcome(fn):
    try:
        return fn()
    except Exception as e:  # noqa: BLE001
        return (type(e).__name__, str(e))


def check_encoder_layouts():
    fcp = get_fcp_from_string(LAYOUT_SRC).unwrap()
    for unroll in (False, True):
        enc = make_encoder("packed", fcp, PackedEncoderContext().with_unroll_arrays(unroll))
        # two passes over the same encoder: generate() must be repeatable
        for _ in range(2):
            for impl in fcp.get_matching_impls("can"):
                got = outcome(lambda: [(p.name, p.bitstart, p.bitlength) for p in enc.generate(impl)])
                check(got == EXPECTED_LAYOUT[(unroll, impl.name)], f"layout unroll={unroll} {impl.name}: {got}")

    enc = make_encoder("packed", fcp, PackedEncoderContext())
    rng = random.Random(7)

    def ref_len(t):
        if isinstance(t, ArrayType):
            return t.size * ref_len(t.underlying_type)
        if isinstance(t, EnumType):
            return {"E": 3}[t.name]
        return int(t.name[1:])

    leaves = [UnsignedType("u1"), UnsignedType("u7"), UnsignedType("u64"), SignedType("i12"), SignedType("i33"), FloatType(), DoubleType(), EnumType("E")]
    for _ in range(300):
        t = rng.choice(leaves)
        for _d in range(rng.randint(0, 4)):
            t = ArrayType(t, rng.choice([0, 1, 2, 3, 5, 8, 64]))
        got = outcome(lambda: enc._get_type_length(fcp, t))
        check(got == ref_len(t) and type(got) is int, f"type length of {t}: {got} != {ref_len(t)}")

    cases = [
        (ArrayType(EnumType("Nope"), 2), ("UnwrapError", "Called `Maybe.unwrap()` on a `Nothing` value")),
        (EnumType("Nope"), ("UnwrapError", "Called `Maybe.unwrap()` on a `Nothing` value")),
        (ArrayType(ArrayType(StringType(), 2), 0), ("ValueError", ERR + "StringType(type='str')")),
        (StructType("S"), ("ValueError", ERR + "StructType(name='S', type='Struct')")),
        (ArrayType(StructType("S"), 3), ("ValueError", ERR + "StructType(name='S', type='Struct')")),
        (ArrayType(UnsignedType("u7"), 0), 0),
        (ArrayType(ArrayType(ArrayType(EnumType("E"), 3), 1), 7), 63),
    ]
    for t, want in cases:
        got = outcome(lambda: enc._get_type_length(fcp, t))
        check(got == want, f"type length of {t}: {got} != {want}")


def check_size_errors():
    """The plug-in's size check reports exactly the advertised errors."""
    src = (
        'version: "3"\nstruct Big { a @0: u64, b @1: u1, }\nimpl can for Big { id: 1, }\n'
        "struct Arr { a @0: [u16, 5], }\nimpl can for Arr { id: 2, }\n"
        "struct Fit { a @0: [u16, 4], }\nimpl can for Fit { id: 3, }\n"
        "struct Txt { a @0: str, }\nimpl can for Txt { id: 4, }\n"
    )
    fcp = get_fcp_from_string(src).unwrap()
    msgs = {}
    for impl in fcp.get_matching_impls("can"):
        v = Verifier()
        Generator().register_checks(v)
        one = get_fcp_from_string(src).unwrap()
        one.impls = [i for i in one.impls if i.name == impl.name]
        res = v.verify(one)
        msgs[impl.name] = None if res.is_ok() else repr(res.err())
    check(msgs["Fit"] is None, f"Fit accepted: {msgs['Fit']}")
    check(msgs["Big"] is not None and "Impl Big is way too big at 65 bits" in msgs["Big"], f"Big: {msgs['Big']}")
    check(msgs["Arr"] is not None and "Impl Arr is way too big at 80 bits" in msgs["Arr"], f"Arr: {msgs['Arr']}")
    check(
        msgs["Txt"] is not None and "Impl Txt cannot be packed into a CAN frame: " + ERR + "StringType(type='str')" in msgs["Txt"],
        f"Txt: {msgs['Txt']}",
    )


def main():
    with tempfile.TemporaryDirectory(prefix="c06demo") as wd:
        run_random_schemas(wd)
        run_big_endian(wd)
        check_encoder_layouts()
        check_size_errors()
        digests = device_file_digests(wd)
        check(digests == GOLDEN_DIGESTS, f"generated device files changed: {digests}")
    if FAILURES:
        print(f"FAIL ({len(FAILURES)} mismatches)")
        return 1
    print("PASS")
    return 0


if __name__ == "__main__":
    sys.exit(main())
