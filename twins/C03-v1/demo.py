#!/venv/bin/python
"""Demo for property C03 (generated C++ static codec speaks the canonical wire format).

Generates the C++ headers for SCHEMA with the fcp_cpp plug-in found on
PYTHONPATH, compiles a small driver (g++ -std=c++17) that encodes every case
through StaticSchema::EncodeJson and decodes the canonical bytes through
StaticSchema::DecodeJson, and compares both with the Python codec (fcp.serde).
Prints PASS / exits 0 when everything agrees, FAIL / exits 1 otherwise.
"""
import json, os, shutil, subprocess, sys, tempfile
from pathlib import Path

from fcp.parser import get_fcp_from_string
from fcp.serde import encode as py_encode, decode as py_decode
from fcp_cpp import Generator

DRIVER = r'''
#include <cmath>
#include <limits>
#include <iostream>
#include <fstream>
#include <stdexcept>
#include "fcp.h"
using json = nlohmann::json;
int main(int argc, char** argv) {
    std::ifstream f(argv[1]);
    json cases = json::parse(f);
    json out = json::array();
    fcp::StaticSchema schema{};
    for (auto& c : cases) {
        json r;
        try {
        auto bytes = schema.EncodeJson(c["name"].get<std::string>(), c["value"]);
        if (!bytes.has_value()) { r["error"] = "no encoder"; out.push_back(r); continue; }
        r["bytes"] = bytes.value();
        std::vector<std::uint8_t> wire = c["wire"].get<std::vector<std::uint8_t>>();
        auto dec = schema.DecodeJson(c["name"].get<std::string>(), wire);
        r["decoded"] = dec.has_value() ? dec.value() : json();
        } catch (const std::exception& e) { r = json(); r["error"] = std::string("exception: ") + e.what(); }
        out.push_back(r);
    }
    std::cout << out.dump() << std::endl;
    return 0;
}
'''

def run(schema, cases):
    """cases: list of (struct_name, value dict[, canonical bytes]). Returns list of problems."""
    d = Path(tempfile.mkdtemp(prefix="c03demo"))
    try:
        return _run(d, schema, cases)
    finally:
        shutil.rmtree(d, ignore_errors=True)


def _run(d, schema, cases):
    fcp = get_fcp_from_string(schema).unwrap()
    for r in Generator().generate(fcp, {"output": str(d)}):
        (d / Path(r["path"]).name).write_text(str(r["contents"]))
    (d / "main.cpp").write_text(DRIVER)
    cc = subprocess.run(["g++", "-std=c++17", "-O0", "-w", "-isystem", "/root/miniconda/include",
                         "-I", str(d), str(d / "main.cpp"), "-o", str(d / "main")],
                        capture_output=True, text=True)
    if cc.returncode != 0:
        return ["generated C++ does not compile:\n" + cc.stderr[:3000]]
    jcases = []
    for name, value, *expected in cases:
        # canonical bytes: from the Python codec unless given explicitly
        wire = list(expected[0]) if expected else list(py_encode(fcp, name, value))
        jcases.append({"name": name, "value": value, "wire": wire})
    (d / "cases.json").write_text(json.dumps(jcases))
    p = subprocess.run([str(d / "main"), str(d / "cases.json")], capture_output=True, text=True)
    if p.returncode != 0:
        return ["driver crashed: rc=%d %s" % (p.returncode, p.stderr[:1000])]
    res = json.loads(p.stdout)
    problems = []
    for c, r in zip(jcases, res):
        if "error" in r:
            problems.append("%s: %s" % (c["name"], r["error"])); continue
        if r["bytes"] != c["wire"]:
            problems.append("%s %s: C++ bytes %s != canonical %s" % (c["name"], c["value"], r["bytes"], c["wire"]))
        dec = r["decoded"]
        if dec is not None:
            dec = {k: v for k, v in dec.items() if k != "__is_method_input"}
        if dec != c["value"]:
            problems.append("%s: C++ decode of canonical bytes %s != %s" % (c["name"], dec, c["value"]))
    return problems


SCHEMA = """version: "3"

struct Grid {
    rows @0: [[u8, 2], 3],
    tail @1: u3,
}

struct Nested {
    a @0: Optional[[u8]],
    c @1: [Optional[u5], 2],
    d @2: u3,
}
"""

CASES = [
    ("Grid", {"rows": [[1, 2], [3, 4], [5, 6]], "tail": 5}),
    ("Nested", {"a": [1, 2, 3], "c": [17, None], "d": 5}),
    ("Nested", {"a": None, "c": [None, 31], "d": 0}),
]

if __name__ == "__main__":
    problems = run(SCHEMA, CASES)
    for p in problems:
        print(p)
    if problems:
        print("FAIL")
        sys.exit(1)
    print("PASS")
    sys.exit(0)
