#!/venv/bin/python
"""Differential test for property C19.

Generated C message scheduler honours periods over every call history.

For a spread of devices (1..4 messages, periods in {-1, 1..N}) the C code is
generated with the fcp_can_c plug-in found on PYTHONPATH, compiled together with
a small harness, and driven through many call histories (every history runs in
a forked child so the scheduler's static state starts from zero).  Every frame
the scheduler hands to the send callback is compared with an independent
Python model of the specification:

  a message with period P is transmitted on a call exactly when the timestamp
  differs from the previous call's and at least P time units (mod 2**32) have
  elapsed since that message's previous transmission (time 0 for the first);
  messages without a period are never sent; every transmitted frame is the
  encoding of the device's *current* value of that message.

Exit status 0 and "PASS" when everything agrees.
"""

import itertools
import os
import random
import subprocess
import sys
import tempfile
from pathlib import Path

from fcp.parser import get_fcp
from fcp_can_c import Generator

FCP_ROOT = os.environ.get("FCP_ROOT", "/tmp/twin-C19")  # only informational
CC = os.environ.get("CC", "gcc")
M32 = 1 << 32

# Field shapes (type names) that the messages cycle through; widths in bits.
SHAPES = [
    [("a", 8)],
    [("a", 8), ("b", 16)],
    [("a", 4), ("b", 12)],
    [("a", 16), ("b", 8), ("c", 8)],
    [("a", 3), ("b", 7), ("c", 13)],
]

# (device name, [(message pascal name, period)], with_enum_and_second_device)
DEVICES = [
    ("ecu", [5], False),
    ("ecu", [-1], False),
    ("ecu", [1], False),
    ("bms", [1, 2], False),
    ("bms", [3, -1], False),
    ("inverter", [7, 7], False),
    ("ecu", [2, 5, -1], False),
    ("dash", [4, 1, 6], True),
    ("ecu", [-1, -1, 3, 10], False),
    ("ecu", [15, 20, -1, 1], True),
    ("pdu", [8, 3, 3, -1], False),
    ("ecu", [20, 19, 2, 12], False),
]


def message_names(n, tag):
    base = ["Pedals", "Shutdown", "Button", "WheelSpeed"]
    return [f"{base[i]}{tag}" for i in range(n)]


def snake(pascal):
    return "".join("_" + c.lower() if c.isupper() else c for c in pascal).lstrip("_")


def make_schema(device, periods, extra):
    """Return (fcp source, [message descriptions])."""
    out = ['version: "3"', ""]
    msgs = []
    if extra:
        out += ["enum Mode {", "    Off = 0,", "    On = 1,", "    Fault = 2,", "}", ""]
    names = message_names(len(periods), "")
    for i, (name, period) in enumerate(zip(names, periods)):
        shape = SHAPES[(i + len(periods)) % len(SHAPES)]
        out.append(f"struct {name} {{")
        for k, (fname, width) in enumerate(shape):
            out.append(f"    {fname} @{k}: u{width},")
        out.append("}")
        out.append("")
        out.append(f"impl can for {name} {{")
        out.append(f"    id: {10 + i},")
        out.append(f'    device: "{device}",')
        if period != -1 or i % 2 == 0:
            # half of the period-less messages spell it out, half omit it
            out.append(f"    period: {period},")
        out.append("}")
        out.append("")
        msgs.append(
            {"name": name, "snake": snake(name), "id": 10 + i, "period": period, "shape": shape}
        )
    if extra:
        # a second device and a global message, which must not disturb `device`
        out += [
            "struct Other {",
            "    m @0: Mode,",
            "    v @1: u8,",
            "}",
            "",
            "impl can for Other {",
            "    id: 100,",
            '    device: "other_node",',
            "    period: 2,",
            "}",
            "",
            "struct Heartbeat {",
            "    n @0: u8,",
            "}",
            "",
            "impl can for Heartbeat {",
            "    id: 101,",
            "    period: 3,",
            "}",
            "",
        ]
    return "\n".join(out), msgs


def field_value(call_idx, msg_idx, field_idx, width):
    """Value the harness stores in the device struct before call `call_idx`."""
    v = call_idx * 1009 + msg_idx * 131 + field_idx * 29 + 5
    return v & ((1 << width) - 1)


def expected_frame(msg, msg_idx, call_idx):
    word = 0
    pos = 0
    for k, (_, width) in enumerate(msg["shape"]):
        word |= field_value(call_idx, msg_idx, k, width) << pos
        pos += width
    dlc = (pos + 7) // 8
    return msg["id"], dlc, word.to_bytes(8, "little").hex()


def model(msgs, times):
    """The specification: list (per call) of list of (id, dlc, datahex)."""
    last_call = 0
    last_send = [0] * len(msgs)
    res = []
    for k, t in enumerate(times):
        sent = []
        if t != last_call:
            last_call = t
            for i, m in enumerate(msgs):
                p = m["period"]
                if p != -1 and (t - last_send[i]) % M32 >= p:
                    sent.append(expected_frame(m, i, k))
                    last_send[i] = t
        res.append(sent)
    return res


def harness_source(device, msgs):
    dev_snake = device
    dev_pascal = "".join(x.capitalize() for x in device.split("_"))
    lines = [
        "#include <stdio.h>",
        "#include <stdlib.h>",
        "#include <string.h>",
        "#include <stdint.h>",
        "#include <unistd.h>",
        "#include <sys/wait.h>",
        f'#include "{dev_snake}_can.h"',
        "",
        f"static CanDevice{dev_pascal} dev;",
        "static int call_idx;",
        "",
        "static void set_values(int k) {",
    ]
    for i, m in enumerate(msgs):
        for f, (fname, width) in enumerate(m["shape"]):
            mask = (1 << width) - 1
            lines.append(
                f"    dev.{m['snake']}.{fname} = (uint32_t)(k * 1009 + {i} * 131 + {f} * 29 + 5) & {mask}u;"
            )
    lines += [
        "}",
        "",
        "/* fresh encoding of the current device value of the message with this id */",
        "static CanFrame encode_current(unsigned id) {",
        "    CanFrame none; memset(&none, 0xEE, sizeof none);",
        "    switch (id) {",
    ]
    for m in msgs:
        lines.append(
            f"    case CAN_MSG_ID_{m['snake'].upper()}: return can_encode_msg_{m['snake']}(&dev.{m['snake']});"
        )
    lines += [
        "    default: return none;",
        "    }",
        "}",
        "",
        "static void sender(const CanFrame *f) {",
        "    CanFrame cur = encode_current(f->id);",
        "    int same = cur.id == f->id && cur.dlc == f->dlc && memcmp(cur.data, f->data, 8) == 0;",
        '    printf(" %d:%u:%u:", call_idx, (unsigned)f->id, (unsigned)f->dlc);',
        '    for (int i = 0; i < 8; i++) printf("%02x", f->data[i]);',
        '    printf(":%d:%d", same, (int)can_is_' + dev_snake + "_msg(f));",
        "}",
        "",
        "int main(void) {",
        "    static char line[1 << 16];",
        "    while (fgets(line, sizeof line, stdin)) {",
        "        pid_t pid = fork();",
        "        if (pid < 0) return 2;",
        "        if (pid == 0) {",
        "            char *p = line; char *end;",
        "            call_idx = 0;",
        '            printf("H");',
        "            for (;;) {",
        "                unsigned long long t = strtoull(p, &end, 10);",
        "                if (end == p) break;",
        "                p = end;",
        "                set_values(call_idx);",
        f"                can_send_{dev_snake}_msgs_scheduled(&dev, (uint32_t)t, sender);",
        "                call_idx++;",
        "            }",
        '            printf("\\n");',
        "            fflush(stdout);",
        "            _exit(0);",
        "        }",
        "        int st = 0;",
        "        if (waitpid(pid, &st, 0) < 0 || !WIFEXITED(st) || WEXITSTATUS(st) != 0) return 3;",
        "    }",
        "    return 0;",
        "}",
    ]
    return "\n".join(lines) + "\n"


def delta_alphabet(periods):
    ds = {0, 1}
    for p in periods:
        if p == -1:
            continue
        ds.update({max(p - 1, 0), p, p + 1, 2 * p})
    return sorted(ds)


def histories(periods, rng):
    """Call histories as lists of absolute 32-bit timestamps."""
    small = delta_alphabet(periods)
    real = [p for p in periods if p != -1] or [1]
    wrap = sorted(
        {M32 - 1, M32 - 2, 1 << 31, (1 << 31) - 1}
        | {M32 - p for p in real}
        | {M32 - p - 1 for p in real}
        | {M32 - 2 * p for p in real}
    )
    out = []

    def to_times(deltas, start=0):
        t = start
        ts = []
        for d in deltas:
            t = (t + d) % M32
            ts.append(t)
        return ts

    # exhaustive short histories over the small alphabet (length 1..3, or 4 if cheap)
    max_len = 4 if len(small) <= 7 else 3
    for n in range(1, max_len + 1):
        for ds in itertools.product(small, repeat=n):
            out.append(to_times(ds))
    # every short history that contains one wrap-around jump
    for n in range(1, 4):
        for pos in range(n):
            for w in wrap:
                for ds in itertools.product(small[: min(len(small), 5)], repeat=n - 1):
                    ds = list(ds)
                    ds.insert(pos, w)
                    out.append(to_times(ds))
    # histories that start just below the 32-bit boundary and run through it
    for start in (M32 - 1, M32 - 3, M32 - max(real), M32 - 2 * max(real) - 1):
        for n in range(1, 4):
            for ds in itertools.product(small[: min(len(small), 6)], repeat=n):
                out.append(to_times((start,) + ds))
    # long random histories
    for _ in range(400):
        n = rng.randint(5, 30)
        ds = [rng.choice(small) for _ in range(n)]
        if rng.random() < 0.3:
            ds[rng.randrange(n)] = rng.choice(wrap)
        out.append(to_times(ds))
    # steady 1-tick clock for a few periods: exact period spacing must show up
    out.append(list(range(0, 4 * max(real) + 3)))
    out.append(list(range(1, 4 * max(real) + 3)))
    return out


def parse_output(line, ncalls):
    assert line.startswith("H"), line
    res = [[] for _ in range(ncalls)]
    flags = []
    for tok in line[1:].split():
        k, fid, dlc, data, same, mine = tok.split(":")
        res[int(k)].append((int(fid), int(dlc), data))
        flags.append((int(same), int(mine)))
    return res, flags


def check_device(idx, device, periods, extra, workdir, rng):
    src, msgs = make_schema(device, periods, extra)
    d = Path(workdir) / f"dev{idx}"
    gen = d / "gen"
    gen.mkdir(parents=True)
    (d / "test.fcp").write_text(src)
    fcp = get_fcp(d / "test.fcp").unwrap()
    files = Generator().generate(fcp, {"output": gen})
    for f in files:
        Path(f["path"]).write_text(f["contents"])
    (d / "harness.c").write_text(harness_source(device, msgs))
    exe = d / "harness"
    csrc = [str(d / "harness.c"), str(gen / f"{device}_can.c"), str(gen / "can_signal_parser.c")]
    # a static binary forks much faster; fall back to a dynamic one if libc.a is missing
    for extra_flags in (["-static"], []):
        cp = subprocess.run(
            [CC, "-std=gnu11", "-O1", "-w", f"-I{gen}", "-o", str(exe)] + extra_flags + csrc + ["-lm"],
            capture_output=True,
            text=True,
        )
        if cp.returncode == 0:
            break
    if cp.returncode != 0:
        print(cp.stdout, cp.stderr)
        raise SystemExit(f"FAIL: generated code for device {device} {periods} does not compile")

    hs = histories(periods, rng)
    inp = "".join(" ".join(str(t) for t in h) + "\n" for h in hs)
    rp = subprocess.run([str(exe)], input=inp, capture_output=True, text=True)
    if rp.returncode != 0:
        raise SystemExit(f"FAIL: harness exited with {rp.returncode} for {device} {periods}")
    lines = rp.stdout.splitlines()
    if len(lines) != len(hs):
        raise SystemExit(f"FAIL: {len(lines)} result lines for {len(hs)} histories")

    nframes = 0
    for h, line in zip(hs, lines):
        got, flags = parse_output(line, len(h))
        want = model(msgs, h)
        if got != want:
            for k, (g, w) in enumerate(zip(got, want)):
                if g != w:
                    print(f"device {device} periods {periods} history {h}")
                    print(f"  call {k} (t={h[k]}): got {g}, expected {w}")
                    break
            raise SystemExit("FAIL: scheduler disagrees with the specification")
        if any(f != (1, 1) for f in flags):
            raise SystemExit(f"FAIL: frame is not the encoding of the current value: {h}")
        # derived guarantees, checked on the C output itself
        last = {}
        for k, frames in enumerate(got):
            ids = [f[0] for f in frames]
            if len(ids) != len(set(ids)):
                raise SystemExit(f"FAIL: message sent twice in one call: {h}")
            for fid in ids:
                m = next(m for m in msgs if m["id"] == fid)
                if m["period"] == -1:
                    raise SystemExit(f"FAIL: period-less message {fid} was sent: {h}")
                prev = last.get(fid, 0)
                if (h[k] - prev) % M32 < m["period"]:
                    raise SystemExit(f"FAIL: message {fid} sent twice within its period: {h}")
                last[fid] = h[k]
                nframes += 1
    return len(hs), nframes


def main():
    rng = random.Random(190019)
    total_h = total_f = 0
    with tempfile.TemporaryDirectory(prefix="c19demo") as workdir:
        for idx, (device, periods, extra) in enumerate(DEVICES):
            nh, nf = check_device(idx, device, periods, extra, workdir, rng)
            print(f"device {device:9s} periods {str(periods):18s} histories {nh:6d} frames {nf:7d} ok")
            total_h += nh
            total_f += nf
    print(f"checked {len(DEVICES)} devices, {total_h} call histories, {total_f} transmitted frames")
    print("PASS")
    return 0


if __name__ == "__main__":
    sys.exit(main())
