#!/venv/bin/python
"""C01 demo 1: Python codec round-trip with optionals that are followed by more data.

Exits 0 / prints PASS when decode(encode(v)) == v for all the exercised values,
exits 1 / prints FAIL otherwise.
"""
import sys

from fcp.parser import get_fcp_from_string
from fcp.serde import encode, decode
from fcp.verifier import make_general_verifier

SCHEMA = """version: "3"

struct Inner {
    a @0: Optional[u16],
    b @1: u8,
}

struct Msg {
    id @0: u8,
    opt @1: Optional[u8],
    tail @2: u16,
    items @3: [Optional[u8]],
    inner @4: Inner,
    last @5: Optional[u32],
}
"""

VALUES = [
    # control: nothing after a present optional -> order cannot matter
    {"id": 1, "opt": None, "tail": 0x1234, "items": [], "inner": {"a": None, "b": 7}, "last": 9},
    # present optional followed by a sibling field
    {"id": 1, "opt": 0xAA, "tail": 0x1234, "items": [], "inner": {"a": None, "b": 7}, "last": None},
    # present optionals inside a dynamic array
    {"id": 2, "opt": None, "tail": 1, "items": [1, None, 3], "inner": {"a": None, "b": 7}, "last": None},
    # present optional in a nested struct
    {"id": 3, "opt": None, "tail": 1, "items": [], "inner": {"a": 0xBEEF, "b": 7}, "last": 5},
]


def main() -> int:
    fcp = get_fcp_from_string(SCHEMA).unwrap()
    assert make_general_verifier().verify(fcp).is_ok()

    ok = True
    for value in VALUES:
        try:
            encoded = encode(fcp, "Msg", value)
            decoded = decode(fcp, "Msg", encoded)
        except Exception as e:  # noqa: BLE001
            print("  exception for", value, "->", repr(e))
            ok = False
            continue
        if decoded != value:
            print("  mismatch:\n    in :", value, "\n    out:", decoded, "\n    hex:", encoded.hex())
            ok = False

    print("PASS" if ok else "FAIL")
    return 0 if ok else 1


if __name__ == "__main__":
    sys.exit(main())
