#!/venv/bin/python
"""Differential test for property C09.

Verifier verdict == well-formedness specification (both directions), for the
general check set, general + DBC plug-in checks, general + C plug-in checks,
and independent of declaration order.

The oracle below is written directly from the specification and does not call
into fcp; the subject is fcp.verifier + the plug-in check sets.  Schema trees
are built programmatically (exhaustively for small scopes, randomly beyond),
plus the repository's own .fcp verifier fixtures through the parser.

Run with
  PYTHONPATH=$R/src:$R/plugins/fcp_dbc:$R/plugins/fcp_can_c:$R/plugins/fcp_cpp:$R/plugins/fcp_nop \
      /venv/bin/python demo.py
(R defaults to /tmp/twin-C09, override with FCP_ROOT).  Prints PASS, exit 0.
"""

import hashlib
import itertools
import math
import os
import random
import sys
from pathlib import Path

FCP_ROOT = os.environ.get("FCP_ROOT", "/tmp/twin-C09")

from fcp.specs.v2 import FcpV2
from fcp.specs.struct import Struct
from fcp.specs.struct_field import StructField
from fcp.specs.enum import Enum, Enumeration
from fcp.specs.impl import Impl
from fcp.specs.device import Device
from fcp.specs.service import Service
from fcp.specs.signal_block import SignalBlock
from fcp.specs.metadata import MetaData
from fcp.specs.type import (
    UnsignedType,
    SignedType,
    FloatType,
    DoubleType,
    StringType,
    EnumType,
    StructType,
    ArrayType,
    DynamicArrayType,
    OptionalType,
)
from fcp.verifier import make_general_verifier, Verifier, register
from fcp.result import Ok, Err
from fcp.maybe import Nothing, Some
from fcp.parser import get_fcp
import fcp_dbc
import fcp_can_c

FAILURES = []
DIGEST = hashlib.sha256()
COUNT = {"general": 0, "dbc": 0, "c": 0}


def check(cond, what):
    if not cond:
        FAILURES.append(what)
        if len(FAILURES) <= 15:
            print("FAIL:", what)


# --------------------------------------------------------------------------
# builders
# --------------------------------------------------------------------------
def U(n):
    return UnsignedType("u%d" % n)


def I(n):
    return SignedType("i%d" % n)


def S(name, *fields):
    return Struct(
        name=name,
        fields=[StructField(name=n, field_id=i, type=t) for i, (n, t) in enumerate(fields)],
    )


def E(name, *pairs):
    return Enum(name=name, enumeration=[Enumeration(name=n, value=v) for n, v in pairs])


def M(name, protocol, type_, **fields):
    return Impl(name=name, protocol=protocol, type=type_, fields=dict(fields), signals=[])


def D(name, **fields):
    return Device(name=name, fields=dict(fields))


def SV(name, id_=0):
    return Service(name=name, id=id_, methods=[])


def tree(structs=(), enums=(), impls=(), services=(), devices=()):
    return FcpV2(
        structs=list(structs),
        enums=list(enums),
        impls=list(impls),
        services=list(services),
        devices=list(devices),
    )


# --------------------------------------------------------------------------
# oracle (specification)
# --------------------------------------------------------------------------
def unique(xs):
    xs = list(xs)
    for i in range(len(xs)):
        for j in range(i + 1, len(xs)):
            if xs[i] == xs[j]:
                return False
    return True


def spec_general(t):
    if not unique([s.name for s in t.structs] + [e.name for e in t.enums]):
        return False
    if not unique((i.name, i.protocol) for i in t.impls):
        return False
    for s in t.structs:
        if len(s.fields) == 0:
            return False
        if not unique(f.name for f in s.fields):
            return False
    for e in t.enums:
        if not unique(x.name for x in e.enumeration):
            return False
        if not unique(x.value for x in e.enumeration):
            return False
    known = [s.name for s in t.services]
    for d in t.devices:
        listed = d.fields.get("services")
        if listed is None:
            continue
        for s in listed:
            if s not in known:
                return False
    return True


def known_struct(t, name):
    return any(s.name == name for s in t.structs)


def spec_dbc(t):
    for i in t.impls:
        if not known_struct(t, i.type):
            return False
    ids = [i.fields.get("id") for i in t.impls if i.protocol == "can"]
    ids = [x for x in ids if x is not None]
    return unique(ids)


class Unencodable(Exception):
    pass


def first_by_name(nodes, name):
    for n in nodes:
        if n.name == name:
            return n
    return None


def enum_field_bits(e):
    m = max(x.value for x in e.enumeration)
    if m < 0:
        raise Unencodable()
    if m in (0, 1):
        return 1
    return math.floor(math.log2(m) + 1)


def type_bits(t, ty):
    """Width in bits of a (unrolled) field of type ty; spec of the packed layout."""
    if isinstance(ty, (UnsignedType, SignedType, FloatType, DoubleType)):
        return int(ty.name[1:])
    if isinstance(ty, ArrayType):
        return sum(type_bits(t, ty.underlying_type) for _ in range(ty.size))
    if isinstance(ty, EnumType):
        return enum_field_bits(first_by_name(t.enums, ty.name))
    if isinstance(ty, StructType):
        return struct_bits(t, first_by_name(t.structs, ty.name))
    raise Unencodable()


def struct_bits(t, s):
    return sum(type_bits(t, f.type) for f in s.fields)


def spec_c(t):
    for i in t.impls:
        if not known_struct(t, i.type):
            return False
    for i in t.impls:
        if i.protocol != "can":
            continue
        try:
            bits = struct_bits(t, first_by_name(t.structs, i.type))
        except Unencodable:
            return False
        if bits > 64:
            return False
    return True


# --------------------------------------------------------------------------
# subject
# --------------------------------------------------------------------------
def verifier_for(kind):
    v = make_general_verifier()
    if kind == "dbc":
        fcp_dbc.Generator().register_checks(v)
    elif kind == "c":
        fcp_can_c.Generator().register_checks(v)
    return v


def node_label(node):
    if node is None:
        return "-"
    return type(node).__name__ + ":" + str(getattr(node, "name", "?"))


def run(kind, t):
    """Returns (verdict, description of the first error)."""
    r = verifier_for(kind).verify(t)
    if isinstance(r, Ok):
        return True, "ok"
    assert isinstance(r, Err), r
    err = r.err_value
    msg, node, (path, _line) = err.msg[0]
    return False, "%s|%s|%s|%d" % (msg, node_label(node), Path(path).name, len(err.msg))


def expected(kind, t):
    ok = spec_general(t)
    if kind == "dbc":
        ok = ok and spec_dbc(t)
    elif kind == "c":
        ok = ok and spec_c(t)
    return ok


def check_tree(t, label, kinds=("general", "dbc", "c"), record=True):
    out = {}
    for kind in kinds:
        got, desc = run(kind, t)
        # verifying twice with fresh and with the same verifier gives the same answer
        want = expected(kind, t)
        check(got == want, "%s [%s]: verifier says %s, specification says %s (%s)" % (label, kind, got, want, desc))
        COUNT[kind] += 1
        if record:
            DIGEST.update(("%s/%s/%s/%s\n" % (label, kind, got, desc)).encode())
        out[kind] = got
    return out


def permuted(t, rng):
    structs = [Struct(name=s.name, fields=rng.sample(s.fields, len(s.fields))) for s in t.structs]
    enums = [Enum(name=e.name, enumeration=rng.sample(e.enumeration, len(e.enumeration))) for e in t.enums]
    p = tree(
        rng.sample(structs, len(structs)),
        rng.sample(enums, len(enums)),
        rng.sample(t.impls, len(t.impls)),
        rng.sample(t.services, len(t.services)),
        rng.sample(t.devices, len(t.devices)),
    )
    return p


def check_with_permutations(t, label, rng, n=2, kinds=("general", "dbc", "c")):
    base = check_tree(t, label, kinds)
    for k in range(n):
        p = permuted(t, rng)
        got = check_tree(p, "%s~%d" % (label, k), kinds, record=False)
        check(got == base, "%s: verdict depends on declaration order: %s vs %s" % (label, base, got))


# --------------------------------------------------------------------------
# 1. exhaustive small scopes
# --------------------------------------------------------------------------
def exhaustive_types():
    field_sets = [[], ["x"], ["x", "x"], ["x", "y"], ["x", "y", "x"]]
    struct_opts = [(n, fs) for n in ("A", "B") for fs in field_sets]
    enum_bodies = [
        [("a", 0)],
        [("a", 0), ("a", 1)],
        [("a", 0), ("b", 0)],
        [("a", 0), ("b", 1)],
        [("a", 1), ("b", 2), ("a", 2)],
    ]
    enum_opts = [(n, b) for n in ("A", "E") for b in enum_bodies]
    n = 0
    for ns in range(0, 3):
        for ss in itertools.product(struct_opts, repeat=ns):
            for ne in range(0, 2):
                for es in itertools.product(enum_opts, repeat=ne):
                    t = tree(
                        [S(name, *[(f, U(8)) for f in fs]) for name, fs in ss],
                        [E(name, *b) for name, b in es],
                        [M("A", "can", "A", id=1)],
                    )
                    check_tree(t, "types%d" % n)
                    n += 1
    # two enums, exhaustively, general checks only
    for es in itertools.product(enum_opts, repeat=2):
        t = tree([S("S", ("x", U(8)))], [E(name, *b) for name, b in es])
        check_tree(t, "enums%d" % n, kinds=("general",))
        n += 1
    return n


def exhaustive_impls():
    opts = [
        (name, proto, ty, id_)
        for name in ("m", "n")
        for proto in ("can", "default")
        for ty in ("A", "B", "Z")
        for id_ in (None, 1, 2)
    ]
    n = 0
    for k in range(0, 3):
        for ms in itertools.product(opts, repeat=k):
            impls = []
            for name, proto, ty, id_ in ms:
                impls.append(M(name, proto, ty) if id_ is None else M(name, proto, ty, id=id_))
            t = tree([S("A", ("x", U(8))), S("B", ("x", U(60)), ("y", U(5)))], [], impls)
            check_tree(t, "impls%d" % n)
            n += 1
    return n


def exhaustive_devices():
    service_sets = [[], ["s1"], ["s1", "s2"], ["s2", "s2"]]
    listed = [None, [], ["s1"], ["s2"], ["s1", "s2"], ["s3"], ["s1", "s3"]]
    n = 0
    for svs in service_sets:
        for k in range(0, 3):
            for ds in itertools.product(listed, repeat=k):
                devices = []
                for j, l in enumerate(ds):
                    devices.append(D("d%d" % j) if l is None else D("d%d" % j, services=list(l), other=1))
                t = tree([S("A", ("x", U(8)))], [], [M("A", "can", "A", id=1)], [SV(s) for s in svs], devices)
                check_tree(t, "dev%d" % n)
                n += 1
    return n


# --------------------------------------------------------------------------
# 2. C plug-in width boundary
# --------------------------------------------------------------------------
def width_cases():
    n = 0
    inner = S("In", ("p", U(7)), ("q", I(9)))  # 16 bits
    en = E("En", ("a", 0), ("b", 5))  # 3 bits
    one = E("One", ("only", 0))  # 1 bit
    big = E("Big", ("lo", 0), ("hi", 2**40))  # 41 bits
    neg = E("Neg", ("m", -3), ("mm", -2))  # not encodable
    shapes = {
        "u64": [("a", U(64))],
        "u63+u1": [("a", U(63)), ("b", U(1))],
        "u63+u2": [("a", U(63)), ("b", U(2))],
        "u1x64": [("f%d" % i, U(1)) for i in range(64)],
        "u1x65": [("f%d" % i, U(1)) for i in range(65)],
        "i32+f32": [("a", I(32)), ("b", FloatType())],
        "f64": [("a", DoubleType())],
        "f64+u1": [("a", DoubleType()), ("b", U(1))],
        "arr8x8": [("a", ArrayType(U(8), 8))],
        "arr8x9": [("a", ArrayType(U(8), 9))],
        "arr13x4+u12": [("a", ArrayType(U(13), 4)), ("b", U(12))],
        "arr13x4+u13": [("a", ArrayType(U(13), 4)), ("b", U(13))],
        "arr0": [("a", ArrayType(U(8), 0)), ("b", U(64))],
        "arrarr": [("a", ArrayType(ArrayType(U(4), 4), 4))],
        "arrarr+1": [("a", ArrayType(ArrayType(U(4), 4), 4)), ("b", U(1))],
        "nested4": [("a", ArrayType(StructType("In"), 4))],
        "nested4+1": [("a", ArrayType(StructType("In"), 4)), ("b", U(1))],
        "nested+48": [("a", StructType("In")), ("b", U(48))],
        "nested+49": [("a", StructType("In")), ("b", U(49))],
        "enum+61": [("a", EnumType("En")), ("b", U(61))],
        "enum+62": [("a", EnumType("En")), ("b", U(62))],
        "one+63": [("a", EnumType("One")), ("b", U(63))],
        "one+64": [("a", EnumType("One")), ("b", U(64))],
        "big+23": [("a", EnumType("Big")), ("b", U(23))],
        "big+24": [("a", EnumType("Big")), ("b", U(24))],
        "enumarr": [("a", ArrayType(EnumType("En"), 21)), ("b", U(1))],
        "enumarr+2": [("a", ArrayType(EnumType("En"), 21)), ("b", U(2))],
        "neg": [("a", EnumType("Neg"))],
        "str": [("a", StringType())],
        "dyn": [("a", DynamicArrayType(U(8)))],
        "opt": [("a", OptionalType(U(8)))],
        "arr-of-str": [("a", ArrayType(StringType(), 2))],
        "u8+str": [("a", U(8)), ("b", StringType())],
    }
    for name, fields in shapes.items():
        for proto in ("can", "default", "uart"):
            t = tree([S("Msg", *fields), inner], [en, one, big, neg], [M("Msg", proto, "Msg", id=7)])
            check_tree(t, "width-%s-%s" % (name, proto))
            n += 1
    # all widths around the limit, as one field and as two unaligned fields
    for w in range(1, 70):
        t = tree([S("Msg", ("a", U(w)))], [], [M("Msg", "can", "Msg", id=1)])
        check_tree(t, "w%d" % w, kinds=("c",))
        for first in (1, 3, 31, 33):
            if w > first:
                t = tree([S("Msg", ("a", I(first)), ("b", U(w - first)))], [], [M("Msg", "can", "Msg", id=1)])
                check_tree(t, "w%d/%d" % (first, w - first), kinds=("c",))
        n += 1
    # too-wide message that is not bound to can, and too wide message bound twice
    wide = S("Wide", ("a", U(64)), ("b", U(64)))
    ok = S("Ok", ("a", U(8)))
    t = tree([wide, ok], [], [M("w", "default", "Wide"), M("o", "can", "Ok", id=1)])
    check_tree(t, "wide-unbound-to-can")
    t = tree([wide, ok], [], [M("o", "can", "Ok", id=1), M("w", "can", "Wide", id=2)])
    check_tree(t, "wide-second")
    t = tree([wide, ok], [], [M("w", "can", "Zzz", id=2), M("o", "can", "Ok", id=1)])
    check_tree(t, "unknown-type")
    return n


# --------------------------------------------------------------------------
# 3. DBC plug-in ids
# --------------------------------------------------------------------------
def id_cases():
    a, b, c = S("A", ("x", U(8))), S("B", ("x", U(8))), S("C", ("x", U(8)))
    n = 0
    id_values = [None, 0, 1, 1.0, True, "1", "x", [1], [1, 2], 2**29, -1]
    for i1, i2 in itertools.product(id_values, repeat=2):
        for p1, p2 in (("can", "can"), ("can", "default"), ("default", "default")):
            m1 = M("A", p1, "A") if i1 is None else M("A", p1, "A", id=i1)
            m2 = M("B", p2, "B") if i2 is None else M("B", p2, "B", id=i2, dlc=8)
            t = tree([a, b, c], [], [m1, m2, M("C", "can", "C", id=99)])
            check_tree(t, "ids%d" % n, kinds=("general", "dbc"))
            n += 1
    # three-way: only the last two collide
    t = tree([a, b, c], [], [M("A", "can", "A", id=5), M("B", "can", "B", id=6), M("C", "can", "C", id=6)])
    check_tree(t, "ids-last-two")
    # same struct bound twice with different names / same id
    t = tree([a], [], [M("one", "can", "A", id=5), M("two", "can", "A", id=5)])
    check_tree(t, "ids-same-struct")
    t = tree([a], [], [M("one", "can", "A", id=5), M("two", "can", "A", id=6)])
    check_tree(t, "ids-same-struct-ok")
    # impl bound to an enum name rather than a struct name
    t = tree([a], [E("En", ("k", 0))], [M("En", "can", "En", id=5)])
    check_tree(t, "bound-to-enum")
    return n


# --------------------------------------------------------------------------
# 4. random trees + permutations
# --------------------------------------------------------------------------
def random_tree(rng):
    snames = ["A", "B", "C", "D"]
    enames = ["E", "F", "A"]
    fnames = ["x", "y", "z", "w"]
    nstructs = rng.choice([0, 1, 2, 2, 3, 3, 4])
    names = [rng.choice(snames) for _ in range(nstructs)] if rng.random() < 0.25 else rng.sample(snames, nstructs)
    enums = []
    for _ in range(rng.choice([0, 0, 1, 2])):
        k = rng.randint(1, 4)
        dup = rng.random()
        ens = rng.sample(["a", "b", "c", "d"], k)
        vals = rng.sample([0, 1, 2, 3, 7, 200], k)
        if dup < 0.12 and k > 1:
            ens[rng.randrange(1, k)] = ens[0]
        elif dup < 0.24 and k > 1:
            vals[rng.randrange(1, k)] = vals[0]
        ename = rng.choice(enames if rng.random() < 0.2 else enames[:2])
        if any(e.name == ename for e in enums) and rng.random() < 0.8:
            continue
        enums.append(E(ename, *zip(ens, vals)))
    structs = []
    for idx, name in enumerate(names):
        k = rng.choice([0, 1, 1, 2, 2, 3, 4]) if rng.random() < 0.3 else rng.randint(1, 4)
        fns = [rng.choice(fnames) for _ in range(k)] if rng.random() < 0.15 else rng.sample(fnames, k)
        fields = []
        for fn in fns:
            r = rng.random()
            if r < 0.55:
                ty = rng.choice([U, I])(rng.choice([1, 3, 8, 12, 16, 24, 32]))
            elif r < 0.65:
                ty = rng.choice([FloatType(), DoubleType()])
            elif r < 0.78:
                ty = ArrayType(U(rng.choice([2, 8, 16])), rng.randint(0, 5))
            elif r < 0.88 and enums:
                ty = EnumType(rng.choice(enums).name)
            elif r < 0.95 and structs:
                # only refer to earlier, uniquely named, non-empty structs (no recursion)
                cands = [s for s in structs if names.count(s.name) == 1 and len(s.fields) > 0]
                ty = StructType(rng.choice(cands).name) if cands else U(8)
            elif r < 0.97:
                ty = rng.choice([StringType(), DynamicArrayType(U(8)), OptionalType(U(16))])
            else:
                ty = U(40)
            fields.append((fn, ty))
        structs.append(S(name, *fields))
    impls = []
    for s in structs:
        if rng.random() < 0.7:
            proto = rng.choice(["can", "can", "can", "default"])
            name = s.name if rng.random() < 0.8 else rng.choice(snames)
            ty = s.name if rng.random() < 0.93 else rng.choice(["Z", "E"])
            kw = {}
            if rng.random() < 0.85:
                kw["id"] = rng.choice([1, 2, 3, 4, 5, 6, 7, 8, 9, 10, 11, 12])
            impls.append(M(name, proto, ty, **kw))
    services = [SV(n) for n in rng.sample(["s1", "s2", "s3"], rng.randint(0, 3))]
    devices = []
    for j in range(rng.choice([0, 0, 1, 2])):
        if rng.random() < 0.3:
            devices.append(D("d%d" % j))
        else:
            pool = [s.name for s in services] + (["ghost"] if rng.random() < 0.25 else [])
            devices.append(D("d%d" % j, services=rng.sample(pool, rng.randint(0, len(pool)))))
    return tree(structs, enums, impls, services, devices)


def is_safe_for_c(t):
    """The packed encoder raises (not: reports) on a few malformed trees; leave those to section 5."""
    names = [s.name for s in t.structs] + [e.name for e in t.enums]
    return unique(names)


def random_cases(rng, count):
    verdicts = {True: 0, False: 0}
    for n in range(count):
        t = random_tree(rng)
        kinds = ("general", "dbc", "c") if is_safe_for_c(t) else ("general", "dbc")
        check_with_permutations(t, "rnd%d" % n, rng, n=2, kinds=kinds)
        verdicts[expected("general", t)] += 1
    return verdicts


# --------------------------------------------------------------------------
# 5. API behaviour that the verdict rests on
# --------------------------------------------------------------------------
def api_cases():
    a = S("A", ("x", U(8)), ("y", U(8)))
    b = S("B", ("p", U(8)))
    e = E("E", ("k", 0))
    meta = MetaData(1, 1, 1, 1, 0, 1, "f.fcp")
    m1 = Impl(name="A", protocol="can", type="A", fields={"id": 1}, signals=[SignalBlock("x", {"k": 1}, meta)])
    m2 = M("B", "default", "B")
    sv, dv = SV("s1"), D("d", services=["s1"])
    t = tree([a, b], [e], [m1, m2], [sv], [dv])

    def unwrap(m):
        check(isinstance(m, Some), "get returned %r" % (m,))
        return m.unwrap()

    check(unwrap(t.get("struct")) is t.structs, "get(struct) is the struct list")
    check(unwrap(t.get("enum")) is t.enums, "get(enum) is the enum list")
    check(unwrap(t.get("impl")) is t.impls, "get(impl) is the impl list")
    check(unwrap(t.get("service")) is t.services, "get(service) is the service list")
    check(unwrap(t.get("device")) is t.devices, "get(device) is the device list")
    ty = unwrap(t.get("type"))
    check(len(ty) == 3 and ty[0] is a and ty[1] is b and ty[2] is e, "get(type) = structs + enums")
    fl = unwrap(t.get("field"))
    check(
        [(s.name, f.name) for s, f in fl] == [("A", "x"), ("A", "y"), ("B", "p")] and fl[0][0] is a and fl[2][1] is b.fields[0],
        "get(field) = (struct, field) pairs in order",
    )
    sb = unwrap(t.get("signal_block"))
    check(len(sb) == 1 and sb[0] is m1.signals[0], "get(signal_block)")
    for bad in ("uncategorized", "", "structs", "Struct", "fields", "method", "x"):
        check(isinstance(t.get(bad), Nothing), "get(%r) is Nothing" % bad)
    empty = tree()
    for cat in ("struct", "enum", "impl", "field", "signal_block", "type", "service", "device"):
        check(unwrap(empty.get(cat)) == [], "get(%s) on empty tree" % cat)

    check(t.get_struct("A").unwrap() is a and t.get_struct("E").is_nothing() and t.get_struct("").is_nothing(), "get_struct")
    check(t.get_enum("E").unwrap() is e and t.get_enum("A").is_nothing(), "get_enum")
    dup = tree([S("A", ("first", U(8))), S("A", ("second", U(8)))])
    check(dup.get_struct("A").unwrap() is dup.structs[0], "get_struct returns the first match")
    check([i.name for i in t.get_matching_impls("can")] == ["A"], "get_matching_impls")
    check(list(t.get_matching_impls("nope")) == [], "get_matching_impls none")

    # Verifier API
    v = Verifier()
    check(v.verify(t) == Ok(()), "empty verifier accepts")
    try:
        v.register(lambda *a: Ok(()), "bogus")
        check(False, "register accepts an invalid category")
    except ValueError as ex:
        check(str(ex) == "Invalid category: bogus", "register error text")
    seen = []

    @register(v, "field")
    def _f(self, fcp, node):
        seen.append(("field", node[0].name, node[1].name))
        return Ok(())

    @register(v, "struct")
    def _s(self, fcp, node):
        seen.append(("struct", node.name, self is fcp))
        return Ok(())

    @register(v, "struct")
    def _s2(self, fcp, node):
        seen.append(("struct2", node.name))
        return Ok(())

    check(v.verify(t) == Ok(()), "verifier with passing checks accepts")
    check(
        seen
        == [
            ("struct", "A", True),
            ("struct", "B", True),
            ("struct2", "A"),
            ("struct2", "B"),
            ("field", "A", "x"),
            ("field", "A", "y"),
            ("field", "B", "p"),
        ],
        "check invocation order: %r" % (seen,),
    )
    v2 = Verifier()
    v2.register(lambda s, f, n: Ok(()))
    check(isinstance(v2.verify(t), Nothing), "uncategorized checks have no nodes (verify -> Nothing)")

    # error contents of every general rule: message and the node that is blamed
    cases = [
        ("dup-type", tree([S("A", ("x", U(8))), S("B", ("x", U(8))), S("B", ("y", U(8)))]), "Duplicate type names", "Struct:B"),
        ("dup-type-enum", tree([S("A", ("x", U(8)))], [E("A", ("k", 0))]), "Duplicate type names", "Struct:A"),
        ("dup-impl", tree([a], [], [M("m", "can", "A", id=1), M("m", "default", "A"), M("m", "can", "A", id=2)]), "Duplicate impls", "Impl:m"),
        ("dup-field", tree([S("A", ("x", U(8)), ("y", U(8)), ("y", U(8)))]), "Duplicate fields", "StructField:y"),
        ("empty", tree([a, S("Q")]), "Struct has no signal", "Struct:Q"),
        ("dup-ename", tree([a], [E("E", ("p", 0), ("q", 1), ("r", 2), ("q", 3))]), "Duplicated enumration name", "Enumeration:q"),
        ("dup-evalue", tree([a], [E("E", ("p", 0), ("q", 1), ("r", 0))]), "Duplicated enumeration name", "Enumeration:p"),
        ("svc", tree([a], [], [], [SV("s1")], [D("d0", services=["s1"]), D("d1", services=["s1", "s9"])]), 'Service "s9" referenced by device "d1" doesn\'t exist', "Device:d1"),
    ]
    for label, tr, msg, node in cases:
        r = make_general_verifier().verify(tr)
        check(isinstance(r, Err), label + " rejected")
        if isinstance(r, Err):
            m, n, _ = r.err_value.msg[0]
            check(m == msg and node_label(n) == node, "%s: got %r blaming %s" % (label, m, node_label(n)))
    # blamed node identity: the first duplicate occurrence
    tr = cases[5][1]
    r = make_general_verifier().verify(tr)
    check(r.err_value.msg[0][1] is tr.enums[0].enumeration[1], "first duplicated enumerator is blamed")
    tr = cases[3][1]
    r = make_general_verifier().verify(tr)
    check(r.err_value.msg[0][1] is tr.structs[0].fields[1], "first duplicated field is blamed")

    # plug-in messages
    r = verifier_for("dbc").verify(tree([a], [], [M("m", "can", "Zz", id=1)]))
    check(isinstance(r, Err) and r.err_value.msg[0][0] == "No matching type for impl m", "dbc unknown type text")
    two = tree([a, b], [], [M("A", "can", "A", id=3), M("B", "can", "B", id=3)])
    r = verifier_for("dbc").verify(two)
    check(isinstance(r, Err) and r.err_value.msg[0][0] == "Duplicate ids" and r.err_value.msg[0][1] is two.impls[0], "dbc duplicate id text/node")
    r = verifier_for("c").verify(tree([a], [], [M("m", "can", "Zz", id=1)]))
    check(isinstance(r, Err) and r.err_value.msg[0][0] == "No matching type for extension m", "c unknown type text")
    r = verifier_for("c").verify(tree([S("W", ("a", U(64)), ("b", U(3)))], [], [M("W", "can", "W", id=1)]))
    check(isinstance(r, Err) and r.err_value.msg[0][0] == "Impl W is way too big at 67 bits", "c size text")
    r = verifier_for("c").verify(tree([S("W", ("a", StringType()))], [], [M("W", "can", "W", id=1)]))
    check(
        isinstance(r, Err) and r.err_value.msg[0][0].startswith("Impl W cannot be packed into a CAN frame: Error computing type length"),
        "c unencodable text",
    )
    # exceptions that are not reported as verdicts stay exceptions
    ghost = tree([S("W", ("a", StructType("Ghost")))], [], [M("W", "can", "W", id=1)])
    check(verifier_for("general").verify(ghost) == Ok(()), "ghost nested type passes general checks")
    check(verifier_for("dbc").verify(ghost) == Ok(()), "ghost nested type passes dbc checks")
    try:
        verifier_for("c").verify(ghost)
        check(False, "c: unknown nested struct type no longer raises")
    except Exception as ex:  # noqa: BLE001
        check(type(ex).__name__ == "UnwrapError", "c: unknown nested struct raises %s" % type(ex).__name__)

    # same verifier instance used repeatedly and on different trees
    v = verifier_for("c")
    bad = tree([S("W", ("a", U(65)))], [], [M("W", "can", "W", id=1)])
    seq = [v.verify(x).is_ok() for x in (t, bad, t, two, bad, t)]
    check(seq == [True, False, True, True, False, True], "re-used C verifier: %r" % seq)
    v = verifier_for("dbc")
    seq = [v.verify(x).is_ok() for x in (t, two, t, two, bad)]
    check(seq == [True, False, True, False, True], "re-used DBC verifier: %r" % seq)
    # mutation between runs is seen (no stale state)
    mt = tree([S("A", ("x", U(8)))], [], [M("A", "can", "A", id=1)])
    v = verifier_for("dbc")
    check(v.verify(mt).is_ok(), "mutable tree ok at first")
    mt.structs.append(S("B", ("x", U(8))))
    mt.impls.append(M("B", "can", "B", id=1))
    check(v.verify(mt).is_err(), "mutable tree: added colliding id is seen")
    mt.impls[1].fields["id"] = 2
    check(v.verify(mt).is_ok(), "mutable tree: fixed id is seen")
    mt.structs[1].fields.append(StructField(name="x", field_id=1, type=U(8)))
    check(v.verify(mt).is_err(), "mutable tree: added duplicate field is seen")
    mt.structs[1].fields.pop()
    mt.structs[1].name = "A"
    check(v.verify(mt).is_err(), "mutable tree: renamed struct collides")


# --------------------------------------------------------------------------
# 6. repository fixtures through the parser
# --------------------------------------------------------------------------
def fixture_cases():
    root = Path(FCP_ROOT)
    general = root / "tests" / "schemas" / "verifier"
    want = {
        "000_no_error": True,
        "001_duplicate_types": False,
        "002_duplicate_impls": False,
        "003_duplicate_signals": False,
        "004_duplicate_enumeration_names": False,
        "005_duplicate_enumeration_values": False,
    }
    n = 0
    for name, ok in want.items():
        t = get_fcp(general / (name + ".fcp")).unwrap()
        got = check_tree(t, "fixture-" + name, kinds=("general",))
        check(got["general"] == ok, "fixture %s expected %s" % (name, ok))
        n += 1
    dbc = root / "plugins" / "fcp_dbc" / "tests" / "schemas" / "verifier"
    for name, ok in (("000_no_error", True), ("001_duplicate_ids", False)):
        t = get_fcp(dbc / (name + ".fcp")).unwrap()
        got = check_tree(t, "fixture-dbc-" + name, kinds=("general", "dbc"))
        check(got["general"] is True and got["dbc"] == ok, "dbc fixture %s expected %s" % (name, ok))
        n += 1
    for f in sorted((root / "tests" / "schemas" / "syntax").glob("*.fcp")):
        r = get_fcp(f)
        if r.is_err():
            continue
        check_tree(r.unwrap(), "fixture-syntax-" + f.stem, kinds=("general", "dbc"))
        n += 1
    for d in sorted((root / "plugins" / "fcp_can_c" / "tests").glob("0*")):
        r = get_fcp(d / "test.fcp")
        if r.is_err():
            continue
        got = check_tree(r.unwrap(), "fixture-c-" + d.name)
        check(got["c"] is True, "C plug-in fixture %s verifies" % d.name)
        n += 1
    return n


EXPECTED_DIGEST = "180f55a98831ecdb6dbd63815e412e87823cea5e6d1cec0a1ae3f45216cf447b"


def main():
    rng = random.Random(909)
    n1 = exhaustive_types()
    n2 = exhaustive_impls()
    n3 = exhaustive_devices()
    n4 = width_cases()
    n5 = id_cases()
    verdicts = random_cases(rng, 500)
    api_cases()
    n6 = fixture_cases()
    print(
        "trees: types %d, impls %d, devices %d, widths %d, ids %d, random 500 (x3 orders; spec ok %d / bad %d), fixtures %d"
        % (n1, n2, n3, n4, n5, verdicts[True], verdicts[False], n6)
    )
    print("verifier runs compared with the specification:", COUNT)
    digest = DIGEST.hexdigest()
    print("digest of (verdict, first error, blamed node) over all recorded runs:", digest)
    if EXPECTED_DIGEST != "@@" + "DIGEST@@":
        check(digest == EXPECTED_DIGEST, "error messages / blamed nodes differ from the reference run")
    if FAILURES:
        print("FAIL (%d problems)" % len(FAILURES))
        return 1
    print("PASS")
    return 0


if __name__ == "__main__":
    sys.exit(main())
