#!/usr/bin/env python
"""Differential test for property C08.

Accepted schemas have no dangling or mis-kinded type references: every
user-type reference resolves to a struct or enum declared EARLIER (same file or
a module imported earlier) and carries that declaration's kind; a reference to
a name that is not declared before its use makes parsing fail with an error
that names the type and the enclosing struct.

The test builds schemas (hand written and randomly generated, single file and
module graphs) from a small Python model, computes with an independent oracle
what the parser has to answer, and compares.  Run with PYTHONPATH pointing at
the worktree under test.
"""

import os
import pathlib
import random
import shutil
import sys
import tempfile

from fcp.parser import get_fcp, get_fcp_from_string
from fcp.error import Logger
from fcp.specs.type import (
    ArrayType,
    DynamicArrayType,
    EnumType,
    OptionalType,
    StructType,
)
from fcp.specs import v2 as v2mod
from fcp.specs.struct import Struct
from fcp.specs.enum import Enum, Enumeration

FCP_ROOT = pathlib.Path(os.environ.get("FCP_ROOT", "/tmp/twin-C08"))

CHECKS = 0
FAILURES = []


def check(cond, what):
    global CHECKS
    CHECKS += 1
    if not cond:
        FAILURES.append(what)
        if len(FAILURES) <= 15:
            print("FAIL:", what)


# --------------------------------------------------------------------------
# model
# --------------------------------------------------------------------------
# A type is a nested tuple:
#   ("ref", name) | ("prim", "u8") | ("arr", inner, n) | ("dyn", inner) | ("opt", inner)
# An item is one of
#   ("struct", name, [(field_name, type), ...])
#   ("enum", name)
#   ("mod", "a.b")            -> file <dir>/a/b.fcp
# A project is {relative file name: [items]}; "main.fcp" is the entry point.

WRAP_MSG = {
    "arr": "Error parsing array type",
    "opt": "Error parsing optional type",
    "dyn": "Error parsing dynamic array type",
}


def render_type(t):
    kind = t[0]
    if kind == "ref" or kind == "prim":
        return t[1]
    if kind == "arr":
        return "[" + render_type(t[1]) + ", " + str(t[2]) + "]"
    if kind == "dyn":
        return "[" + render_type(t[1]) + "]"
    if kind == "opt":
        return "Optional[" + render_type(t[1]) + "]"
    raise AssertionError(kind)


def render_file(items):
    """Return (source, {(struct_index, field_index): line})."""
    lines = ['version: "3"', ""]
    where = {}
    for i, item in enumerate(items):
        if item[0] == "struct":
            lines.append("struct " + item[1] + " {")
            for j, (fname, ftype) in enumerate(item[2]):
                lines.append("    %s @%d: %s," % (fname, j, render_type(ftype)))
                where[(i, j)] = len(lines)
            lines.append("}")
        elif item[0] == "enum":
            lines.append("enum " + item[1] + " {")
            lines.append("    First = 0,")
            lines.append("    Second = 1,")
            lines.append("}")
        elif item[0] == "mod":
            lines.append("mod " + item[1] + ";")
        else:
            raise AssertionError(item)
        lines.append("")
    return "\n".join(lines) + "\n", where


def ref_of(t):
    while t[0] in ("arr", "dyn", "opt"):
        t = t[1]
    return t


def wrappers_inner_to_outer(t):
    out = []
    while t[0] in ("arr", "dyn", "opt"):
        out.append(t[0])
        t = t[1]
    return list(reversed(out))


def expected_type_dict(t, kind_of_ref):
    kind = t[0]
    if kind == "prim":
        return {"name": t[1], "type": "unsigned"}
    if kind == "ref":
        return {"name": t[1], "type": kind_of_ref}
    if kind == "arr":
        return {
            "underlying_type": expected_type_dict(t[1], kind_of_ref),
            "size": t[2],
            "type": "Array",
        }
    if kind == "dyn":
        return {
            "underlying_type": expected_type_dict(t[1], kind_of_ref),
            "type": "DynamicArray",
        }
    if kind == "opt":
        return {
            "underlying_type": expected_type_dict(t[1], kind_of_ref),
            "type": "Optional",
        }
    raise AssertionError(kind)


class Expect:
    def __init__(self):
        self.structs = []  # list of dicts as in FcpV2.to_dict()["structs"]
        self.enums = []  # list of names
        self.err = None  # list of messages, or None
        self.err_line = None
        self.err_file = None


def oracle(project, root, rel="main.fcp"):
    """Independent model of what the parser must answer for file `rel`."""
    items = project[rel]
    _, where = render_file(items)
    here = (root / rel).parent
    exp = Expect()

    def fail(msgs, line=None, file=None):
        if exp.err is None:
            exp.err = msgs
            exp.err_line = line
            exp.err_file = file

    for i, item in enumerate(items):
        if item[0] == "enum":
            exp.enums.append(item[1])
        elif item[0] == "struct":
            fields = []
            ok = True
            for j, (fname, ftype) in enumerate(item[2]):
                base = ref_of(ftype)
                kind = None
                if base[0] == "ref":
                    # declared EARLIER only; a struct wins over an enum of the same name
                    if any(s["name"] == base[1] for s in exp.structs):
                        kind = "Struct"
                    elif base[1] in exp.enums:
                        kind = "Enum"
                    else:
                        msgs = ["Type '%s' cannot be found." % base[1]]
                        msgs += [WRAP_MSG[w] for w in wrappers_inner_to_outer(ftype)]
                        msgs.append("Error parsing type in struct field")
                        msgs.append("Failed to parse field in struct " + item[1])
                        if ok:
                            fail(msgs, where[(i, j)], pathlib.Path(rel).name)
                        ok = False
                        continue
                fields.append(
                    {
                        "name": fname,
                        "field_id": j,
                        "type": expected_type_dict(ftype, kind),
                    }
                )
            if ok:
                exp.structs.append({"name": item[1], "fields": fields})
        elif item[0] == "mod":
            sub_rel = str(
                (pathlib.Path(rel).parent / (item[1].replace(".", "/") + ".fcp"))
            )
            sub_path = here / (item[1].replace(".", "/") + ".fcp")
            if sub_rel not in project:
                fail(["File not found: " + pathlib.Path(sub_rel).name])
                continue
            sub = oracle(project, root, sub_rel)
            if sub.err is not None:
                fail(
                    sub.err + ["Failed to import " + str(sub_path)],
                    sub.err_line,
                    sub.err_file,
                )
            else:
                exp.structs += sub.structs
                exp.enums += sub.enums
    if exp.err is not None:
        exp.err = exp.err + ["Failed to parse " + pathlib.Path(rel).name]
    return exp


# --------------------------------------------------------------------------
# checks on parser output
# --------------------------------------------------------------------------
def walk_types(t):
    yield t
    if isinstance(t, (ArrayType, DynamicArrayType, OptionalType)):
        for x in walk_types(t.underlying_type):
            yield x


def check_no_dangling(fcp, label):
    """Every user-type node in the returned tree resolves and has the right kind."""
    seen_structs = []
    # imported modules come first in .structs only if imported first; so check
    # against "declared before in list order" for same-file declarations is done
    # by the oracle comparison; here check global resolvability + kind.
    struct_names = [s.name for s in fcp.structs]
    enum_names = [e.name for e in fcp.enums]
    for s in fcp.structs:
        for f in s.fields:
            for t in walk_types(f.type):
                if isinstance(t, StructType):
                    check(t.type == "Struct", label + ": StructType tag")
                    check(
                        t.name in struct_names,
                        "%s: %s.%s -> struct %s dangling" % (label, s.name, f.name, t.name),
                    )
                    check(
                        fcp.get_struct(t.name).is_some()
                        and fcp.get_struct(t.name).unwrap().name == t.name,
                        label + ": get_struct resolves",
                    )
                    got = fcp.get_type(t)
                    check(
                        got.is_some() and isinstance(got.unwrap(), Struct),
                        label + ": get_type(StructType) gives a Struct",
                    )
                elif isinstance(t, EnumType):
                    check(t.type == "Enum", label + ": EnumType tag")
                    check(
                        t.name in enum_names,
                        "%s: %s.%s -> enum %s dangling" % (label, s.name, f.name, t.name),
                    )
                    # an enum tag is only legal when no struct of that name was visible
                    check(
                        fcp.get_enum(t.name).is_some()
                        and fcp.get_enum(t.name).unwrap().name == t.name,
                        label + ": get_enum resolves",
                    )
        seen_structs.append(s.name)


def compare(result, exp, label, logger=None):
    if exp.err is None:
        check(result.is_ok(), label + ": expected Ok, got " + repr(result)[:300])
        if not result.is_ok():
            return
        fcp = result.unwrap()
        d = fcp.to_dict()
        check(
            d["structs"] == exp.structs,
            "%s: structs differ\n got %r\n exp %r" % (label, d["structs"], exp.structs),
        )
        check([e["name"] for e in d["enums"]] == exp.enums, label + ": enums differ")
        # one default impl per struct, same order
        check(
            [(i["name"], i["protocol"], i["type"]) for i in d["impls"]]
            == [(s["name"], "default", s["name"]) for s in exp.structs],
            label + ": default impls differ",
        )
        check_no_dangling(fcp, label)
    else:
        check(result.is_err(), label + ": expected Err %r, got Ok" % (exp.err,))
        if not result.is_err():
            return
        err = result.err()
        msgs = [m for m, _, _ in err.msg]
        check(msgs == exp.err, "%s: messages differ\n got %r\n exp %r" % (label, msgs, exp.err))
        if exp.err[0].startswith("Type '"):
            # names the type and the enclosing struct
            text = repr(err)
            check(exp.err[0] in text, label + ": type not named")
            check(
                any(m.startswith("Failed to parse field in struct ") for m in msgs),
                label + ": struct not named",
            )
            node = err.msg[0][1]
            check(node is not None, label + ": missing node on first message")
            if node is not None and exp.err_line is not None:
                check(
                    node.meta.line == exp.err_line,
                    "%s: error line %r, expected %r" % (label, node.meta.line, exp.err_line),
                )
                check(
                    pathlib.Path(node.meta.filename).name == exp.err_file,
                    "%s: error file %r, expected %r"
                    % (label, node.meta.filename, exp.err_file),
                )
            if logger is not None:
                rendered = logger.error(err)
                check(exp.err[0] in rendered, label + ": rendering lost the type name")


def write_project(project, root):
    for rel, items in project.items():
        path = root / rel
        path.parent.mkdir(parents=True, exist_ok=True)
        src, _ = render_file(items)
        path.write_text(src)


def run_project(project, label, workdir, repeat=2):
    root = pathlib.Path(tempfile.mkdtemp(dir=str(workdir))).resolve()
    write_project(project, root)
    exp = oracle(project, root)
    for k in range(repeat):
        logger = Logger({}, enable_file_paths=False)
        result = get_fcp(str(root / "main.fcp"), logger)
        compare(result, exp, "%s[file,%d]" % (label, k), logger)
    if all(item[0] != "mod" for item in project["main.fcp"]):
        src, _ = render_file(project["main.fcp"])
        for k in range(repeat):
            logger = Logger({}, enable_file_paths=False)
            result = get_fcp_from_string(src, logger)
            compare(result, exp, "%s[string,%d]" % (label, k), logger)
    return exp


# --------------------------------------------------------------------------
# hand-written cases
# --------------------------------------------------------------------------
U8 = ("prim", "u8")
U13 = ("prim", "u13")


def R(name):
    return ("ref", name)


def hand_cases():
    cases = {}
    cases["no_refs"] = {"main.fcp": [("struct", "A", [("x", U8), ("y", ("arr", U13, 3))])]}
    cases["struct_then_use"] = {
        "main.fcp": [
            ("struct", "A", [("x", U8)]),
            ("struct", "B", [("a", R("A")), ("b", ("opt", R("A")))]),
        ]
    }
    cases["enum_then_use"] = {
        "main.fcp": [
            ("enum", "Colour"),
            ("struct", "B", [("c", R("Colour")), ("cs", ("arr", R("Colour"), 4))]),
        ]
    }
    cases["forward_struct"] = {
        "main.fcp": [
            ("struct", "B", [("x", U8), ("a", R("A"))]),
            ("struct", "A", [("x", U8)]),
        ]
    }
    cases["forward_enum"] = {
        "main.fcp": [("struct", "B", [("c", ("dyn", R("Colour")))]), ("enum", "Colour")]
    }
    cases["self_ref"] = {"main.fcp": [("struct", "Node", [("v", U8), ("next", ("opt", R("Node")))])]}
    cases["self_ref_after_ok_struct"] = {
        "main.fcp": [
            ("struct", "Leaf", [("v", U8)]),
            ("struct", "Node", [("l", R("Leaf")), ("next", ("dyn", R("Node")))]),
        ]
    }
    cases["undeclared"] = {"main.fcp": [("struct", "A", [("x", R("Nope"))])]}
    cases["undeclared_deep"] = {
        "main.fcp": [
            ("struct", "A", [("x", ("dyn", ("opt", ("arr", ("arr", R("Nope"), 2), 3))))])
        ]
    }
    cases["declared_deep"] = {
        "main.fcp": [
            ("enum", "E"),
            ("struct", "S", [("x", U8)]),
            (
                "struct",
                "A",
                [
                    ("x", ("dyn", ("opt", ("arr", ("arr", R("E"), 2), 3)))),
                    ("y", ("opt", ("dyn", ("dyn", R("S"))))),
                ],
            ),
        ]
    }
    cases["second_field_bad"] = {
        "main.fcp": [
            ("struct", "S", [("x", U8)]),
            ("struct", "A", [("a", R("S")), ("b", R("Missing")), ("c", R("AlsoMissing"))]),
        ]
    }
    cases["two_bad_structs_first_wins"] = {
        "main.fcp": [
            ("struct", "A", [("a", ("opt", R("M1")))]),
            ("struct", "B", [("b", R("M2"))]),
        ]
    }
    cases["use_of_failed_struct"] = {
        "main.fcp": [
            ("struct", "A", [("a", R("M1"))]),
            ("struct", "B", [("b", R("A"))]),
        ]
    }
    cases["same_name_struct_first"] = {
        "main.fcp": [
            ("struct", "X", [("x", U8)]),
            ("enum", "X"),
            ("struct", "A", [("a", R("X"))]),
        ]
    }
    cases["same_name_enum_first"] = {
        "main.fcp": [
            ("enum", "X"),
            ("struct", "X", [("x", U8)]),
            ("struct", "A", [("a", R("X"))]),
        ]
    }
    cases["enum_then_struct_same_name_between"] = {
        "main.fcp": [
            ("enum", "X"),
            ("struct", "A", [("a", R("X"))]),
            ("struct", "X", [("x", U8)]),
            ("struct", "B", [("a", R("X")), ("b", ("arr", R("X"), 2))]),
        ]
    }
    cases["duplicate_struct_names"] = {
        "main.fcp": [
            ("struct", "D", [("x", U8)]),
            ("struct", "D", [("y", U13)]),
            ("struct", "A", [("a", R("D"))]),
        ]
    }
    cases["case_sensitive"] = {
        "main.fcp": [("struct", "abc", [("x", U8)]), ("struct", "A", [("a", R("Abc"))])]
    }
    cases["prefix_names"] = {
        "main.fcp": [
            ("struct", "Motor", [("x", U8)]),
            ("enum", "Motor_State2"),
            ("struct", "_t", [("m", R("Motor")), ("s", R("Motor_State2"))]),
            ("struct", "A", [("a", R("_t")), ("b", R("Motor_State")), ("c", R("Moto"))]),
        ]
    }
    cases["capitalised_keywordish_names"] = {
        "main.fcp": [
            ("struct", "Version", [("x", U8)]),
            ("enum", "Device_1"),
            ("struct", "A", [("a", R("Version")), ("b", ("opt", R("Device_1")))]),
        ]
    }
    # modules -------------------------------------------------------------
    cases["mod_basic"] = {
        "main.fcp": [
            ("mod", "types"),
            ("struct", "A", [("s", R("S1")), ("e", ("arr", R("E1"), 2))]),
        ],
        "types.fcp": [("enum", "E1"), ("struct", "S1", [("e", R("E1"))])],
    }
    cases["mod_after_use"] = {
        "main.fcp": [("struct", "A", [("s", R("S1"))]), ("mod", "types")],
        "types.fcp": [("struct", "S1", [("x", U8)])],
    }
    cases["mod_nested_dir"] = {
        "main.fcp": [("mod", "sub.inner.types"), ("struct", "A", [("s", ("opt", R("S1")))])],
        "sub/inner/types.fcp": [("mod", "base"), ("struct", "S1", [("b", R("Base"))])],
        "sub/inner/base.fcp": [("struct", "Base", [("x", U8)])],
    }
    cases["mod_cannot_see_parent"] = {
        "main.fcp": [("struct", "P", [("x", U8)]), ("mod", "child")],
        "child.fcp": [("struct", "Q", [("p", ("dyn", R("P")))])],
    }
    cases["mod_cannot_see_sibling"] = {
        "main.fcp": [("mod", "m1"), ("mod", "m2")],
        "m1.fcp": [("struct", "S1", [("x", U8)])],
        "m2.fcp": [("struct", "S2", [("s", R("S1"))])],
    }
    cases["mod_sibling_visible_in_main"] = {
        "main.fcp": [
            ("mod", "m1"),
            ("struct", "Mid", [("s", R("S1"))]),
            ("mod", "m2"),
            ("struct", "A", [("a", R("S1")), ("b", R("E2")), ("c", R("Mid"))]),
        ],
        "m1.fcp": [("struct", "S1", [("x", U8)])],
        "m2.fcp": [("enum", "E2")],
    }
    cases["mod_between_uses"] = {
        "main.fcp": [
            ("struct", "Early", [("b", R("E2"))]),
            ("mod", "m2"),
            ("struct", "Late", [("b", R("E2"))]),
        ],
        "m2.fcp": [("enum", "E2")],
    }
    cases["mod_diamond"] = {
        "main.fcp": [
            ("mod", "left"),
            ("mod", "right"),
            ("struct", "A", [("l", R("L")), ("r", R("Rr")), ("c", R("Common")), ("k", R("Kind"))]),
        ],
        "left.fcp": [("mod", "common"), ("struct", "L", [("c", R("Common"))])],
        "right.fcp": [("mod", "common"), ("struct", "Rr", [("k", ("opt", R("Kind")))])],
        "common.fcp": [("enum", "Kind"), ("struct", "Common", [("k", R("Kind"))])],
    }
    cases["mod_forward_inside_module"] = {
        "main.fcp": [("mod", "m")],
        "m.fcp": [("struct", "S", [("t", R("T"))]), ("struct", "T", [("x", U8)])],
    }
    cases["mod_error_deep_chain"] = {
        "main.fcp": [("mod", "a")],
        "a.fcp": [("mod", "b")],
        "b.fcp": [("struct", "S", [("ok", U8), ("t", ("arr", R("Ghost"), 5))])],
    }
    cases["mod_missing_file"] = {"main.fcp": [("mod", "nowhere"), ("struct", "A", [("x", U8)])]}
    cases["mod_kind_collision_across_modules"] = {
        "main.fcp": [
            ("mod", "m_enum"),
            ("struct", "UsesEnum", [("x", R("X"))]),
            ("mod", "m_struct"),
            ("struct", "UsesStruct", [("x", R("X"))]),
        ],
        "m_enum.fcp": [("enum", "X")],
        "m_struct.fcp": [("struct", "X", [("v", U8)])],
    }
    cases["mod_enum_in_main_struct_in_module"] = {
        "main.fcp": [
            ("enum", "X"),
            ("struct", "Before", [("x", R("X"))]),
            ("mod", "m_struct"),
            ("struct", "After", [("x", ("dyn", R("X")))]),
        ],
        "m_struct.fcp": [("struct", "X", [("v", U8)])],
    }
    return cases


# --------------------------------------------------------------------------
# random cases
# --------------------------------------------------------------------------
def random_type(rng, base):
    t = base
    for _ in range(rng.choice([0, 0, 0, 1, 1, 2, 3, 4])):
        w = rng.choice(["arr", "dyn", "opt"])
        t = ("arr", t, rng.randint(1, 5)) if w == "arr" else (w, t)
    return t


def random_project(rng, allow_bad):
    pool_s = ["S%d" % i for i in range(6)]
    pool_e = ["E%d" % i for i in range(4)]
    both = ["X0", "X1"]
    files = {}
    n_mods = rng.choice([0, 0, 1, 2, 3])
    mod_names = ["m%d" % i for i in range(n_mods)]

    def gen_items(visible_mods, n):
        items = []
        declared = []  # names declared so far (visible)
        mods_left = list(visible_mods)
        for _ in range(n):
            roll = rng.random()
            if mods_left and roll < 0.25:
                m = mods_left.pop(0)
                items.append(("mod", m))
                declared += [it[1] for it in files[m + ".fcp"] if it[0] != "mod"]
                # transitively imported names
                for it in files[m + ".fcp"]:
                    if it[0] == "mod":
                        declared += [x[1] for x in files[it[1] + ".fcp"] if x[0] != "mod"]
            elif roll < 0.45:
                items.append(("enum", rng.choice(pool_e + both)))
                declared.append(items[-1][1])
            else:
                name = rng.choice(pool_s + both)
                fields = []
                for j in range(rng.randint(1, 4)):
                    r = rng.random()
                    if r < 0.3 or (not declared and not allow_bad):
                        base = U8
                    elif r < 0.85 or not allow_bad:
                        base = R(rng.choice(declared)) if declared else U8
                    else:
                        base = R(rng.choice(pool_s + pool_e + both + ["Nope", name]))
                    fields.append(("f%d" % j, random_type(rng, base)))
                items.append(("struct", name, fields))
                declared.append(name)
        return items

    # leaf modules first so that later ones may import earlier ones
    for k, m in enumerate(mod_names):
        importable = [x for x in mod_names[:k] if rng.random() < 0.4]
        files[m + ".fcp"] = gen_items(importable, rng.randint(1, 4))
    files["main.fcp"] = gen_items(mod_names, rng.randint(2, 8))
    return files


# --------------------------------------------------------------------------
# direct checks of the lookup API the resolution relies on
# --------------------------------------------------------------------------
def api_checks():
    fcp = v2mod.FcpV2()
    check(fcp.get_struct("A").is_nothing(), "api: empty get_struct")
    check(fcp.get_enum("A").is_nothing(), "api: empty get_enum")
    check(fcp.get_type(StructType("A")).is_nothing(), "api: empty get_type")
    s1 = Struct(name="A", fields=[])
    s2 = Struct(name="A", fields=[])
    s3 = Struct(name="B", fields=[])
    e1 = Enum(name="A", enumeration=[Enumeration(name="k", value=0)])
    e2 = Enum(name="C", enumeration=[Enumeration(name="k", value=0)])
    e3 = Enum(name="C", enumeration=[Enumeration(name="k", value=0)])
    fcp.structs += [s1, s2, s3]
    fcp.enums += [e1, e2, e3]
    check(fcp.get_struct("A").is_some(), "api: get_struct some")
    check(fcp.get_struct("A").unwrap() is s1, "api: get_struct returns first match")
    check(fcp.get_struct("B").unwrap() is s3, "api: get_struct B")
    check(fcp.get_struct("C").is_nothing(), "api: get_struct ignores enums")
    check(fcp.get_struct("").is_nothing(), "api: get_struct empty name")
    check(fcp.get_enum("A").unwrap() is e1, "api: get_enum A")
    check(fcp.get_enum("C").unwrap() is e2, "api: get_enum returns first match")
    check(fcp.get_enum("B").is_nothing(), "api: get_enum ignores structs")
    check(fcp.get_type(StructType("A")).unwrap() is s1, "api: get_type struct first")
    check(fcp.get_type(EnumType("C")).unwrap() is e2, "api: get_type enum")
    check(fcp.get_type(EnumType("Zz")).is_nothing(), "api: get_type missing")
    other = v2mod.FcpV2()
    other.structs.append(Struct(name="M", fields=[]))
    other.enums.append(Enum(name="N", enumeration=[Enumeration(name="k", value=0)]))
    fcp.merge(other)
    check(fcp.get_struct("M").is_some() and fcp.get_enum("N").is_some(), "api: merge visible")
    check([s.name for s in fcp.structs] == ["A", "A", "B", "M"], "api: merge order")


def raw_source_checks():
    """A few sources written by hand (comments, params, impls around the refs)."""
    src = """version: "3"
// a comment mentioning Ghost
enum Mode { Off = 0, On = 1, }
/* struct Ghost { x @0: u8, } */
struct Inner { a @0: u8 | unit("V") range(0.0, 5.0), m @1: Mode, }
struct Outer { i @0: Inner, ms @1: [Mode, 3] | unit("x"), o @2: Optional[Inner], }
impl can for Outer { id: 10, }
"""
    r = get_fcp_from_string(src, Logger({}, enable_file_paths=False))
    check(r.is_ok(), "raw: ok schema accepted: " + repr(r)[:200])
    if r.is_ok():
        d = r.unwrap().to_dict()
        outer = [s for s in d["structs"] if s["name"] == "Outer"][0]
        check(outer["fields"][0]["type"] == {"name": "Inner", "type": "Struct"}, "raw: Inner")
        check(
            outer["fields"][1]["type"]
            == {"underlying_type": {"name": "Mode", "type": "Enum"}, "size": 3, "type": "Array"},
            "raw: [Mode,3]",
        )
        check(outer["fields"][1]["unit"] == "x", "raw: params kept")
        check_no_dangling(r.unwrap(), "raw")
    bad = src.replace("i @0: Inner,", "i @0: Ghost,")
    lg = Logger({}, enable_file_paths=False)
    r = get_fcp_from_string(bad, lg)
    check(r.is_err(), "raw: commented-out declaration does not count")
    if r.is_err():
        msgs = [m for m, _, _ in r.err().msg]
        check(
            msgs
            == [
                "Type 'Ghost' cannot be found.",
                "Error parsing type in struct field",
                "Failed to parse field in struct Outer",
                "Failed to parse main.fcp",
            ],
            "raw: messages " + repr(msgs),
        )
        text = lg.error(r.err())
        check("struct Outer { i @0: Ghost," in text, "raw: rendering shows the line")
    # method/service/impl identifiers are not type references: must not be resolved
    src2 = """version: "3"
struct A { x @0: u8, }
service Svc @1 { method m(Undeclared1) @0 returns Undeclared2, }
impl can for NotDeclared { id: 1, }
"""
    r = get_fcp_from_string(src2, Logger({}, enable_file_paths=False))
    check(r.is_ok(), "raw: service/impl names are not checked by the parser")


def repo_schema_checks():
    """Schemas shipped with the repository keep parsing the same way."""
    syntax = FCP_ROOT / "tests" / "schemas" / "syntax"
    if not syntax.is_dir():
        return
    import json

    for fcp_file in sorted(syntax.glob("*.fcp")):
        expected = json.loads(fcp_file.with_suffix(".json").read_text())
        r = get_fcp(str(fcp_file), Logger({}, enable_file_paths=False))
        check(r.is_ok(), "repo: " + fcp_file.name)
        if r.is_ok():
            check(r.unwrap().to_dict() == expected, "repo: tree of " + fcp_file.name)
            check_no_dangling(r.unwrap(), "repo:" + fcp_file.name)


def main():
    workdir = pathlib.Path(tempfile.mkdtemp(prefix="c08demo-")).resolve()
    try:
        api_checks()
        raw_source_checks()
        repo_schema_checks()
        n_ok = n_err = 0
        for name, project in hand_cases().items():
            exp = run_project(project, name, workdir)
            n_ok += exp.err is None
            n_err += exp.err is not None
        rng = random.Random(8008)
        for k in range(220):
            project = random_project(rng, allow_bad=(k % 3 != 0))
            exp = run_project(project, "rand%d" % k, workdir, repeat=1)
            n_ok += exp.err is None
            n_err += exp.err is not None
        print("cases accepted: %d, rejected: %d, checks: %d" % (n_ok, n_err, CHECKS))
        check(n_ok >= 40 and n_err >= 40, "generator is unbalanced")
    finally:
        shutil.rmtree(str(workdir), ignore_errors=True)
    if FAILURES:
        print("FAILED (%d failures)" % len(FAILURES))
        return 1
    print("PASS")
    return 0


if __name__ == "__main__":
    sys.exit(main())
