#!/venv/bin/python
"""C11 demo: the parser is total and its errors are renderable.

Runs a deterministic corpus (valid schemas, every prefix, token-level
mutations, random text, out-of-domain literals, multi-file imports) through
get_fcp / get_fcp_from_string and checks for every input:

  * no exception escapes, the value is Ok(FcpV2) or Err(FcpError);
  * every Err renders (with and without python call-site paths) to a str;
  * every source line a diagnostic cites exists in the named source;
  * the normalised outcome (schema dict or diagnostic text + cited nodes) is
    identical to the outcome recorded on the unchanged tree (EXPECTED digest).

The code under test is located through PYTHONPATH; FCP_ROOT (default
/tmp/twin2-C11) is only used to read the repository's sample schemas.
"""

import hashlib
import json
import os
import pathlib
import random
import re
import shutil
import sys
import tempfile

from fcp.parser import get_fcp, get_fcp_from_string
from fcp.error import Logger, FcpError
from fcp.result import Ok, Err
from fcp.specs.v2 import FcpV2

FCP_ROOT = pathlib.Path(os.environ.get("FCP_ROOT", "/tmp/twin2-C11"))

EXPECTED = "b91070379bb534f6bc6c8c559753609a6a1b28bba4b625f1ea3047f6ac07a9c7"

FOCUS = "Logger.log_lark on every kind of lark exception"

EMBEDDED_VALID = [
    'version: "3"\n',
    'version: "3"\nstruct A {\n    a @0: u8,\n}\n',
    """version: "3"
/* block comment */
enum E {
    Off = 0, // trailing
    On = 1,
}
struct Inner {
    x @0: i13 | range(-5, 5) | unit("m"),
    y @1: f32,
    z @2: f64 | unit("s"),
}
struct Outer {
    inner @0: Inner,
    e @1: E,
    arr @2: [Inner, 3],
    dyn @3: [[u8], 2],
    opt @4: Optional[[E]],
    s @5: str,
    big @6: u64,
}
impl can for Outer as Renamed {
    id: 10,
    device: ecu,
    tags: [a, "b", 3, [1, 2]],
    signal inner {
        bitstart: 0,
        mux: "x",
    },
    signal e {
        bitstart: 8,
    },
}
impl can for Inner {
    id: -1,
}
service Svc @1 {
    method M(Inner) @0 returns Outer,
    method N(Outer) @1 returns Inner,
}
device ecu {
    services: [Svc],
    rate: 1.5,
}
""",
    'version: "3"\nenum Empty {\n}\nstruct S {\n  e @0: Empty,\n}\n',
    'version: "3"\nenum Both {\n A = 0,\n}\nstruct Both {\n a @0: u8,\n}\nstruct U {\n b @0: Both,\n}\n',
    'version: "3"\nstruct Both {\n a @0: u8,\n}\nenum Both {\n A = 0,\n}\nstruct U {\n b @0: Both,\n c @1: [Both, 2],\n d @2: Optional[Both],\n}\n',
]

OUT_OF_DOMAIN = [
    'version: "2"\nstruct A {\n a @0: u8,\n}\n',
    'version: "3.0"\n',
    'version: "3"\nstruct A {\n a @0.5: u8,\n}\n',
    'version: "3"\nstruct A {\n a @-1: u8,\n}\n',
    'version: "3"\nstruct A {\n a @1e3: u8,\n}\n',
    'version: "3"\nenum E {\n A = "zero",\n}\n',
    'version: "3"\nenum E {\n A = 1.5,\n}\n',
    'version: "3"\nenum E {\n A = [1, 2],\n}\n',
    'version: "3"\nenum E {\n A = B,\n}\n',
    'version: "3"\nstruct A {\n a @0: u8 | bogus(1),\n}\n',
    'version: "3"\nstruct A {\n a @0: u8 | range(1),\n}\n',
    'version: "3"\nstruct A {\n a @0: u8 | range(),\n}\n',
    'version: "3"\nstruct A {\n a @0: u8 | range,\n}\n',
    'version: "3"\nstruct A {\n a @0: u8 | range(1, 2, 3),\n}\n',
    'version: "3"\nstruct A {\n a @0: u8 | unit(),\n}\n',
    'version: "3"\nstruct A {\n a @0: u8 | unit(3),\n}\n',
    'version: "3"\nstruct A {\n a @0: u8 | unit("a") | unit("b"),\n}\n',
    'version: "3"\nstruct A {\n a @0: u8 | range("a", "b"),\n}\n',
    'version: "3"\nstruct A {\n a @0: u0,\n}\n',
    'version: "3"\nstruct A {\n a @0: u99,\n}\n',
    'version: "3"\nstruct A {\n a @0: i65,\n}\n',
    'version: "3"\nstruct A {\n a @0: [u8, 1.5],\n}\n',
    'version: "3"\nstruct A {\n a @0: [u8, -2],\n}\n',
    'version: "3"\nstruct A {\n a @0: [u8, 1e2],\n}\n',
    'version: "3"\nstruct A {\n a @0: [Missing, 2],\n}\n',
    'version: "3"\nstruct A {\n a @0: [Missing],\n}\n',
    'version: "3"\nstruct A {\n a @0: Optional[Missing],\n}\n',
    'version: "3"\nstruct A {\n a @0: Optional[[[Missing], 2]],\n}\n',
    'version: "3"\nstruct A {\n a @0: A,\n}\n',
    'version: "3"\nstruct A {\n a @0: B,\n}\nstruct B {\n b @0: u8,\n}\n',
    'version: "3"\nstruct A {\n a @0: u8,\n b @1: Nope,\n}\nstruct C {\n c @0: A,\n}\n',
    'version: "3"\nstruct A {\n}\n',
    'version: "3"\nservice S @0.5 {\n method M(A) @0 returns A,\n}\n',
    'version: "3"\nservice S @0 {\n method M(A) @1.5 returns A,\n}\n',
    'version: "3"\nservice S @0 {\n}\n',
    'version: "3"\ndevice d {\n}\n',
    'version: "3"\ndevice d {\n a: 1,\n a: 2,\n}\n',
    'version: "3"\nimpl can for {\n id: 1,\n}\n',
    'version: "3"\nimpl can for A as {\n id: 1,\n}\n',
    'version: "3"\nimpl can for A {\n signal s {\n },\n}\n',
    'version: "3"\nmod nowhere;\n',
    'version: "3"\nmod a.b.c;\n',
    'version: "3"\nmod ;\n',
    'version: 3\n',
    'version "3"\n',
    "",
    " ",
    "\n\n\n",
    "\x00",
    "version",
    'version: "3',
    'version: "3"\n/* unterminated',
    'version: "3"\n// only a comment',
    'version: "3"\nstruct é {\n a @0: u8,\n}\n',
    'version: "3"\r\nstruct A {\r\n a @0: u8,\r\n}\r\n',
    'version: "3"\n\tstruct A {\n\t\ta @0: Missing,\n}\n',
]

IMPORT_CASES = {
    "ok_import": {
        "main.fcp": 'version: "3"\nmod types;\nstruct M {\n t @0: T,\n e @1: Kind,\n}\n',
        "types.fcp": 'version: "3"\nenum Kind {\n A = 0,\n}\nstruct T {\n v @0: u16 | unit("C"),\n}\n',
    },
    "nested_import": {
        "main.fcp": 'version: "3"\nmod sub.mid;\nstruct M {\n t @0: Leaf,\n m @1: Mid,\n}\n',
        "sub/mid.fcp": 'version: "3"\nmod leaf;\nstruct Mid {\n l @0: Leaf,\n}\n',
        "sub/leaf.fcp": 'version: "3"\nstruct Leaf {\n v @0: u8,\n}\n',
    },
    "import_then_shadow": {
        "main.fcp": 'version: "3"\nmod types;\nenum T {\n A = 0,\n}\nstruct M {\n t @0: T,\n k @1: Kind,\n}\n',
        "types.fcp": 'version: "3"\nenum Kind {\n A = 0,\n}\nstruct T {\n v @0: u16,\n}\n',
    },
    "enum_then_import_struct": {
        "main.fcp": 'version: "3"\nenum T {\n A = 0,\n}\nstruct Before {\n t @0: T,\n}\nmod types;\nstruct After {\n t @0: T,\n}\n',
        "types.fcp": 'version: "3"\nstruct T {\n v @0: u16,\n}\n',
    },
    "use_before_import": {
        "main.fcp": 'version: "3"\nstruct M {\n t @0: T,\n}\nmod types;\n',
        "types.fcp": 'version: "3"\nstruct T {\n v @0: u16,\n}\n',
    },
    "missing_import": {
        "main.fcp": 'version: "3"\nmod gone;\nstruct M {\n t @0: u8,\n}\n',
    },
    "missing_nested_import": {
        "main.fcp": 'version: "3"\nmod mid;\n',
        "mid.fcp": 'version: "3"\nmod gone.away;\n',
    },
    "import_bad_char": {
        "main.fcp": 'version: "3"\n\nmod broken;\nstruct M {\n t @0: T,\n}\n',
        "broken.fcp": 'version: "3"\nstruct T {\n v @0: u16,\n $\n}\n',
    },
    "import_eof": {
        "main.fcp": 'version: "3"\n\n\nmod cut;\n',
        "cut.fcp": 'version: "3"\nstruct T {\n v @0: u16,\n',
    },
    "import_empty": {
        "main.fcp": 'version: "3"\nmod empty;\n',
        "empty.fcp": "",
    },
    "import_semantic_error": {
        "main.fcp": 'version: "3"\nmod sem;\nstruct M {\n t @0: T,\n}\n',
        "sem.fcp": 'version: "3"\nstruct T {\n v @0: Unknown,\n}\n',
    },
    "import_wrong_version": {
        "main.fcp": 'version: "3"\nmod old;\n',
        "old.fcp": 'version: "1"\nstruct T {\n v @0: u8,\n}\n',
    },
    "import_invalid_definition": {
        "main.fcp": 'version: "3"\nmod inv;\n',
        "inv.fcp": 'version: "3"\nstruct T {\n v @0: u8 | nope(1),\n}\n',
    },
    "import_failed_struct_not_visible": {
        "main.fcp": 'version: "3"\nmod sem;\nstruct M {\n t @0: Good,\n}\n',
        "sem.fcp": 'version: "3"\nstruct Good {\n v @0: u8,\n}\nstruct T {\n v @0: Unknown,\n}\n',
    },
    "main_bad_char_after_import": {
        "main.fcp": 'version: "3"\nmod types;\nstruct M {\n t @0: T,\n ?\n}\n',
        "types.fcp": 'version: "3"\nstruct T {\n v @0: u16,\n}\n',
    },
    "double_import": {
        "main.fcp": 'version: "3"\nmod types;\nmod types;\nstruct M {\n t @0: T,\n}\n',
        "types.fcp": 'version: "3"\nstruct T {\n v @0: u16,\n}\n',
    },
}

_TOKEN_RE = re.compile(r'"[^"\n]*"|[A-Za-z_][A-Za-z_0-9]*|-?\d+(?:\.\d+)?|\s+|.', re.S)
_ONE_OF_RE = re.compile(r"expected one of: \[([^\]]*)\]")
_REPLACEMENTS = [
    "{", "}", "[", "]", "(", ")", ",", ":", "@", "|", ";", "=", ".", "struct",
    "enum", "impl", "for", "as", "signal", "service", "method", "returns",
    "device", "mod", "version", "Optional", "u8", "i7", "f32", "f64", "str",
    "u123", "1.5", "-3", '"s"', "1e9", "Missing", "$", "\x00", "é", '"',
]


def valid_schemas():
    found = []
    syntax = FCP_ROOT / "tests" / "schemas" / "syntax"
    for path in sorted(syntax.glob("*.fcp")):
        found.append(path.read_text())
    assert len(found) >= 10, "sample schemas not found under FCP_ROOT"
    return found + EMBEDDED_VALID


def mutations(text, rng, count):
    tokens = _TOKEN_RE.findall(text)
    solid = [i for i, tok in enumerate(tokens) if not tok.isspace()]
    out = []
    for _ in range(count):
        toks = list(tokens)
        kind = rng.choice(["delete", "duplicate", "swap", "replace"])
        i = rng.choice(solid)
        if kind == "delete":
            del toks[i]
        elif kind == "duplicate":
            toks.insert(i, toks[i])
        elif kind == "swap":
            j = rng.choice(solid)
            toks[i], toks[j] = toks[j], toks[i]
        else:
            toks[i] = rng.choice(_REPLACEMENTS)
        out.append("".join(toks))
    return out


def string_corpus():
    rng = random.Random(0xC11)
    valid = valid_schemas()
    corpus = list(valid) + list(OUT_OF_DOMAIN)
    for text in valid:
        step = 1 if len(text) < 120 else 7
        corpus.extend(text[:n] for n in range(0, len(text), step))
        corpus.extend(mutations(text, rng, 12))
    alphabet = 'abstruc enmvio:"3"{}[]()@,|;=.\n\t0123456789_-$\x00é'
    for _ in range(120):
        corpus.append("".join(rng.choice(alphabet) for _ in range(rng.randrange(0, 60))))
    for _ in range(60):
        corpus.append(
            'version: "3"\n'
            + "".join(rng.choice(alphabet) for _ in range(rng.randrange(0, 40)))
        )
    return corpus


def normalise(text, tmp):
    text = text.replace(tmp, "<TMP>")

    def sort_items(match):
        items = sorted(item.strip() for item in match.group(1).split(",") if item.strip())
        return "expected one of: [" + ", ".join(items) + "]"

    return _ONE_OF_RE.sub(sort_items, text)


def check_outcome(label, outcome, logger, tmp):
    """Check the property on one outcome and return its normalised record."""
    assert isinstance(outcome, (Ok, Err)), f"{label}: not a Result: {outcome!r}"
    if outcome.is_ok():
        schema = outcome.unwrap()
        assert isinstance(schema, FcpV2), f"{label}: Ok carries {type(schema)}"
        return ["ok", normalise(json.dumps(schema.to_dict(), sort_keys=True), tmp)]

    err = outcome.err()
    assert isinstance(err, FcpError), f"{label}: Err carries {type(err)}"
    assert len(err.msg) >= 1

    plain = Logger(logger.sources, enable_file_paths=False).error(err)
    verbose = Logger(logger.sources, enable_file_paths=True).error(err)
    assert isinstance(plain, str) and isinstance(verbose, str)
    assert isinstance(repr(err), str)
    # the verbose rendering only adds call-site / schema location lines
    stripped = "\n".join(
        line for line in verbose.split("\n") if not line.startswith("   ↳ [")
    )
    assert stripped == plain, f"{label}: verbose rendering differs in more than locations"

    cited = []
    for entry in err.msg:
        msg, node, origin = entry
        origin_file, origin_line = origin
        assert isinstance(msg, str)
        assert isinstance(origin_file, pathlib.Path) and isinstance(origin_line, int)
        assert origin_line >= 1
        assert origin_file.name in ("parser.py", "error.py"), origin_file
        if node is None:
            cited.append([normalise(msg, tmp), None, origin_file.name])
            continue
        name = pathlib.Path(node.meta.filename).name
        assert name in logger.sources, f"{label}: source {name} unknown to the logger"
        lines = logger.sources[name].split("\n")
        assert 1 <= node.meta.line <= len(lines), (
            f"{label}: cited line {node.meta.line} not in {name} ({len(lines)} lines)"
        )
        assert lines[node.meta.line - 1] in plain, f"{label}: cited line text not rendered"
        cited.append(
            [
                normalise(msg, tmp),
                [name, node.meta.line, node.meta.column, node.meta.end_line, node.meta.end_column],
                origin_file.name,
            ]
        )
    return ["err", normalise(plain, tmp), normalise(repr(err), tmp), cited]


def run_string(label, text, tmp):
    logger = Logger({}, enable_file_paths=False)
    try:
        outcome = get_fcp_from_string(text, logger)
    except BaseException as exc:  # the property: nothing escapes
        raise AssertionError(f"{label}: exception escaped: {exc!r} for {text!r}")
    return check_outcome(label, outcome, logger, tmp)


def run_files(label, files, tmp):
    root = pathlib.Path(tmp) / label
    for rel, text in files.items():
        target = root / rel
        target.parent.mkdir(parents=True, exist_ok=True)
        target.write_text(text)
    records = []
    # twice with the same logger (repeated calls), once with a fresh one
    shared = Logger({}, enable_file_paths=False)
    for logger in (shared, shared, Logger({})):
        try:
            outcome = get_fcp(str(root / "main.fcp"), logger)
        except BaseException as exc:
            raise AssertionError(f"{label}: exception escaped: {exc!r}")
        records.append(check_outcome(label, outcome, logger, tmp))
    assert records[0] == records[1] == records[2], f"{label}: outcome not repeatable"
    return records[0]


def focus_checks(tmp):
    """Logger.log_lark on every kind of lark exception, incl. subclasses."""
    from lark import Lark, UnexpectedCharacters, UnexpectedEOF, UnexpectedToken, UnexpectedInput
    from fcp.parser import fcp_parser

    records = []

    def capture(text, parser=fcp_parser):
        try:
            parser.parse(text)
        except UnexpectedInput as exc:
            return exc
        raise AssertionError(f"{text!r} parsed")

    chars = [capture(t) for t in ("$", 'version: "3"\nstruct A {\n a @0: u8,\n ?}', 'version: "3" struct {', "version: 3")]
    eofs = [capture(t) for t in ("", "version", 'version: "3"\nstruct A {', 'version: "3"\nenum E { A = ')]
    assert all(isinstance(e, UnexpectedCharacters) for e in chars)
    assert all(isinstance(e, UnexpectedEOF) for e in eofs)
    lalr = Lark('start: "a" "b"', parser="lalr")
    tokens = [capture("aa", lalr), capture("a", lalr)]
    assert all(isinstance(e, UnexpectedToken) for e in tokens)

    class CharsChild(UnexpectedCharacters):
        pass

    class EofChild(UnexpectedEOF):
        pass

    class EofFirstBoth(UnexpectedEOF, UnexpectedCharacters):
        pass

    class CharsFirstBoth(UnexpectedCharacters, UnexpectedEOF):
        pass

    def rebrand(exc, cls):
        clone = cls.__new__(cls)
        clone.__dict__.update(exc.__dict__)
        return clone

    derived = [rebrand(chars[1], CharsChild), rebrand(eofs[2], EofChild)]
    # an exception that is both is rendered as unexpected characters
    both = [rebrand(chars[2], EofFirstBoth), rebrand(chars[2], CharsFirstBoth)]
    others = [tokens[0], tokens[1], UnexpectedInput(), ValueError("x"), None, "text"]

    class Shouting(Logger):
        def log_lark_unexpected_eof(self, exception):
            return "EOF!"

        def log_lark_unexpected_characters(self, exception):
            return "CHAR " + exception.char

    plain = Logger({}, enable_file_paths=False)
    shouting = Shouting({})
    for name in ("main.fcp", "", "dir/x.fcp"):
        for exc in chars + derived[:1] + both:
            text = plain.log_lark(name, exc)
            assert normalise(text, tmp) == normalise(plain.log_lark_unexpected_characters(exc), tmp)
            assert text.startswith(f"Unexpected character '{exc.char}', expected one of: [")
            assert shouting.log_lark(name, exc) == "CHAR " + exc.char
            records.append(["focus-chars", name, normalise(text, tmp)])
        for exc in eofs + derived[1:]:
            assert plain.log_lark(name, exc) == "Unexpected EOF"
            assert shouting.log_lark(name, exc) == "EOF!"
            records.append(["focus-eof", name, plain.log_lark(name, exc)])
        for exc in others:
            assert plain.log_lark(name, exc) == "Unexpected EOF in file " + name
            assert shouting.log_lark(name, exc) == "Unexpected EOF in file " + name
            records.append(["focus-other", name, plain.log_lark(name, exc)])
    # replacing a renderer on one instance is honoured as well
    patched = Logger({})
    patched.log_lark_unexpected_eof = lambda exception: "patched"
    assert patched.log_lark("m", eofs[0]) == "patched"
    assert Logger({}).log_lark("m", eofs[0]) == "Unexpected EOF"
    return records


def main():
    tmp = tempfile.mkdtemp(prefix="c11demo")
    cwd = os.getcwd()
    try:
        # relative `mod` lookups of in-memory sources resolve against the cwd
        os.chdir(tmp)
        records = []
        corpus = string_corpus()
        for i, text in enumerate(corpus):
            records.append(run_string(f"s{i}", text, tmp))
        for label in sorted(IMPORT_CASES):
            records.append([label, run_files(label, IMPORT_CASES[label], tmp)])
        # a missing top-level file is the one documented non-Result: it is an
        # OSError raised before parsing starts, so it is not part of the corpus
        records.extend(focus_checks(tmp))
    finally:
        os.chdir(cwd)
        shutil.rmtree(tmp, ignore_errors=True)

    oks = sum(1 for r in records if r[0] == "ok")
    errs = sum(1 for r in records if r[0] == "err")
    digest = hashlib.sha256(json.dumps(records, sort_keys=True).encode()).hexdigest()
    print(f"inputs {len(records)} (ok {oks}, err {errs}, multi-file {len(IMPORT_CASES)})")
    print(f"digest {digest}")
    if "--print-digest" in sys.argv:
        return 0
    if digest != EXPECTED:
        print("FAIL: outcomes differ from the recorded ones")
        return 1
    print("PASS")
    return 0


if __name__ == "__main__":
    sys.exit(main())
