#!/venv/bin/python
"""C14 demo 3: the DBC generator must refuse CAN bindings bigger than 64 bits whatever
the byte order of the signal that holds the excess.

Run with
  PYTHONPATH=$R/src:$R/plugins/fcp_dbc:$R/plugins/fcp_can_c:$R/plugins/fcp_cpp:$R/plugins/fcp_nop
"""
import re
import sys

import cantools

from fcp.parser import get_fcp_from_string

HEADER = 'version: "3"\n'


def impl(signal: str, endianess: str) -> str:
    return (
        "impl can for Foo {\n    id: 10,\n"
        f'    signal {signal} {{\n        endianess: "{endianess}",\n    }},\n}}\n'
    )


U32_U16_U32 = "struct Foo {\n a @0: u32,\n b @1: u16,\n c @2: u32,\n}\n"  # 80 bits
U32_U32_U8 = "struct Foo {\n a @0: u32,\n b @1: u32,\n c @2: u8,\n}\n"  # 72 bits
U56_U16 = "struct Foo {\n a @0: u56,\n c @1: u16,\n}\n"  # 72 bits
U32_U16_U16 = "struct Foo {\n a @0: u32,\n b @1: u16,\n c @2: u16,\n}\n"  # 64 bits

# name -> (bits, schema)
SCHEMAS = {
    "fits_64_big_endian_last": (64, HEADER + U32_U16_U16 + impl("c", "big")),
    "little_endian_last_80": (80, HEADER + U32_U16_U32 + impl("c", "little")),
    "big_endian_byte_at_bit_64": (72, HEADER + U32_U32_U8 + impl("c", "big")),
    "big_endian_u32_crosses_bit_64": (80, HEADER + U32_U16_U32 + impl("c", "big")),
    "big_endian_u16_crosses_bit_64": (72, HEADER + U56_U16 + impl("c", "big")),
}

BO_RE = re.compile(r"^BO_ 10 \w+: (\d+)", re.M)


def dbc_generation(schema: str):
    import fcp_dbc

    fcp = get_fcp_from_string(schema).unwrap()
    try:
        results = fcp_dbc.Generator().generate(fcp, {"output": "out"})
    except BaseException as e:
        return True, None, type(e).__name__
    text = "".join(str(r["contents"]) for r in results)
    match = BO_RE.search(text)
    length = int(match.group(1)) if match else None
    if match:
        # what a DBC consumer sees
        db = cantools.database.load_string(text, database_format="dbc")
        length = db.get_message_by_frame_id(10).length
    return False, length, ""


def main() -> int:
    ok = True
    for name, (bits, schema) in SCHEMAS.items():
        failed, length, exc = dbc_generation(schema)
        if bits <= 64:
            good = not failed and length is not None and length <= 8
        else:
            good = failed and length is None
        print(
            f"{name} ({bits} bits): rejected={failed}{' (' + exc + ')' if exc else ''} "
            f"emitted_message_length={length} -> {'ok' if good else 'VIOLATION'}"
        )
        ok = ok and good
    print("PASS" if ok else "FAIL")
    return 0 if ok else 1


if __name__ == "__main__":
    sys.exit(main())
