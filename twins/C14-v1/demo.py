#!/venv/bin/python
"""C14 demo 1: a CAN binding that does not fit a frame must be rejected by the C
generation command no matter where in the schema the impl is written.

Run with
  PYTHONPATH=$R/src:$R/plugins/fcp_dbc:$R/plugins/fcp_can_c:$R/plugins/fcp_cpp:$R/plugins/fcp_nop
"""
import os
import re
import sys
import tempfile

from fcp.parser import get_fcp_from_string
from fcp.verifier import make_general_verifier
from fcp.codegen import GeneratorManager

STRUCT = """
struct Foo {
    s1 @0: u32,
    s2 @1: u32,
    s3 @2: u8,
}
"""

IMPL = """
impl can for Foo {
    id: 10,
    device: "ecu",
}
"""

OTHER_IMPL = """
impl uds for Foo {
    service: 3,
}
"""

SCHEMAS = {
    # 72 bit message, the usual layout: struct first, impl afterwards
    "struct_then_impl": 'version: "3"\n' + STRUCT + IMPL,
    # the impl is written before the struct it binds (e.g. bindings kept on top)
    "impl_then_struct": 'version: "3"\n' + IMPL + STRUCT,
    # a second binding of the same struct for another protocol follows the CAN one
    "can_then_other_protocol": 'version: "3"\n' + STRUCT + IMPL + OTHER_IMPL,
}

SIGNAL_RE = re.compile(r"can_(?:de|en)code_signal_\w+\(\(\w+\),\s*(\d+),\s*(\d+),")


def c_generation(schema: str):
    """Run the `fcp generate can_c` code path, return (failed, generated files)."""
    fcp = get_fcp_from_string(schema).unwrap()
    out = tempfile.mkdtemp(prefix="c14_")
    failed = False
    try:
        result = GeneratorManager(make_general_verifier()).generate(
            "can_c", None, None, fcp, out
        )
        failed = not (hasattr(result, "is_ok") and result.is_ok())
    except BaseException:  # a hard failure is a rejection too
        failed = True

    files = {}
    for name in os.listdir(out):
        with open(os.path.join(out, name)) as f:
            files[name] = f.read()
    return failed, files


def main() -> int:
    ok = True
    for name, schema in SCHEMAS.items():
        failed, files = c_generation(schema)
        described = [n for n, text in files.items() if "foo" in text.lower() and n.endswith(("_can.c", "_can.h"))]
        beyond = []
        for n, text in files.items():
            for start, length in SIGNAL_RE.findall(text):
                if int(start) + int(length) > 64:
                    beyond.append((n, int(start), int(length)))
        good = failed and not described and not beyond
        print(f"{name}: rejected={failed} files_describing_Foo={described} signals_beyond_frame={sorted(set(beyond))[:3]}")
        ok = ok and good

    print("PASS" if ok else "FAIL")
    return 0 if ok else 1


if __name__ == "__main__":
    sys.exit(main())
