#!/usr/bin/env python
"""C16 demo 3: truncating a message inside a trailing string must be detected.

Run with PYTHONPATH pointing at the worktree under test, e.g.
  PYTHONPATH=$FCP_ROOT/src python demo.py
"""
import sys

from fcp.parser import get_fcp_from_string
from fcp.serde import encode, decode

SCHEMA = """
version: "3"

struct Log {
    level @0: u8,
    stamp @1: u32,
    text @2: str,
}

struct Tags {
    id @0: u16,
    tags @1: [str],
}

struct Sample {
    id @0: u16,
    value @1: f64,
}
"""

fcp = get_fcp_from_string(SCHEMA).unwrap()
failures = []


def sweep(name, value):
    enc = encode(fcp, name, value)
    assert decode(fcp, name, enc) == value, "round trip broken"
    for cut in range(len(enc)):
        try:
            got = decode(fcp, name, enc[:cut])
        except Exception:
            continue
        failures.append("%s: prefix of %d/%d bytes decoded to %r" % (name, cut, len(enc), got))


sweep("Sample", {"id": 3, "value": 2.5})
sweep("Log", {"level": 2, "stamp": 123456, "text": "overheat"})
sweep("Tags", {"id": 9, "tags": ["a", "bcd"]})

# corrupted length prefix: 2**32 - 1 characters announced, none present
try:
    got = decode(fcp, "Log", bytearray([2, 1, 0, 0, 0, 0xFF, 0xFF, 0xFF, 0xFF]))
    failures.append("Log: length prefix 2**32-1 with no data decoded to %r" % (got,))
except Exception:
    pass

if failures:
    for f in failures:
        print(f)
    print("FAIL")
    sys.exit(1)
print("PASS")
sys.exit(0)
