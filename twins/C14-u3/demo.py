#!/venv/bin/python
"""Differential test for property C14.

CAN messages that do not fit a frame are rejected, never truncated.

For a spread of CAN bindings (57..200 bits, the excess located in a scalar,
a nested struct, an array, an enum/float neighbour ...) and for every placement
of a variable-size field (str, dynamic array, Optional) the test checks, against
an oracle written independently of the code under test, that

  * DBC generation and the C generation command fail when (and only when) the
    message does not fit in 64 bits or has a variable-size field, and then emit
    nothing that describes the message;
  * when generation succeeds, every emitted signal (DBC ``SG_`` lines and the C
    ``can_{de,en}code_signal_*`` macros, plus ``.dlc``) sits exactly where the
    oracle expects it, inside the message and without overlaps;
  * the generated C really packs/unpacks the bits where the description says
    (compiled with gcc and run, if a compiler is available).

Run with PYTHONPATH pointing at the worktree under test.  Optional argument
``--dump FILE`` writes everything that was observed (for before/after diffs).
"""

import hashlib
import json
import os
import re
import shutil
import struct as pystruct
import subprocess
import sys
import tempfile
from math import ceil
from pathlib import Path

from fcp.parser import get_fcp
from fcp.codegen import GeneratorManager
from fcp.verifier import make_general_verifier
from fcp.encoding import (
    make_encoder,
    PackedEncoder,
    PackedEncoderContext,
    Value,
)
from fcp.specs.type import (
    ArrayType,
    DoubleType,
    DynamicArrayType,
    EnumType,
    FloatType,
    OptionalType,
    SignedType,
    StringType,
    StructType,
    UnsignedType,
)
import fcp_dbc
import fcp_dbc.dbc_writer as dbc_writer
import fcp_can_c
import cantools

FCP_ROOT = os.environ.get("FCP_ROOT", "/tmp/twin2-C14")
DUMP = {}
FAILURES = []
CHECKS = [0]


def check(cond, msg):
    CHECKS[0] += 1
    if not cond:
        FAILURES.append(msg)
        if len(FAILURES) < 30:
            print("FAIL:", msg)


# ----------------------------------------------------------------------------
# mini schema model + oracle
# ----------------------------------------------------------------------------
# type terms: ("u", n) ("i", n) ("f32",) ("f64",) ("enum", name) ("struct", name)
#             ("arr", t, k) ("str",) ("dyn", t) ("opt", t)

ENUMS = {"Ea": [("Ea0", 0), ("Ea1", 1)], "Eb": [("Eb0", 0), ("Eb5", 5)], "Ec": [("Ec1", 1), ("Ec200", 200)]}


class Variable(Exception):
    pass


def enum_bits(name):
    m = max(v for _, v in ENUMS[name])
    return max(1, m.bit_length())


def type_text(t):
    k = t[0]
    if k in "ui":
        return f"{k}{t[1]}"
    if k in ("f32", "f64", "str"):
        return k
    if k in ("enum", "struct"):
        return t[1]
    if k == "arr":
        return f"[{type_text(t[1])}, {t[2]}]"
    if k == "dyn":
        return f"[{type_text(t[1])}]"
    if k == "opt":
        return f"Optional[{type_text(t[1])}]"
    raise AssertionError(t)


def flatten(structs, t, name, out):
    """Oracle: append (signal name, bits, signed, kind) in wire order."""
    k = t[0]
    if k in "ui":
        out.append((name, t[1], k == "i", k))
    elif k == "f32":
        out.append((name, 32, False, "f32"))
    elif k == "f64":
        out.append((name, 64, False, "f64"))
    elif k == "enum":
        out.append((name, enum_bits(t[1]), False, "enum:" + t[1]))
    elif k == "struct":
        fields = structs[t[1]]
        for fid, fname, ft in sorted(fields, key=lambda f: f[0]):
            flatten(structs, ft, (name + "_" if name else "") + fname, out)
    elif k == "arr":
        for i in range(t[2]):
            flatten(structs, t[1], f"{name}_{i}", out)
    else:
        raise Variable(k)


def layout(structs, root):
    """Return [(name, start, bits, signed, kind)] or None for variable-size."""
    out = []
    try:
        flatten(structs, ("struct", root), "", out)
    except Variable:
        return None
    res, pos = [], 0
    for name, bits, signed, kind in out:
        res.append((name, pos, bits, signed, kind))
        pos += bits
    return res


def schema_text(structs, order, impls, use_enums=True):
    """structs: {name: [(id, fname, type)]}, order: definition order, impls: [(proto, struct, id, dev, extra)]."""
    s = 'version: "3"\n\n'
    if use_enums:
        for en, vals in ENUMS.items():
            s += "enum %s {\n" % en + "".join(f"    {n} = {v},\n" for n, v in vals) + "}\n\n"
    for name in order:
        s += "struct %s {\n" % name
        for fid, fname, ft in structs[name]:
            s += f"    {fname} @{fid}: {type_text(ft)},\n"
        s += "}\n\n"
    for proto, st, mid, dev, extra in impls:
        s += f"impl {proto} for {st} {{\n    id: {mid},\n"
        if dev:
            s += f'    device: "{dev}",\n'
        s += extra
        s += "}\n\n"
    return s


def chunks(n):
    """Split n bits into field widths; a single field up to 99 bits is legal fcp."""
    if n <= 99:
        return [n]
    out = []
    while n > 64:
        out.append(64)
        n -= 64
    if n:
        out.append(n)
    return out


def ufields(prefix, widths, first_id=0, kinds="ui"):
    return [(first_id + i, f"{prefix}{i}", (kinds[i % len(kinds)], w)) for i, w in enumerate(widths)]


def shapes(T):
    """Yield (label, structs, order, root) with a packed size of exactly T bits."""
    # 1. excess in the last scalar(s)
    f = [(0, "a", ("u", 32)), (1, "b", ("i", 16)), (2, "c", ("u", 7))] + ufields("t", chunks(T - 55), 3)
    yield "excess_last", {"Root": f}, ["Root"], "Root"
    # 2. excess in the first scalar(s)
    ch = chunks(T - 55)
    f = ufields("h", ch, 0, "iu") + [(len(ch), "a", ("u", 32)), (len(ch) + 1, "b", ("i", 16)), (len(ch) + 2, "c", ("u", 7))]
    yield "excess_first", {"Root": f}, ["Root"], "Root"
    # 3. excess inside a nested struct
    inner = [(0, "p", ("u", 5))] + ufields("q", chunks(T - 9), 1)
    root = [(0, "a", ("i", 3)), (1, "inner", ("struct", "Inner")), (2, "z", ("u", 1))]
    yield "nested", {"Inner": inner, "Root": root}, ["Inner", "Root"], "Root"
    # 4. two levels deep
    leaf = ufields("x", chunks(T - 9), 0)
    mid = [(0, "b", ("u", 3)), (1, "l", ("struct", "Leaf")), (2, "c", ("i", 4))]
    root = [(0, "a", ("u", 2)), (1, "m", ("struct", "Mid"))]
    yield "deep", {"Leaf": leaf, "Mid": mid, "Root": root}, ["Leaf", "Mid", "Root"], "Root"
    # 5. excess in an array of 7 bit scalars, after an unaligned head
    k = (T - 5) // 7
    rest = T - 7 * k
    root = [(0, "h", ("u", rest)), (1, "arr", ("arr", ("i", 7), k))]
    yield "array_scalar", {"Root": root}, ["Root"], "Root"
    # 6. excess in an array of structs
    k = (T - 4) // 9
    rest = T - 9 * k
    elem = [(0, "x", ("u", 3)), (1, "y", ("i", 6))]
    root = [(0, "arr", ("arr", ("struct", "Elem"), k)), (1, "r", ("u", rest))]
    yield "array_struct", {"Elem": elem, "Root": root}, ["Elem", "Root"], "Root"
    # 7. enum + float neighbours
    root = [(0, "e", ("enum", "Eb")), (1, "f", ("f32",))] + ufields("t", chunks(T - 35), 2)
    yield "enum_float", {"Root": root}, ["Root"], "Root"
    # 8. a double then the excess
    if T >= 64:
        root = [(0, "d", ("f64",))] + (ufields("t", chunks(T - 64), 1) if T > 64 else [])
        yield "double_first", {"Root": root}, ["Root"], "Root"
    # 9. declaration order differs from field ids, array of arrays, 8 bit enum
    rem = T - 8 - 12
    root = [(2, "c", ("arr", ("arr", ("u", 3), 2), 2)), (0, "a", ("enum", "Ec"))] + [
        (fid, n, t) for fid, n, t in ufields("m", chunks(rem), 3)
    ]
    yield "shuffled_ids", {"Root": root}, ["Root"], "Root"


def ceil_pow2(n):
    p = 8
    while p < n:
        p *= 2
    return p


def c_scalar(bits, signed, kind):
    if kind == "f32":
        return "float"
    if kind == "f64":
        return "double"
    return ("int" if signed else "uint") + str(ceil_pow2(bits)) + "_t"


def snake(pascal):
    return "".join("_" + c.lower() if c.isupper() else c for c in pascal).lstrip("_")


# ----------------------------------------------------------------------------
# running the code under test
# ----------------------------------------------------------------------------
TMP = tempfile.mkdtemp(prefix="c14demo")


def parse(text):
    h = hashlib.sha1(text.encode()).hexdigest()[:12]
    p = os.path.join(TMP, h + ".fcp")
    with open(p, "w") as fp:
        fp.write(text)
    r = get_fcp(Path(p))
    assert r.is_ok(), (text, r)
    return r.unwrap()


def run_dbc(fcp):
    """DBC generation through the plug-in's Generator. Returns ('ok', {bus: text}) or ('raise', repr)."""
    try:
        res = fcp_dbc.Generator().generate(fcp, {"output": os.path.join(TMP, "unused")})
    except Exception as e:  # noqa: BLE001
        return "raise", f"{type(e).__name__}: {e}"
    return "ok", {r["bus"]: r["contents"] for r in res}


def run_dbc_cmd(fcp):
    """DBC generation through the command path (verify + gen)."""
    out = tempfile.mkdtemp(dir=TMP)
    try:
        r = GeneratorManager(make_general_verifier()).generate("dbc", None, None, fcp, out)
        status = "ok" if r.is_ok() else "err: " + str(r.err())
    except Exception as e:  # noqa: BLE001
        status = f"raise {type(e).__name__}: {e}"
    files = {f: open(os.path.join(out, f)).read() for f in sorted(os.listdir(out))}
    return status, files


def run_c_cmd(fcp):
    """C generation command (what `fcp generate can_c` does)."""
    out = tempfile.mkdtemp(dir=TMP)
    try:
        r = GeneratorManager(make_general_verifier()).generate("can_c", None, None, fcp, out)
        status = "ok" if r.is_ok() else "err: " + repr(r.err())
    except Exception as e:  # noqa: BLE001
        status = f"raise {type(e).__name__}: {e}"
    files = {f: open(os.path.join(out, f)).read() for f in sorted(os.listdir(out))}
    return status, files, out


def dbc_signals(text, msg_name):
    db = cantools.database.load_string(text, database_format="dbc")
    m = db.get_message_by_name(msg_name)
    return m, {s.name: s for s in m.signals}


def check_dbc_ok(label, text, msg_name, lay, big=()):
    m, sigs = dbc_signals(text, msg_name)
    total = lay[-1][1] + lay[-1][2]
    check(m.length == ceil(total / 8), f"{label}: dbc length {m.length} != ceil({total}/8)")
    check(m.length <= 8, f"{label}: dbc length {m.length} > 8")
    check(set(sigs) == {n for n, *_ in lay}, f"{label}: dbc signal names {sorted(sigs)} vs oracle")
    used = 0
    for name, start, bits, signed, kind in lay:
        s = sigs.get(name)
        if s is None:
            continue
        exp_start = start + 7 if name in big else start
        check(
            (s.start, s.length, s.is_signed) == (exp_start, bits, signed),
            f"{label}: dbc signal {name} {(s.start, s.length, s.is_signed)} != {(exp_start, bits, signed)}",
        )
        check(s.byte_order == ("big_endian" if name in big else "little_endian"), f"{label}: byte order {name}")
        check(start + bits <= m.length * 8, f"{label}: dbc signal {name} extends beyond the message")
        mask = ((1 << bits) - 1) << start
        check(used & mask == 0, f"{label}: dbc signal {name} overlaps")
        used |= mask
    # raw text too
    for name, start, bits, signed, kind in lay:
        if name in big:
            continue
        line = f' SG_ {name} : {start}|{bits}@1{"-" if signed else "+"} '
        check(line in text, f"{label}: missing dbc line {line!r}")


def check_c_ok(label, files, dev, msg_pascal, mid, lay):
    total = lay[-1][1] + lay[-1][2]
    src = files.get(f"{dev}_can.c", "")
    hdr = files.get(f"{dev}_can.h", "")
    ms = snake(msg_pascal)
    dec, enc = [], []
    for name, start, bits, signed, kind in lay:
        ct = c_scalar(bits, signed, kind)
        dec.append(
            f"#define can_decode_signal_{ms}_{name}(msg) \\\n"
            f"    can_decode_signal_as_{ct}((msg), {start}, {bits}, 1.0, 0.0, false);"
        )
        enc.append(
            f"#define can_encode_signal_{ms}_{name}(signal) \\\n"
            f"    can_encode_signal_from_{ct}((signal), {start}, {bits}, 1.0, 0.0, false);"
        )
        check(start + bits <= 64 and start + bits <= ceil(total / 8) * 8, f"{label}: oracle signal outside frame")
    block = f"// {msg_pascal}\n" + "\n".join(dec) + "\n"
    check(block in src, f"{label}: decode macro block for {msg_pascal} differs from oracle")
    block = f"// {msg_pascal}\n" + "\n".join(enc) + "\n"
    check(block in src, f"{label}: encode macro block for {msg_pascal} differs from oracle")
    # every macro of this message in the file is one of ours (nothing extra, nothing truncated)
    got = re.findall(r"#define can_(?:de|en)code_signal_%s_\w+\(\w+\) \\\n[^\n]*" % ms, src)
    check(sorted(got) == sorted(dec + enc), f"{label}: unexpected signal macros for {msg_pascal}")
    for g in got:
        a = re.search(r"\(\((?:msg|signal)\), (\d+), (\d+),", g)
        check(a is not None and int(a.group(1)) + int(a.group(2)) <= 64, f"{label}: macro beyond frame {g!r}")
    check(
        f"CanFrame message = {{.id = {mid}, .dlc = {ceil(total / 8)}}};" in src,
        f"{label}: dlc of {msg_pascal} is not {ceil(total / 8)}",
    )
    check(f"#define CAN_MSG_ID_{ms.upper()} {mid}\n" in hdr, f"{label}: id define of {msg_pascal}")
    check(f"}} CanMsg{msg_pascal};" in hdr, f"{label}: struct typedef of {msg_pascal}")


def mentions(files, *words):
    return [f for f, t in files.items() for w in words if w in t]


# ----------------------------------------------------------------------------
# part 1: size sweep
# ----------------------------------------------------------------------------
SIZES = list(range(57, 73)) + [79, 80, 81, 96, 99, 100, 127, 128, 129, 160, 199, 200]


def part_sizes():
    for T in SIZES:
        for label, structs, order, root in shapes(T):
            label = f"{label}/{T}"
            lay = layout(structs, root)
            assert lay is not None and lay[-1][1] + lay[-1][2] == T, (label, lay)
            text = schema_text(structs, order, [("can", root, 10, "ecu", "")])
            fcp = parse(text)

            st, res = run_dbc(fcp)
            DUMP[f"dbc/{label}"] = [st, res]
            if T > 64:
                check(st == "raise" and res.startswith("ValueError"), f"{label}: dbc did not fail: {st} {str(res)[:80]}")
                check(f"Message {root} too big. Current length: {T}" in str(res), f"{label}: dbc error text {res}")
            else:
                check(st == "ok", f"{label}: dbc failed for a fitting message: {res}")
                if st == "ok":
                    check(list(res) == ["default"], f"{label}: buses {list(res)}")
                    check_dbc_ok(label, res["default"], root, lay)

            st, files = run_dbc_cmd(fcp)
            DUMP[f"dbccmd/{label}"] = [st, files]
            if T > 64:
                check(st.startswith("raise ValueError") and not files, f"{label}: dbc command {st} files {list(files)}")
            else:
                check(st == "ok" and list(files) == ["default.fcp"], f"{label}: dbc command {st} {list(files)}")

            st, files, out = run_c_cmd(fcp)
            DUMP[f"c/{label}"] = [st, files]
            if T > 64:
                check(st.startswith("err"), f"{label}: C command did not fail: {st}")
                check(f"Impl {root} is way too big at {T} bits" in st, f"{label}: C command error text: {st}")
                check(not files, f"{label}: C command failed but wrote {list(files)}")
                check(not mentions(files, root, "root"), f"{label}: rejected message described in output")
            else:
                check(st == "ok", f"{label}: C command failed for a fitting message: {st}")
                if st == "ok":
                    check_c_ok(label, files, "ecu", root, 10, lay)
            shutil.rmtree(out, ignore_errors=True)


# ----------------------------------------------------------------------------
# part 2: variable-size fields at every placement
# ----------------------------------------------------------------------------
VAR_TYPES = [
    ("str",),
    ("dyn", ("u", 8)),
    ("dyn", ("struct", "Elem")),
    ("opt", ("u", 8)),
    ("opt", ("struct", "Elem")),
    ("opt", ("arr", ("u", 4), 2)),
    ("arr", ("dyn", ("u", 8)), 2),
    ("arr", ("str",), 2),
    ("arr", ("opt", ("i", 5)), 3),
    ("dyn", ("dyn", ("u", 8))),
    ("opt", ("enum", "Ea")),
]


def var_placements(vt):
    elem = [(0, "x", ("u", 3)), (1, "y", ("i", 6))]
    base = {"Elem": elem}
    yield "only", dict(base, Root=[(0, "v", vt)]), ["Elem", "Root"]
    yield "first", dict(base, Root=[(0, "v", vt), (1, "a", ("u", 8)), (2, "b", ("i", 16))]), ["Elem", "Root"]
    yield "middle", dict(base, Root=[(0, "a", ("u", 8)), (1, "v", vt), (2, "b", ("i", 16))]), ["Elem", "Root"]
    yield "last", dict(base, Root=[(0, "a", ("u", 8)), (1, "b", ("i", 16)), (2, "v", vt)]), ["Elem", "Root"]
    yield "last_by_id", dict(base, Root=[(9, "v", vt), (0, "a", ("u", 8)), (1, "b", ("i", 16))]), ["Elem", "Root"]
    yield "nested", dict(
        base, Inner=[(0, "p", ("u", 5)), (1, "v", vt)], Root=[(0, "a", ("u", 8)), (1, "inner", ("struct", "Inner"))]
    ), ["Elem", "Inner", "Root"]
    yield "deep", dict(
        base,
        Leaf=[(0, "v", vt)],
        Mid=[(0, "l", ("struct", "Leaf")), (1, "c", ("u", 1))],
        Root=[(0, "a", ("u", 8)), (1, "m", ("struct", "Mid")), (2, "z", ("u", 2))],
    ), ["Elem", "Leaf", "Mid", "Root"]
    yield "in_array_elem", dict(
        base, Cell=[(0, "k", ("u", 2)), (1, "v", vt)], Root=[(0, "cells", ("arr", ("struct", "Cell"), 2)), (1, "a", ("u", 8))]
    ), ["Elem", "Cell", "Root"]
    yield "after_64", dict(base, Root=[(0, "a", ("u", 64)), (1, "v", vt)]), ["Elem", "Root"]
    yield "after_65", dict(base, Root=[(0, "a", ("u", 64)), (1, "b", ("u", 1)), (2, "v", vt)]), ["Elem", "Root"]


def part_variable():
    for vi, vt in enumerate(VAR_TYPES):
        for place, structs, order in var_placements(vt):
            label = f"var/{type_text(vt)}/{place}"
            assert layout(structs, "Root") is None
            fcp = parse(schema_text(structs, order, [("can", "Root", 33, "ecu", "")]))

            st, res = run_dbc(fcp)
            DUMP[f"dbc/{label}"] = [st, res]
            check(st == "raise", f"{label}: dbc generation did not fail ({st})")
            check(str(res).startswith("ValueError: Error computing type length for type "), f"{label}: dbc error: {res}")

            st, files = run_dbc_cmd(fcp)
            DUMP[f"dbccmd/{label}"] = [st, files]
            check(st.startswith("raise ValueError") and not files, f"{label}: dbc command {st} {list(files)}")

            st, files, out = run_c_cmd(fcp)
            DUMP[f"c/{label}"] = [st, files]
            check(st.startswith("err"), f"{label}: C command did not fail ({st})")
            check(
                "Impl Root cannot be packed into a CAN frame: Error computing type length for type " in st,
                f"{label}: C command error text: {st}",
            )
            check(not files, f"{label}: C command failed but wrote {list(files)}")
            shutil.rmtree(out, ignore_errors=True)


# ----------------------------------------------------------------------------
# part 3: several bindings in one schema, other protocols, mux, big endian, repeated calls
# ----------------------------------------------------------------------------
def part_multi():
    structs = {
        "Fits": [(0, "a", ("u", 3)), (1, "b", ("i", 13)), (2, "c", ("u", 16)), (3, "d", ("i", 32))],
        "Small": [(0, "x", ("u", 7)), (1, "y", ("arr", ("u", 5), 4)), (2, "z", ("i", 30))],
        "Big": [(0, "a", ("u", 64)), (1, "b", ("u", 1))],
        "Vary": [(0, "a", ("u", 8)), (1, "s", ("str",))],
    }
    order = ["Fits", "Small", "Big", "Vary"]
    lay_f, lay_s = layout(structs, "Fits"), layout(structs, "Small")

    # both fit: the second one starts again at bit 0 (encoder re-used between impls)
    fcp = parse(schema_text(structs, order, [("can", "Fits", 1, "ecu", ""), ("can", "Small", 2, "bms", "")]))
    for rep in range(2):
        st, res = run_dbc(fcp)
        DUMP[f"dbc/multi_ok/{rep}"] = [st, res]
        check(st == "ok", f"multi_ok: dbc {st} {res}")
        if st == "ok":
            check_dbc_ok("multi_ok/Fits", res["default"], "Fits", lay_f)
            check_dbc_ok("multi_ok/Small", res["default"], "Small", lay_s)
        st, files, out = run_c_cmd(fcp)
        DUMP[f"c/multi_ok/{rep}"] = [st, files]
        check(st == "ok", f"multi_ok: C {st}")
        if st == "ok":
            check_c_ok("multi_ok/Fits", files, "ecu", "Fits", 1, lay_f)
            check_c_ok("multi_ok/Small", files, "bms", "Small", 2, lay_s)

    # the too big / variable structs bound to another protocol do not disturb the CAN outputs
    fcp = parse(
        schema_text(structs, order, [("can", "Fits", 1, "ecu", ""), ("udp", "Big", 2, "", ""), ("udp", "Vary", 3, "", "")])
    )
    st, res = run_dbc(fcp)
    DUMP["dbc/other_proto"] = [st, res]
    check(st == "ok", f"other_proto: dbc {st} {res}")
    if st == "ok":
        check_dbc_ok("other_proto", res["default"], "Fits", lay_f)
        check("Big" not in res["default"] and "Vary" not in res["default"], "other_proto: non CAN impl in dbc")
    st, files, out = run_c_cmd(fcp)
    DUMP["c/other_proto"] = [st, files]
    check(st == "ok", f"other_proto: C {st}")
    if st == "ok":
        check_c_ok("other_proto", files, "ecu", "Fits", 1, lay_f)
        check(not mentions(files, "CanMsgBig", "CanMsgVary"), "other_proto: non CAN impl in C")

    # one bad binding anywhere rejects the run, nothing is emitted for it
    for bad, pos in [("Big", 0), ("Big", 1), ("Vary", 0), ("Vary", 1)]:
        impls = [("can", "Fits", 1, "ecu", "")]
        impls.insert(pos, ("can", bad, 7, "ecu", ""))
        fcp = parse(schema_text(structs, order, impls))
        label = f"multi_bad/{bad}/{pos}"
        st, res = run_dbc(fcp)
        DUMP[f"dbc/{label}"] = [st, res]
        check(st == "raise" and str(res).startswith("ValueError"), f"{label}: dbc {st} {str(res)[:60]}")
        st, files = run_dbc_cmd(fcp)
        check(st.startswith("raise ValueError") and not files, f"{label}: dbc command {st} {list(files)}")
        st, files, out = run_c_cmd(fcp)
        DUMP[f"c/{label}"] = [st, files]
        check(st.startswith("err") and f"Impl {bad} " in st, f"{label}: C {st}")
        check(not files, f"{label}: C wrote {list(files)}")

    # muxed + big endian (taken from the plug-in's own examples)
    extra = '\n    signal s2 {\n        mux_count: 4,\n        mux_signal: "s1",\n    },\n'
    st2 = {"Foo": [(0, "s1", ("u", 8)), (1, "s2", ("u", 8))]}
    fcp = parse(schema_text(st2, ["Foo"], [("can", "Foo", 10, "", extra)], use_enums=False))
    st, res = run_dbc(fcp)
    DUMP["dbc/mux"] = [st, res]
    check(st == "ok", f"mux: {st} {res}")
    if st == "ok":
        t = res["default"]
        check("BO_ 10 Foo: 2 Vector__XXX" in t, "mux: BO_ line")
        check(' SG_ s1 M : 0|8@1+ (1,0) [0|0] "" Vector__XXX' in t, "mux: multiplexer line")
        check(' SG_ s2 m0 : 8|8@1+ (1,0) [0|0] "" Vector__XXX' in t, "mux: multiplexed line")
    extra = '\n    signal s2 {\n        endianess: "big",\n    },\n'
    fcp = parse(schema_text(st2, ["Foo"], [("can", "Foo", 10, "", extra)], use_enums=False))
    st, res = run_dbc(fcp)
    DUMP["dbc/big"] = [st, res]
    check(st == "ok", f"big: {st} {res}")
    if st == "ok":
        check_dbc_ok("big", res["default"], "Foo", layout(st2, "Foo"), big=("s2",))
        check(' SG_ s2 : 15|8@0+ (1,0) [0|0] "" Vector__XXX' in res["default"], "big: SG_ line")
    # the C plug-in spells the key "endianness": the byte order flag reaches both macros
    extra2 = '\n    signal s2 {\n        endianness: "big",\n    },\n'
    fcp = parse(schema_text(st2, ["Foo"], [("can", "Foo", 10, "ecu", extra2)], use_enums=False))
    st, files, out = run_c_cmd(fcp)
    DUMP["c/big"] = [st, files]
    check(st == "ok", f"c/big: {st}")
    src = files.get("ecu_can.c", "")
    for line in [
        "    can_decode_signal_as_uint8_t((msg), 0, 8, 1.0, 0.0, false);",
        "    can_decode_signal_as_uint8_t((msg), 8, 8, 1.0, 0.0, true);",
        "    can_encode_signal_from_uint8_t((signal), 0, 8, 1.0, 0.0, false);",
        "    can_encode_signal_from_uint8_t((signal), 8, 8, 1.0, 0.0, true);",
    ]:
        check(src.count(line) == 1, f"c/big: {line!r} x{src.count(line)}")
    check("CanFrame message = {.id = 10, .dlc = 2};" in src, "c/big: dlc")
    # too big with a big endian tail: still rejected
    st3 = {"Foo": [(0, "s1", ("u", 60)), (1, "s2", ("u", 8))]}
    fcp = parse(schema_text(st3, ["Foo"], [("can", "Foo", 10, "ecu", extra)], use_enums=False))
    st, res = run_dbc(fcp)
    check(st == "raise" and "Message Foo too big. Current length: 68" in str(res), f"big68: {st} {res}")
    st, files, out = run_c_cmd(fcp)
    check(st.startswith("err") and "way too big at 68 bits" in st and not files, f"big68: C {st}")


# ----------------------------------------------------------------------------
# part 4: the building blocks directly
# ----------------------------------------------------------------------------
def part_units():
    structs = {"Elem": [(0, "x", ("u", 3)), (1, "y", ("i", 6))], "Root": [(0, "e", ("enum", "Ec")), (1, "a", ("arr", ("struct", "Elem"), 2))]}
    fcp = parse(schema_text(structs, ["Elem", "Root"], [("can", "Root", 5, "ecu", "")]))
    enc = PackedEncoder(fcp, PackedEncoderContext())
    table = [
        (UnsignedType("u1"), 1),
        (UnsignedType("u64"), 64),
        (UnsignedType("u99"), 99),
        (SignedType("i7"), 7),
        (FloatType(), 32),
        (DoubleType(), 64),
        (EnumType("Ea"), 1),
        (EnumType("Eb"), 3),
        (EnumType("Ec"), 8),
        (ArrayType(UnsignedType("u5"), 13), 65),
        (ArrayType(ArrayType(SignedType("i3"), 3), 3), 27),
        (ArrayType(EnumType("Eb"), 4), 12),
        (ArrayType(DoubleType(), 0), 0),
    ]
    for t, n in table:
        got = enc._get_type_length(fcp, t)
        check(got == n and type(got) is int, f"type length of {t}: {got!r} != {n}")

    class Narrow(UnsignedType):
        pass

    check(enc._get_type_length(fcp, Narrow("u11")) == 11, "type length of a subclass of UnsignedType")
    for t in [
        StringType(),
        DynamicArrayType(UnsignedType("u8")),
        OptionalType(UnsignedType("u8")),
        StructType("Elem"),
        ArrayType(StringType(), 2),
        ArrayType(StructType("Elem"), 2),
        ArrayType(ArrayType(OptionalType(FloatType()), 1), 1),
    ]:
        try:
            enc._get_type_length(fcp, t)
            check(False, f"type length of {t} did not raise")
        except ValueError as e:
            inner = t
            while isinstance(inner, ArrayType):
                inner = inner.underlying_type
            check(str(e) == "Error computing type length for type " + str(inner), f"type length error text: {e}")
    try:
        enc._get_type_length(fcp, EnumType("Nope"))
        check(False, "unknown enum did not raise")
    except Exception as e:  # noqa: BLE001
        DUMP["unit/unknown_enum"] = f"{type(e).__name__}: {e}"
        check(not isinstance(e, ValueError) or "Error computing" not in str(e), "unknown enum error kind")

    # encoder: repeated generate() restarts at 0, rolled and unrolled arrays
    impl = next(fcp.get_matching_impls("can"))
    for unroll, exp in [
        (True, [("e", 0, 8), ("a_0::x", 8, 3), ("a_0::y", 11, 6), ("a_1::x", 17, 3), ("a_1::y", 20, 6)]),
    ]:
        e2 = make_encoder("packed", fcp, PackedEncoderContext().with_unroll_arrays(unroll))
        for rep in range(3):
            got = [(v.name, v.bitstart, v.bitlength) for v in e2.generate(impl)]
            check(got == exp, f"encoder unroll={unroll} rep={rep}: {got}")
    try:
        make_encoder("packed", fcp, PackedEncoderContext()).generate(impl)
        check(False, "rolled array of structs did not raise")
    except ValueError as e:
        check(str(e).startswith("Error computing type length for type StructType"), f"rolled struct array: {e}")

    # dbc_writer._make_signals: boundary, result usable as a pair
    def pieces(widths):
        out, pos = [], 0
        for i, w in enumerate(widths):
            out.append(Value(f"s{i}", UnsignedType(f"u{w}"), pos, w, extended_data={}))
            pos += w
        return out

    for widths in [[1], [7], [8], [9], [3, 13, 16, 32], [63], [64], [60, 4], [1] * 64, [0, 8], [8, 0], [0]]:
        total = sum(widths)
        r = dbc_writer._make_signals(pieces(widths), "M")
        signals, dlc = r
        check(len(r) == 2 and r[0] is signals and r[1] == dlc, f"_make_signals pair {widths}")
        check(dlc == -(-total // 8) and type(dlc) is int, f"_make_signals dlc {widths}: {dlc!r}")
        check([(s.start, s.length) for s in signals] == [(p.bitstart, p.bitlength) for p in pieces(widths)], f"_make_signals {widths}")
    for widths in [[65], [64, 1], [60, 5], [1] * 65, [32, 32, 32], [99], [64, 64, 64, 8]]:
        try:
            dbc_writer._make_signals(pieces(widths), "M")
            check(False, f"_make_signals accepted {sum(widths)} bits")
        except ValueError as e:
            check(str(e) == f"Message M too big. Current length: {sum(widths)}", f"_make_signals error {e}")
    try:
        dbc_writer._make_signals([], "M")
        check(False, "_make_signals([]) did not raise")
    except IndexError:
        pass
    except Exception as e:  # noqa: BLE001
        check(False, f"_make_signals([]) raised {type(e).__name__}")

    # the C plug-in's own size check, directly
    from fcp.verifier import Verifier

    for T in (63, 64, 65, 72):
        s = {"Root": ufields("f", [T - 40, 40] if T - 40 <= 64 else [T - 40], 0)}
        f2 = parse(schema_text(s, ["Root"], [("can", "Root", 1, "ecu", "")], use_enums=False))
        v = Verifier()
        fcp_can_c.Generator().register_checks(v)
        r = v.verify(f2)
        check(r.is_ok() == (T <= 64), f"check_impl_size at {T}: {r}")
        if r.is_err():
            check(repr(r.err()) == f"Impl Root is way too big at {T} bits", f"check_impl_size text {r.err()!r}")


# ----------------------------------------------------------------------------
# part 5: compile the generated C and compare the frames bit for bit
# ----------------------------------------------------------------------------
def part_compile():
    cc = shutil.which("gcc") or shutil.which("clang")
    if cc is None:
        print("no C compiler, skipping the compile step")
        return
    structs = {
        "Elem": [(0, "x", ("u", 3)), (1, "y", ("i", 6))],
        "Full": [(0, "a", ("u", 3)), (1, "b", ("i", 13)), (2, "c", ("u", 16)), (3, "d", ("i", 32))],
        "Odd": [(0, "x", ("u", 7)), (1, "y", ("arr", ("u", 5), 4)), (2, "z", ("i", 30))],
        "Nest": [(0, "e", ("enum", "Eb")), (1, "arr", ("arr", ("struct", "Elem"), 3)), (2, "f", ("f32",)), (3, "t", ("u", 2))],
        "Wide": [(0, "w", ("u", 64))],
        "Wide2": [(0, "b", ("u", 1)), (1, "w", ("i", 63))],
        "Dbl": [(0, "d", ("f64",))],
        "Five": [(0, "p", ("u", 40)), (1, "q", ("i", 17))],
    }
    order = list(structs)
    msgs = ["Full", "Odd", "Nest", "Wide", "Wide2", "Dbl", "Five"]
    fcp = parse(schema_text(structs, order, [("can", m, 100 + i, "ecu", "") for i, m in enumerate(msgs)]))
    st, files, out = run_c_cmd(fcp)
    check(st == "ok", f"compile: C command {st}")
    if st != "ok":
        return
    DUMP["c/compile"] = [st, files]

    def values(lay, variant):
        vals = []
        for i, (name, start, bits, signed, kind) in enumerate(lay):
            if kind == "f32":
                vals.append([1.5, -0.15625, 3.0e38][variant])
            elif kind == "f64":
                vals.append([1.5, -1.0e-300, 12345.678][variant])
            elif kind.startswith("enum"):
                vals.append([5, 0, 5][variant])
            else:
                mask = (1 << bits) - 1
                raw = [mask, 0xAAAAAAAAAAAAAAAA & mask, (0x123456789ABCDEF1 >> i) & mask][variant]
                if signed and raw >> (bits - 1):
                    raw -= 1 << bits
                vals.append(raw)
        return vals

    body, expected = [], []
    for m in msgs:
        lay = layout(structs, m)
        check_c_ok(f"compile/{m}", files, "ecu", m, 100 + msgs.index(m), lay)
        total = lay[-1][1] + lay[-1][2]
        for variant in range(3):
            vals = values(lay, variant)
            word = 0
            for (name, start, bits, signed, kind), v in zip(lay, vals):
                if kind == "f32":
                    raw = pystruct.unpack("<I", pystruct.pack("<f", v))[0]
                elif kind == "f64":
                    raw = pystruct.unpack("<Q", pystruct.pack("<d", v))[0]
                else:
                    raw = v & ((1 << bits) - 1)
                word |= raw << start
            check(word < (1 << 64) and word < (1 << (8 * ceil(total / 8))), f"compile/{m}: oracle word too wide")
            body.append("  {")
            body.append(f"    CanMsg{m} in = {{0}};")
            for (name, start, bits, signed, kind), v in zip(lay, vals):
                if kind in ("f32", "f64"):
                    lit = repr(float(v)) + ("f" if kind == "f32" else "")
                elif signed:
                    lit = f"(int64_t)({v}LL)" if v > -(1 << 63) else "(-9223372036854775807LL - 1)"
                else:
                    lit = f"{v}ULL"
                body.append(f"    in.{name} = {lit};")
            body.append(f"    CanFrame fr = can_encode_msg_{snake(m)}(&in);")
            body.append(f'    printf("{m} {variant} id=%u dlc=%u data=", (unsigned)fr.id, (unsigned)fr.dlc);')
            body.append('    for (int i = 0; i < 8; i++) printf("%02x", fr.data[i]);')
            body.append(f"    CanMsg{m} o = can_decode_msg_{snake(m)}(&fr);")
            body.append('    printf(" same=%d\\n", 1')
            for name, *_ in lay:
                body.append(f"      && (o.{name} == in.{name})")
            body.append("    );")
            body.append("  }")
            expected.append(
                f"{m} {variant} id={100 + msgs.index(m)} dlc={ceil(total / 8)} data={word.to_bytes(8, 'little').hex()} same=1"
            )
    main = (
        '#include <stdio.h>\n#include <stdint.h>\n#include "can_frame.h"\n#include "ecu_can.h"\n'
        "int main(void) {\n" + "\n".join(body) + "\n  return 0;\n}\n"
    )
    with open(os.path.join(out, "main.c"), "w") as fp:
        fp.write(main)
    exe = os.path.join(out, "t")
    r = subprocess.run(
        [cc, "-O0", "-w", "-fno-strict-aliasing", "-I", out, "-o", exe]
        + [os.path.join(out, f) for f in ("main.c", "ecu_can.c", "can_signal_parser.c")],
        capture_output=True,
        text=True,
    )
    check(r.returncode == 0, f"compile: {cc} failed: {r.stderr[:2000]}")
    if r.returncode != 0:
        return
    r = subprocess.run([exe], capture_output=True, text=True)
    got = r.stdout.strip().split("\n")
    DUMP["c/compile/run"] = got
    check(r.returncode == 0, f"compile: run exit {r.returncode}")
    check(len(got) == len(expected), f"compile: {len(got)} lines, expected {len(expected)}")
    for g, e in zip(got, expected):
        check(g == e, f"compile: got {g!r} expected {e!r}")


SWEEP_C = r"""
#include <stdio.h>
#include <stdint.h>
#include <string.h>
#include "can_frame.h"
#include "can_signal_parser.h"

static uint64_t ref_mask(unsigned n) { return n >= 64 ? ~0ULL : ((1ULL << n) - 1ULL); }

int main(void) {
    static const uint64_t pats[] = {0ULL, ~0ULL, 0xAAAAAAAAAAAAAAAAULL, 0x5555555555555555ULL,
                                    0x0123456789ABCDEFULL, 0x8000000000000001ULL, 0xF0E1D2C3B4A59687ULL};
    unsigned long bad = 0, n = 0;
    for (unsigned p = 0; p < sizeof(pats) / sizeof(pats[0]); p++) {
        CanFrame fr;
        memset(&fr, 0, sizeof fr);
        memcpy(fr.data, &pats[p], 8);
        for (unsigned start = 0; start < 64; start++) {
            for (unsigned len = 1; start + len <= 64; len++) {
                uint64_t raw = (pats[p] >> start) & ref_mask(len);
                int64_t sraw = (len < 64 && ((raw >> (len - 1)) & 1)) ? (int64_t)(raw | ~ref_mask(len)) : (int64_t)raw;
                n++;
                if (can_decode_signal_as_uint64_t(&fr, start, len, 1.0f, 0.0f, false) != raw) bad++;
                if (can_decode_signal_as_int64_t(&fr, start, len, 1.0f, 0.0f, false) != sraw) bad++;
                if (len <= 32 && can_decode_signal_as_uint32_t(&fr, start, len, 1.0f, 0.0f, false) != (uint32_t)raw) bad++;
                if (len <= 32 && can_decode_signal_as_int32_t(&fr, start, len, 1.0f, 0.0f, false) != (int32_t)sraw) bad++;
                if (len <= 16 && can_decode_signal_as_uint16_t(&fr, start, len, 1.0f, 0.0f, false) != (uint16_t)raw) bad++;
                if (len <= 16 && can_decode_signal_as_int16_t(&fr, start, len, 1.0f, 0.0f, false) != (int16_t)sraw) bad++;
                if (len <= 8 && can_decode_signal_as_uint8_t(&fr, start, len, 1.0f, 0.0f, false) != (uint8_t)raw) bad++;
                if (len <= 8 && can_decode_signal_as_int8_t(&fr, start, len, 1.0f, 0.0f, false) != (int8_t)sraw) bad++;
                /* encoders: only the low len bits of the value land in the frame, at start */
                uint64_t v = pats[(p + 3) % 7];
                uint64_t want = (v & ref_mask(len)) << start;
                if (can_encode_signal_from_uint64_t(v, start, len, 1.0f, 0.0f, false) != want) bad++;
                if (can_encode_signal_from_int64_t((int64_t)v, start, len, 1.0f, 0.0f, false) != want) bad++;
                if (can_encode_signal_from_uint32_t((uint32_t)v, start, len, 1.0f, 0.0f, false) != (((uint64_t)(uint32_t)v & ref_mask(len)) << start)) bad++;
                if (can_encode_signal_from_int32_t((int32_t)v, start, len, 1.0f, 0.0f, false) != (((uint64_t)(int64_t)(int32_t)v & ref_mask(len)) << start)) bad++;
                if (can_encode_signal_from_uint16_t((uint16_t)v, start, len, 1.0f, 0.0f, false) != (((uint64_t)(uint16_t)v & ref_mask(len)) << start)) bad++;
                if (can_encode_signal_from_int16_t((int16_t)v, start, len, 1.0f, 0.0f, false) != (((uint64_t)(int64_t)(int16_t)v & ref_mask(len)) << start)) bad++;
                if (can_encode_signal_from_uint8_t((uint8_t)v, start, len, 1.0f, 0.0f, false) != (((uint64_t)(uint8_t)v & ref_mask(len)) << start)) bad++;
                if (can_encode_signal_from_int8_t((int8_t)v, start, len, 1.0f, 0.0f, false) != (((uint64_t)(int64_t)(int8_t)v & ref_mask(len)) << start)) bad++;
                /* an encoded signal never touches a bit outside [start, start+len) */
                if (can_encode_signal_from_uint64_t(~0ULL, start, len, 1.0f, 0.0f, false) & ~(ref_mask(len) << start)) bad++;
            }
            if (start <= 32) {
                float f = 1.0f + (float)start / 7.0f + (float)p;
                uint32_t fi;
                memcpy(&fi, &f, 4);
                uint64_t w = can_encode_signal_from_float(f, start, 32, 1.0f, 0.0f, false);
                if (w != ((uint64_t)fi << start)) bad++;
                CanFrame f2;
                memset(&f2, 0, sizeof f2);
                memcpy(f2.data, &w, 8);
                if (can_decode_signal_as_float(&f2, start, 32, 1.0f, 0.0f, false) != f) bad++;
            }
        }
    }
    printf("cases=%lu bad=%lu\n", n, bad);
    return bad != 0;
}
"""


def part_c_sweep():
    """The static C codec shipped with the generated code: every placement inside a frame."""
    cc = shutil.which("gcc") or shutil.which("clang")
    if cc is None:
        print("no C compiler, skipping the C sweep")
        return
    tdir = os.path.join(FCP_ROOT, "plugins", "fcp_can_c", "templates")
    out = tempfile.mkdtemp(dir=TMP)
    # take the static files the way the generator ships them
    structs = {"Foo": [(0, "s1", ("u", 8))]}
    fcp = parse(schema_text(structs, ["Foo"], [("can", "Foo", 1, "ecu", "")], use_enums=False))
    st, files, gen = run_c_cmd(fcp)
    check(st == "ok", f"sweep: C command {st}")
    for f in ("can_frame.h", "can_signal_parser.h", "can_signal_parser.c"):
        check(f in files, f"sweep: {f} not generated")
        if os.path.isdir(tdir) and f in files:
            check(files[f] == open(os.path.join(tdir, f)).read(), f"sweep: {f} differs from the shipped template")
        with open(os.path.join(out, f), "w") as fp:
            fp.write(files.get(f, ""))
    with open(os.path.join(out, "sweep.c"), "w") as fp:
        fp.write(SWEEP_C)
    for opt in ("-O0", "-O2"):
        exe = os.path.join(out, "sweep" + opt)
        r = subprocess.run(
            [cc, opt, "-w", "-fno-strict-aliasing", "-I", out, "-o", exe, os.path.join(out, "sweep.c"), os.path.join(out, "can_signal_parser.c")],
            capture_output=True,
            text=True,
        )
        check(r.returncode == 0, f"sweep: compile {opt} failed: {r.stderr[:1500]}")
        if r.returncode != 0:
            continue
        r = subprocess.run([exe], capture_output=True, text=True)
        DUMP[f"c/sweep/{opt}"] = r.stdout
        check(r.returncode == 0 and r.stdout.strip() == "cases=14560 bad=0", f"sweep {opt}: {r.stdout.strip()} rc={r.returncode}")


def main():
    part_c_sweep()
    part_units()
    part_multi()
    part_variable()
    part_sizes()
    part_compile()
    shutil.rmtree(TMP, ignore_errors=True)
    if "--dump" in sys.argv:
        with open(sys.argv[sys.argv.index("--dump") + 1], "w") as fp:
            json.dump(DUMP, fp, indent=1, sort_keys=True, default=str)
    if FAILURES:
        print(f"FAIL: {len(FAILURES)} of {CHECKS[0]} checks failed")
        sys.exit(1)
    print(f"PASS ({CHECKS[0]} checks)")


if __name__ == "__main__":
    main()
