#!/usr/bin/env python
"""C10 differential demo: code generation is gated by verification.

For a spread of schemas x generators x failing checks x pre-existing output
directories this script checks that

 * when any registered check (general or plug-in, any category, any position)
   rejects the schema, ``GeneratorManager.generate`` returns an ``Err`` (or
   ``Nothing`` for the 'uncategorized' quirk), the ``fcp generate`` command
   prints an error, and the output directory is bit-for-bit untouched
   (no file created, modified, re-written or deleted, not even mtimes);
 * when all checks pass, exactly the results returned by the plug-in's
   ``generate`` are written, with exactly the returned contents, and nothing
   else in the directory changes (apart from what the plug-in itself removes
   inside its own ``generate``).

The code under test is found through PYTHONPATH.  Prints ``PASS (...)`` and
exits 0 on success.  The digest in the PASS line covers every returned error
text and every CLI output, so it can be compared between two trees.
"""

import contextlib
import hashlib
import importlib
import io
import os
import shutil
import sys
import tempfile
import textwrap
from pathlib import Path

WORK = Path(tempfile.mkdtemp(prefix="c10demo-"))

# --------------------------------------------------------------------------
# A fake plug-in (found by pkgutil because its name starts with fcp_) whose
# checks and results are driven from the test.
# --------------------------------------------------------------------------
FAKE_DIR = WORK / "fakeplugins"
(FAKE_DIR / "fcp_fakegen").mkdir(parents=True)
(FAKE_DIR / "fcp_fakegen" / "__init__.py").write_text(
    textwrap.dedent(
        '''
        from pathlib import Path
        from fcp.codegen import CodeGenerator
        from fcp.verifier import register
        from fcp.result import Ok
        from fcp.error import error

        CONFIG = {"fail": None, "results": None, "calls": [], "generated": 0}


        class Generator(CodeGenerator):
            def __init__(self):
                pass

            def register_checks(self, verifier):
                cfg = CONFIG
                cfg["calls"] = []
                fail = cfg["fail"]
                categories = [
                    "struct", "field", "enum", "impl",
                    "signal_block", "type", "device",
                ]
                if fail is not None and fail[0] == "uncategorized":
                    categories.append(None)
                for category in categories:
                    def make(category):
                        counter = {"n": 0}

                        def check(self_, fcp, node):
                            index = counter["n"]
                            counter["n"] += 1
                            cfg["calls"].append((category, index))
                            if fail is not None and fail == (category, index):
                                return error(f"fake failure {category} #{index}")
                            return Ok(())

                        return check

                    register(verifier, category)(make(category))

            def generate(self, fcp, ctx):
                CONFIG["generated"] += 1
                out = Path(ctx.get("output"))
                results = CONFIG["results"]
                if results is None:
                    results = [
                        {"type": "file", "path": out / "a.txt", "contents": "alpha\\n"},
                        {"type": "print", "contents": "printed line"},
                        {"type": "file", "path": out / "sub" / "b.txt", "contents": ""},
                        {"type": "file", "path": out / "keep.h", "contents": "new keep"},
                        {"type": "bogus", "contents": "ignored"},
                        {"type": "file", "path": out / "n.txt", "contents": 12345},
                        {
                            "type": "file",
                            "path": out / "t.txt",
                            "contents": "T:" + ",".join(sorted(ctx["templates"]))
                            + " S:" + ",".join(sorted(ctx["skels"])),
                        },
                    ]
                return [dict(r) for r in results]
        '''
    )
)
sys.path.insert(0, str(FAKE_DIR))

import logging  # noqa: E402

logging.disable(logging.CRITICAL)

from click.testing import CliRunner  # noqa: E402

from fcp.__main__ import main as fcp_main  # noqa: E402
from fcp.codegen import GeneratorManager  # noqa: E402
from fcp.error import Logger  # noqa: E402
from fcp.maybe import Nothing  # noqa: E402
from fcp.parser import get_fcp  # noqa: E402
from fcp.result import Err, Ok  # noqa: E402
from fcp.verifier import make_general_verifier, Verifier  # noqa: E402

import fcp_fakegen  # noqa: E402

CHECKS = 0
DIGEST = hashlib.sha256()


def check(cond, what):
    global CHECKS
    CHECKS += 1
    if not cond:
        print("FAIL:", what)
        shutil.rmtree(WORK, ignore_errors=True)
        sys.exit(1)


def note(*parts):
    for part in parts:
        DIGEST.update(str(part).replace(str(WORK), "<WORK>").encode())
        DIGEST.update(b"\0")


# --------------------------------------------------------------------------
# Schemas
# --------------------------------------------------------------------------
GOOD = """version: "3"

enum State {
    Off = 0,
    On = 1,
    Fault = 2,
}

struct Inner {
    x @0: u8,
    y @1: i16,
}

struct Outer {
    inner @0: Inner,
    state @1: State,
    v @2: u8,
}

struct Small {
    a @0: u8,
    b @1: u16,
}

impl can for Outer {
    id: 10,
    device: "ecu1",
}

impl can for Small {
    id: 11,
    device: "ecu2",

    signal b {
        bitstart: 16,
    },
}

struct Req {
    q @0: u8,
}

struct Rep {
    r @0: u16,
}

service Svc @0 {
    method Ask(Req) @0 returns Rep,
}

device ecu1 {
    services: [Svc],
}
"""


def variant(old, new, count=1):
    assert GOOD.count(old) >= 1, old
    return GOOD.replace(old, new, count)


# name -> (text, failing for: set of generators or "all")
BAD = {
    # general checks, one per category, at different positions
    "dup_type_first": (
        GOOD + "\nstruct Inner {\n    z @0: u8,\n}\n",
        "all",
        # every struct gets a default impl and 'impl' is checked before 'type'
        "Duplicate impls",
    ),
    "dup_type_enum_vs_struct": (
        GOOD + "\nstruct State {\n    z @0: u8,\n}\n",
        "all",
        "Duplicate type names",
    ),
    "dup_field_middle": (
        variant("    v @2: u8,\n", "    v @2: u8,\n    state @3: u8,\n"),
        "all",
        "Duplicate fields",
    ),
    "dup_field_last_struct": (
        variant("    r @0: u16,\n", "    r @0: u16,\n    r @1: u8,\n"),
        "all",
        "Duplicate fields",
    ),
    "dup_enum_name": (
        variant("    Fault = 2,\n", "    Fault = 2,\n    On = 3,\n"),
        "all",
        "Duplicated enumration name",
    ),
    "dup_enum_value": (
        variant("    Fault = 2,\n", "    Fault = 2,\n    Other = 0,\n"),
        "all",
        "Duplicated enumeration name",
    ),
    "dup_impl": (
        GOOD + '\nimpl can for Small {\n    id: 12,\n    device: "ecu2",\n}\n',
        "all",
        "Duplicate impls",
    ),
    "device_unknown_service": (
        variant("    services: [Svc],\n", "    services: [Svc, Missing],\n"),
        "all",
        'Service "Missing" referenced by device "ecu1"',
    ),
    "second_device_unknown_service": (
        GOOD + "\ndevice ecu9 {\n    services: [Nope],\n}\n",
        "all",
        'Service "Nope" referenced by device "ecu9"',
    ),
    # plug-in checks
    "dup_can_id": (
        variant("    id: 11,\n", "    id: 10,\n"),
        {"dbc"},
        "Duplicate ids",
    ),
    "impl_without_type": (
        GOOD + '\nimpl can for Ghost {\n    id: 40,\n    device: "ecu2",\n}\n',
        {"dbc", "can_c"},
        "No matching type for",
    ),
    "impl_too_big": (
        GOOD
        + "\nstruct Big {\n    a @0: u32,\n    b @1: u32,\n    c @2: u8,\n}\n"
        + '\nimpl can for Big {\n    id: 50,\n    device: "ecu2",\n}\n',
        {"can_c"},
        "way too big",
    ),
}

GOOD_VARIANTS = {
    "good": GOOD,
    "good_minimal": 'version: "3"\n\nstruct A {\n    f @0: u8,\n}\n',
    "good_no_device": GOOD[: GOOD.index("device ecu1")],
}

GENERATORS = ["nop", "dbc", "can_c", "cpp", "fakegen"]

SCHEMA_DIR = WORK / "schemas"
SCHEMA_DIR.mkdir()


def schema_path(name, text):
    path = SCHEMA_DIR / (name + ".fcp")
    if not path.exists():
        path.write_text(text)
    return path


def load(name, text):
    parsed = get_fcp(schema_path(name, text), Logger({}))
    check(parsed.is_ok(), f"schema {name} must parse: {parsed}")
    return parsed.unwrap()


# --------------------------------------------------------------------------
# Output directory states
# --------------------------------------------------------------------------
def make_outdir(kind, tag):
    out = WORK / "out" / f"{tag}-{kind}"
    if out.exists():
        shutil.rmtree(out)
    out.parent.mkdir(exist_ok=True)
    if kind == "missing":
        return out
    out.mkdir()
    if kind == "empty":
        return out
    # populated: stale sources, files that would be overwritten, a subdir,
    # a read-only looking file and binary data
    (out / "keep.h").write_text("old header\n")
    (out / "stale.c").write_text("int stale;\n")
    (out / "a.txt").write_text("old alpha\n")
    (out / "fcp.h").write_text("// old fcp.h\n")
    (out / "can_frame.h").write_text("// old can_frame\n")
    (out / "ecu1_can.h").write_text("// old ecu1\n")
    (out / "can.fcp").write_text("old dbc\n")
    (out / "notes.md").write_bytes(b"\x00\x01binary\xff")
    (out / "sub").mkdir()
    (out / "sub" / "b.txt").write_text("old b\n")
    (out / "sub" / "deep.h").write_text("deep\n")
    old = 1_000_000_000
    for p in [out, *out.rglob("*")]:
        os.utime(p, (old, old))
    return out


def snapshot(root):
    """path -> (kind, bytes, mtime_ns, mode) for root and everything below it."""
    root = Path(root)
    if not root.exists():
        return None
    snap = {}
    for p in [root, *sorted(root.rglob("*"))]:
        st = p.lstat()
        rel = str(p.relative_to(root))
        if p.is_dir():
            snap[rel] = ("dir", None, st.st_mtime_ns, st.st_mode)
        else:
            snap[rel] = ("file", p.read_bytes(), st.st_mtime_ns, st.st_mode)
    return snap


TEMPLATE_DIR = WORK / "templates"
TEMPLATE_DIR.mkdir()
(TEMPLATE_DIR / "one.jinja").write_text("tpl one")
(TEMPLATE_DIR / "two.txt").write_text("tpl two")
(TEMPLATE_DIR / "two.jinja").write_text("tpl two again")  # same stem as two.txt
(TEMPLATE_DIR / "nested").mkdir()
EXPECTED_TEMPLATES = {}
for _entry in os.listdir(TEMPLATE_DIR):  # later entries win, in listdir order
    if (TEMPLATE_DIR / _entry).is_file():
        EXPECTED_TEMPLATES[Path(_entry).stem] = (TEMPLATE_DIR / _entry).read_text()
SKEL_DIR = WORK / "skels"
SKEL_DIR.mkdir()
(SKEL_DIR / "main.c").write_text("skel main")
(SKEL_DIR / "main.h").write_text("skel header")
(SKEL_DIR / "dir").mkdir()


# --------------------------------------------------------------------------
# Spy on the plug-ins' generate() so that the returned results are known.
# --------------------------------------------------------------------------
SPY = {"results": None, "calls": 0}


def install_spy(generator):
    module = importlib.import_module("fcp_" + generator)
    cls = module.Generator
    if getattr(cls, "_c10_spied", False):
        return
    original = cls.generate

    def spying_generate(self, fcp, ctx):
        SPY["calls"] += 1
        results = original(self, fcp, ctx)
        SPY["results"] = [dict(r) for r in results]
        SPY["ctx"] = ctx
        return results

    cls.generate = spying_generate
    cls._c10_spied = True


for g in GENERATORS:
    install_spy(g)


def run_manager(generator, fcp, out, templates=None, skels=None, manager=None):
    SPY["results"] = None
    SPY["calls"] = 0
    manager = manager or GeneratorManager(make_general_verifier())
    stdout = io.StringIO()
    with contextlib.redirect_stdout(stdout):
        result = manager.generate(generator, templates, skels, fcp, str(out))
    return result, stdout.getvalue()


def run_cli(generator, schema_file, out, extra=()):
    SPY["results"] = None
    SPY["calls"] = 0
    runner = CliRunner()
    # main() prints a banner when sys.argv has a single element
    sys.argv = ["fcp", "generate", generator, str(schema_file), str(out), *extra]
    res = runner.invoke(
        fcp_main, ["generate", generator, str(schema_file), str(out), *extra]
    )
    return res


def expect_untouched(before, out, what):
    after = snapshot(out)
    check(before == after, f"{what}: output directory changed on a rejected schema")
    check(SPY["calls"] == 0, f"{what}: plug-in generate() ran although a check failed")


def expect_written(before, out, generator, printed, what):
    results = SPY["results"]
    check(results is not None and SPY["calls"] == 1, f"{what}: generate() not run once")
    after = snapshot(out)
    expected = {}
    for rel, (kind, data, _mt, _mode) in (before or {}).items():
        expected[rel] = (kind, data)
    if after is None:
        # only possible when nothing had to be written into a missing directory
        check(
            before is None and not any(r.get("type") == "file" for r in results),
            f"{what}: output directory missing after generation",
        )
        after = {}
    else:
        expected.setdefault(".", ("dir", None))
    if generator == "can_c":
        # the plug-in's own generate() clears top-level .h/.c files
        for rel in list(expected):
            if "/" not in rel and expected[rel][0] == "file" and (
                rel.endswith(".h") or rel.endswith(".c")
            ):
                del expected[rel]
    expected_print = ""
    returned_paths = set()
    for r in results:
        if r.get("type") == "file":
            rel = str(Path(r["path"]).relative_to(out))
            returned_paths.add(rel)
            parent = str(Path(rel).parent)
            if parent != ".":
                expected.setdefault(parent, ("dir", None))
            expected[rel] = ("file", str(r["contents"]).encode("utf-8"))
        elif r.get("type") == "print":
            expected_print += str(r["contents"]) + "\n"
    got = {rel: (kind, data) for rel, (kind, data, _m, _mo) in after.items()}
    check(
        sorted(got) == sorted(expected),
        f"{what}: file set differs: {sorted(set(got) ^ set(expected))}",
    )
    for rel in expected:
        check(got[rel] == expected[rel], f"{what}: contents of {rel} differ")
    if printed is not None:
        check(
            printed == expected_print,
            f"{what}: printed output differs: {printed[:200]!r} vs {expected_print[:200]!r}",
        )
    # files that were not returned keep their mtime (never re-written)
    for rel, (kind, _data, mtime, _mode) in (before or {}).items():
        if kind == "file" and rel in after and rel not in returned_paths:
            check(after[rel][2] == mtime, f"{what}: {rel} was re-written")
    note(what, sorted(returned_paths))


# --------------------------------------------------------------------------
# 1. real generators x real failing checks x directory states
# --------------------------------------------------------------------------
PLUGIN_CRASHES = {("impl_too_big", "dbc")}


def applies(failing_for, generator):
    return failing_for == "all" or generator in failing_for


fcp_fakegen.CONFIG["fail"] = None
fcp_fakegen.CONFIG["results"] = None

for name, (text, failing_for, needle) in BAD.items():
    schema = load(name, text)
    for generator in GENERATORS:
        for dirkind in ("missing", "empty", "populated"):
            what = f"manager {generator} {name} {dirkind}"
            out = make_outdir(dirkind, f"{generator}-{name}")
            before = snapshot(out)
            if applies(failing_for, generator):
                result, printed = run_manager(generator, schema, out)
                check(isinstance(result, Err), f"{what}: expected Err, got {result!r}")
                message = Logger({name + ".fcp": text}).error(result.err())
                check(needle in message, f"{what}: wrong error: {message!r}")
                check(printed == "", f"{what}: something was printed")
                expect_untouched(before, out, what)
                note(what, message)
            elif (name, generator) in PLUGIN_CRASHES:
                # accepted by the checks but the plug-in's own generate() raises
                continue
            elif dirkind != "missing" or generator in ("nop", "can_c"):
                # passes for this generator: must then write exactly the results
                result, printed = run_manager(generator, schema, out)
                check(isinstance(result, Ok), f"{what}: expected Ok, got {result!r}")
                expect_written(before, out, generator, printed, what)

# --------------------------------------------------------------------------
# 2. good schemas: exactly the returned files are written
# --------------------------------------------------------------------------
for name, text in GOOD_VARIANTS.items():
    schema = load(name, text)
    for generator in GENERATORS:
        for dirkind in ("empty", "populated"):
            for with_dirs in (False, True):
                what = f"manager-ok {generator} {name} {dirkind} dirs={with_dirs}"
                out = make_outdir(dirkind, f"ok-{generator}-{name}")
                before = snapshot(out)
                result, printed = run_manager(
                    generator,
                    schema,
                    out,
                    str(TEMPLATE_DIR) if with_dirs else None,
                    str(SKEL_DIR) if with_dirs else None,
                )
                check(isinstance(result, Ok), f"{what}: expected Ok, got {result!r}")
                check(result == Ok(()), f"{what}: expected Ok(())")
                expect_written(before, out, generator, printed, what)
                if with_dirs:
                    ctx = SPY["ctx"]
                    check(
                        ctx["templates"] == EXPECTED_TEMPLATES and len(EXPECTED_TEMPLATES) == 2,
                        f"{what}: templates {ctx['templates']!r}",
                    )
                    check(
                        ctx["skels"]
                        == {"main.c": "skel main", "main.h": "skel header"},
                        f"{what}: skels {ctx['skels']!r}",
                    )
                else:
                    check(SPY["ctx"]["templates"] == {}, f"{what}: templates not empty")
                    check(SPY["ctx"]["skels"] == {}, f"{what}: skels not empty")
                check(SPY["ctx"]["output"] == out, f"{what}: ctx output")

# --------------------------------------------------------------------------
# 3. fake plug-in: a failing plug-in check in every category, at every position
# --------------------------------------------------------------------------
schema = load("good", GOOD)
category_sizes = {c: len(schema.get(c).unwrap()) for c in Verifier().categories[:-1]}
note(sorted(category_sizes.items()))
check(all(n >= 1 for n in category_sizes.values()), f"sizes {category_sizes}")

# first learn the order in which the fake checks are called on a passing run
fcp_fakegen.CONFIG["fail"] = None
out = make_outdir("empty", "fake-order")
result, _ = run_manager("fakegen", schema, out)
check(isinstance(result, Ok), "fake passing run")
full_order = list(fcp_fakegen.CONFIG["calls"])
check(
    full_order
    == [(c, i) for c in Verifier().categories[:-1] for i in range(category_sizes[c])],
    f"checks are run category by category, node by node: {full_order}",
)

for category, size in category_sizes.items():
    for index in range(size):
        for dirkind in ("missing", "populated"):
            what = f"fake fail {category}#{index} {dirkind}"
            fcp_fakegen.CONFIG["fail"] = (category, index)
            before_generated = fcp_fakegen.CONFIG["generated"]
            out = make_outdir(dirkind, f"fake-{category}-{index}")
            before = snapshot(out)
            result, printed = run_manager("fakegen", schema, out)
            check(isinstance(result, Err), f"{what}: expected Err, got {result!r}")
            message = repr(result.err())
            check(
                message == f"fake failure {category} #{index}",
                f"{what}: wrong error {message!r}",
            )
            check(printed == "", f"{what}: printed {printed!r}")
            check(
                fcp_fakegen.CONFIG["generated"] == before_generated,
                f"{what}: generate ran",
            )
            expect_untouched(before, out, what)
            # the checks stop at the first failure
            stop = full_order.index((category, index))
            check(
                fcp_fakegen.CONFIG["calls"] == full_order[: stop + 1],
                f"{what}: checks after the failing one were run",
            )
            note(what, message)

# index beyond the last node: never fails, so everything is written
fcp_fakegen.CONFIG["fail"] = ("struct", 10_000)
out = make_outdir("populated", "fake-beyond")
before = snapshot(out)
result, printed = run_manager("fakegen", schema, out, str(TEMPLATE_DIR), str(SKEL_DIR))
check(isinstance(result, Ok), "fake beyond: Ok")
expect_written(before, out, "fakegen", printed, "fake beyond")
check((out / "t.txt").read_text() == "T:one,two S:main.c,main.h", "templates/skels seen")

# an uncategorized check makes verify() give Nothing: still nothing is written
fcp_fakegen.CONFIG["fail"] = ("uncategorized", 0)
for dirkind in ("missing", "populated"):
    out = make_outdir(dirkind, "fake-uncat")
    before = snapshot(out)
    result, printed = run_manager("fakegen", schema, out)
    check(isinstance(result, Nothing), f"uncategorized: expected Nothing, got {result!r}")
    expect_untouched(before, out, f"uncategorized {dirkind}")
fcp_fakegen.CONFIG["fail"] = None

# a general + plug-in failure together: the general one (earlier category) wins
bad = load("dup_field_middle", BAD["dup_field_middle"][0])
fcp_fakegen.CONFIG["fail"] = ("device", 0)
out = make_outdir("populated", "fake-both")
before = snapshot(out)
result, _ = run_manager("fakegen", bad, out)
check(isinstance(result, Err) and repr(result.err()) == "Duplicate fields", "both: general first")
expect_untouched(before, out, "both")
fcp_fakegen.CONFIG["fail"] = ("struct", 0)
result, _ = run_manager("fakegen", bad, out)
check(
    isinstance(result, Err) and repr(result.err()) == "fake failure struct #0",
    "both: struct category is checked before field",
)
expect_untouched(before, out, "both-2")
fcp_fakegen.CONFIG["fail"] = None

# custom results: print only, unknown types only, empty list
for label, results in {
    "print-only": [{"type": "print", "contents": "x"}, {"type": "print", "contents": 7}],
    "unknown-only": [{"type": "weird"}, {"contents": "no type"}, {"type": ["file"]}],
    "empty": [],
}.items():
    fcp_fakegen.CONFIG["results"] = results
    out = make_outdir("populated", "fake-" + label)
    before = snapshot(out)
    result, printed = run_manager("fakegen", schema, out)
    check(isinstance(result, Ok), f"{label}: Ok")
    expect_written(before, out, "fakegen", printed, "custom " + label)
    check(snapshot(out) == before, f"{label}: nothing may change on disk")
fcp_fakegen.CONFIG["results"] = None

# --------------------------------------------------------------------------
# 4. a manager that is reused (checks accumulate in its verifier)
# --------------------------------------------------------------------------
manager = GeneratorManager(make_general_verifier())
bad = load("dup_can_id", BAD["dup_can_id"][0])
for round_ in range(3):
    out = make_outdir("populated", f"reuse-{round_}")
    before = snapshot(out)
    result, printed = run_manager("dbc", bad, out, manager=manager)
    check(isinstance(result, Err), f"reuse bad {round_}")
    check(repr(result.err()) == "Duplicate ids", f"reuse bad message {round_}")
    expect_untouched(before, out, f"reuse bad {round_}")
    result, printed = run_manager("dbc", schema, out, manager=manager)
    check(isinstance(result, Ok), f"reuse good {round_}")
    expect_written(before, out, "dbc", printed, f"reuse good {round_}")
    # nop registers no checks, but the dbc checks are still in the verifier
    before = snapshot(out)
    result, printed = run_manager("nop", bad, out, manager=manager)
    check(isinstance(result, Err), f"reuse nop bad {round_}")
    expect_untouched(before, out, f"reuse nop bad {round_}")

# verifier-level behaviour used by the gate
verifier = make_general_verifier()
check(verifier.verify(schema) == Ok(()), "verify good is Ok(())")
for name, (text, failing_for, needle) in BAD.items():
    if failing_for != "all":
        continue
    bad = load(name, text)
    verdict = verifier.verify(bad)
    check(isinstance(verdict, Err), f"verify {name}")
    check(needle in repr(verdict.err()), f"verify {name} message")
    first = [c for c in verifier.categories if verifier.run_checks(c, bad).is_err()][0]
    check(
        verifier.run_checks(first, bad).err() is not None
        and repr(verifier.run_checks(first, bad).err()) == repr(verdict.err()),
        f"verify {name}: the first failing category is reported",
    )
    note(name, first, repr(verdict.err()))
check(verifier.run_checks("no-such-category", schema) == Ok(()), "unknown category is Ok")
check(verifier.run_checks("uncategorized", schema) == Ok(()), "empty uncategorized is Ok")
try:
    verifier.register(lambda *a: Ok(()), "bogus")
    check(False, "bogus category must be refused")
except ValueError as e:
    check(str(e) == "Invalid category: bogus", f"ValueError text {e}")
registered = {c: len(v) for c, v in verifier.checks.items()}
check(
    registered
    == {
        "struct": 1, "field": 1, "enum": 2, "impl": 1,
        "signal_block": 0, "type": 1, "device": 1, "uncategorized": 0,
    },
    f"general checks per category: {registered}",
)
check(
    [f.__name__ for f in verifier.checks["enum"]]
    == [
        "check_enum_duplicate_enumerations_names",
        "check_enum_duplicate_enumerations_values",
    ],
    "enum checks keep their order",
)

# --------------------------------------------------------------------------
# 5. the command line
# --------------------------------------------------------------------------
for name, (text, failing_for, needle) in BAD.items():
    path = schema_path(name, text)
    for generator in GENERATORS:
        if not applies(failing_for, generator):
            continue
        for dirkind in ("missing", "populated"):
            what = f"cli {generator} {name} {dirkind}"
            out = make_outdir(dirkind, f"cli-{generator}-{name}")
            before = snapshot(out)
            res = run_cli(generator, path, out)
            check(res.exception is None, f"{what}: exception {res.exception!r}")
            check(res.exit_code == 0, f"{what}: exit code {res.exit_code}")
            check("Error:" in res.output, f"{what}: no error reported: {res.output!r}")
            check(needle in res.output, f"{what}: wrong error: {res.output!r}")
            check("Failed to generate fcp" in res.output, f"{what}: no trailer")
            expect_untouched(before, out, what)
            note(what, res.output)

for name, text in GOOD_VARIANTS.items():
    path = schema_path(name, text)
    for generator in GENERATORS:
        for extra in ((), ("--templates", str(TEMPLATE_DIR), "--skel", str(SKEL_DIR))):
            what = f"cli-ok {generator} {name} {len(extra)}"
            out = make_outdir("populated", f"cliok-{generator}-{name}")
            before = snapshot(out)
            res = run_cli(generator, path, out, extra)
            check(res.exception is None, f"{what}: exception {res.exception!r}")
            check(res.exit_code == 0, f"{what}: exit code")
            check("Error:" not in res.output, f"{what}: error reported {res.output!r}")
            expect_written(before, out, generator, res.output, what)

# unknown generator: exits with status 1 before anything else happens
out = make_outdir("populated", "cli-unknown")
before = snapshot(out)
res = run_cli("doesnotexist", schema_path("good", GOOD), out)
check(res.exit_code == 1, f"unknown generator exit code {res.exit_code}")
check(snapshot(out) == before, "unknown generator: directory untouched")

# schema that does not even parse
out = make_outdir("populated", "cli-parse")
before = snapshot(out)
res = run_cli("nop", schema_path("broken", 'version: "3"\n\nstruct {\n'), out)
check("Failed to generate fcp" in res.output, "parse error is reported")
check(snapshot(out) == before, "parse error: directory untouched")
note(res.output)

shutil.rmtree(WORK, ignore_errors=True)
print(f"PASS ({CHECKS} checks, digest {DIGEST.hexdigest()[:16]})")
