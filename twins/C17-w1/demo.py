#!/usr/bin/env python
"""Differential test for property C17: generated artifacts are a deterministic
function of the schema.

The parent process runs this very file as a worker in several fresh processes,
under different PYTHONHASHSEED values and with different things parsed and
generated beforehand in the same process, and checks that every worker reports
the same set of files with identical contents (the generation-stamp comment line
of the C++ generator is dropped before comparing).

The code under test is found through PYTHONPATH; FCP_ROOT (default
/tmp/twin3-C17) is only used to locate schema files shipped in the repository.
"""

import hashlib
import json
import os
import subprocess
import sys
import tempfile
from pathlib import Path

FCP_ROOT = Path(os.environ.get("FCP_ROOT", "/tmp/twin3-C17"))

# --------------------------------------------------------------------------- #
# corpus
# --------------------------------------------------------------------------- #

CORPUS = {
    "basic": """version: "3"
struct Foo {
    s1 @0: u8 | unit("m/s"),
    s2 @1: u16 | unit("kg"),
}
impl can for Foo {
    id: 10,
    device: "ecu1",
}
""",
    # fields declared out of field_id order, unaligned widths, signed types
    "unordered_unaligned": """version: "3"
struct Odd {
    c @2: i13,
    a @0: u3,
    d @3: u1,
    b @1: i5,
    e @4: f32,
}
impl can for Odd {
    id: 17,
    device: "odd_ecu",
    period: 20,
    signal c {
        endianess: "big",
    },
}
""",
    # enums, arrays of enums, arrays of scalars, arrays of structs, nesting
    "arrays_enums": """version: "3"
enum Mode {
    Off = 0,
    On = 1,
    Fault = 5,
}
enum Tiny {
    Only = 0,
}
struct Inner {
    x @0: u4,
    m @1: Mode,
}
struct Outer {
    modes @1: [Mode, 3],
    first @0: Tiny,
    inner @2: Inner,
    pairs @3: [Inner, 2],
    raw @4: [u5, 2],
}
impl can for Outer {
    id: 300,
    device: "gateway",
    bus: "bus2",
}
impl can for Inner {
    id: 301,
    bus: "bus1",
}
""",
    # the same struct on several buses / protocols, named impls, mux signals
    "multi_protocol": """version: "3"
struct Foo {
    s1 @0: u8,
    s2 @1: u8,
}
struct Bar {
    b1 @0: u16,
    b2 @1: [u8, 2],
}
struct Lonely {
    l @0: u32,
}
impl can for Foo {
    id: 10,
    bus: "bus1",
    signal s2 {
        mux_count: 4,
        mux_signal: "s1",
    },
}
impl can for Foo as FooTwo {
    id: 11,
    bus: "bus2",
    device: "dash",
}
impl uart for Foo {
    endianess: "big",
}
impl uart for Bar as BarUart {
    baud: 9600,
}
impl zigbee for Bar {
    channel: 4,
}
impl can for Bar {
    id: 12,
    device: "dash",
    endianess: "big",
}
""",
    # services (rpc structs and enums are derived), dynamic types, keywords
    "services": """version: "3"
enum E {
    S0 = 0,
    S1 = 1,
    S2 = 2,
}
struct Req {
    a @0: u8,
    e @1: E,
}
struct Rsp {
    ok @0: u1,
    text @1: str,
    list @2: [u8],
    maybe @3: Optional[E],
}
struct Plain {
    v @0: f64,
}
impl can for Plain {
    id: 77,
}
impl register for Plain {
    addr: 3,
}
service Ctl @1 {
    method Get(Req) @0 returns Rsp,
    method Set(Req) @1 returns Rsp,
}
service Aux @7 {
    method Ping(Plain) @3 returns Plain,
}
device ecu1 {
    services: [Ctl, Aux],
}
""",
    # no impl besides the implicit default ones, 64 bit fields
    "defaults_only": """version: "3"
struct Wide {
    a @0: u64,
    b @1: i64,
}
struct Deep3 {
    w @0: u7,
}
struct Deep2 {
    d3 @1: Deep3,
    pad @0: u2,
}
struct Deep1 {
    d2 @0: Deep2,
    tail @1: [Deep3, 2],
}
""",
    # error inputs: too long for a CAN frame / missing id / unknown type
    "err_too_big": """version: "3"
struct Big {
    a @0: u64,
    b @1: u8,
}
impl can for Big {
    id: 1,
    device: "x",
}
""",
    "err_no_id": """version: "3"
struct NoId {
    a @0: u8,
}
impl can for NoId {
    device: "x",
}
""",
    "err_dynamic_in_can": """version: "3"
struct Dyn {
    a @0: u8,
    b @1: [u8],
}
impl can for Dyn {
    id: 5,
}
""",
}

PARSE_ERRORS = {
    "err_unknown_type": 'version: "3"\nstruct A {\n    a @0: Missing,\n}\n',
    "err_syntax": 'version: "3"\nstruct {\n',
    "err_version": 'version: "2"\nstruct A {\n    a @0: u8,\n}\n',
}

REPO_SCHEMAS = [
    "plugins/fcp_cpp/tests/schemas/test.fcp",
    "plugins/fcp_dbc/tests/schemas/generator/007_muxed_signals.fcp",
    "plugins/fcp_dbc/tests/schemas/generator/009_compounded_type_array.fcp",
    "plugins/fcp_dbc/tests/schemas/generator/010_multiple_bus.fcp",
    "plugins/fcp_can_c/tests/002_nested_enum/test.fcp",
    "plugins/fcp_can_c/tests/005_big_endian/test.fcp",
    "plugins/fcp_can_c/example/example.fcp",
    "example/example.fcp",
]

GENERATORS = ["fcp_cpp", "fcp_dbc", "fcp_can_c"]

STAMP_PREFIX = "// Generated using fcp "


def normalise(contents):
    return "\n".join(
        line for line in str(contents).split("\n") if not line.startswith(STAMP_PREFIX)
    )


def digest(text):
    return hashlib.sha256(text.encode("utf-8")).hexdigest()


# --------------------------------------------------------------------------- #
# worker
# --------------------------------------------------------------------------- #


def parse(source):
    from fcp.parser import get_fcp_from_string

    return get_fcp_from_string(source)


def run_generator(generator_name, fcp):
    """Return {file name: digest} or an error marker for one generator run."""
    import importlib

    generator = importlib.import_module(generator_name).Generator()
    with tempfile.TemporaryDirectory() as out:
        try:
            results = generator.generate(fcp, {"output": Path(out) / "gen"})
        except BaseException as e:  # noqa: B902 - error outcomes are part of the result
            return {"!error": type(e).__name__ + ": " + normalise(str(e))[:200]}

        files = {}
        for result in results:
            name = Path(str(result["path"])).name
            d = digest(normalise(result["contents"]))
            if name in files and files[name] != d:
                return {"!error": "two different contents for " + name}
            files[name] = d
        return files


def generate_all(source):
    parsed = parse(source)
    if parsed.is_err():
        return {"!parse_error": digest(str(parsed.err()))}
    fcp = parsed.unwrap()
    return {name: run_generator(name, fcp) for name in GENERATORS}


def all_schemas():
    schemas = dict(CORPUS)
    schemas.update(PARSE_ERRORS)
    for rel in REPO_SCHEMAS:
        path = FCP_ROOT / rel
        if path.exists() and "mod " not in path.read_text():
            schemas["repo:" + rel] = path.read_text()
    return schemas


def worker(mode):
    schemas = all_schemas()
    names = sorted(schemas)
    report = {}

    if mode == "reversed":
        names = names[::-1]
    elif mode == "warm":
        # parse and generate unrelated things first, including failures
        for name in ["err_syntax", "services", "err_too_big", "arrays_enums"]:
            generate_all(schemas[name])
            generate_all(schemas[name])
        from fcp.reflection import get_reflection_schema

        get_reflection_schema().unwrap()
    elif mode == "interleaved":
        names = names[::2] + names[1::2]

    for name in names:
        report[name] = generate_all(schemas[name])
        if mode in ("twice", "warm"):
            again = generate_all(schemas[name])
            if again != report[name]:
                report[name] = {"!unstable": [report[name], again]}

    report["!extra"] = extra_checks()
    print(json.dumps(report, sort_keys=True))


# --------------------------------------------------------------------------- #
# parent
# --------------------------------------------------------------------------- #

RUNS = [
    ("0", "plain"),
    ("1", "plain"),
    ("2", "reversed"),
    ("42", "warm"),
    ("12345", "twice"),
    ("4294967295", "interleaved"),
    ("random", "plain"),
    ("random", "warm"),
]


def main():
    reports = []
    for seed, mode in RUNS:
        env = dict(os.environ)
        env["PYTHONHASHSEED"] = seed
        proc = subprocess.run(
            [sys.executable, os.path.abspath(__file__), "--worker", mode],
            env=env,
            capture_output=True,
            text=True,
        )
        if proc.returncode != 0:
            print(proc.stdout[-2000:])
            print(proc.stderr[-4000:])
            print(f"FAIL: worker seed={seed} mode={mode} exited {proc.returncode}")
            return 1
        reports.append(((seed, mode), json.loads(proc.stdout.strip().split("\n")[-1])))

    (ref_run, reference) = reports[0]
    failures = 0
    for run, report in reports[1:]:
        for name in sorted(set(reference) | set(report)):
            if reference.get(name) != report.get(name):
                failures += 1
                print(f"MISMATCH {name}: run {ref_run} vs run {run}")
                print("   ", json.dumps(reference.get(name), sort_keys=True)[:600])
                print("   ", json.dumps(report.get(name), sort_keys=True)[:600])

    # sanity: the corpus really produced files, and the error inputs errors
    generated = sum(
        len(files)
        for name, per_gen in reference.items()
        if not name.startswith("!") and "!parse_error" not in per_gen
        for files in per_gen.values()
        if "!error" not in files
    )
    if generated < 150:
        failures += 1
        print(f"suspiciously few generated files: {generated}")
    for name in PARSE_ERRORS:
        if "!parse_error" not in reference[name]:
            failures += 1
            print(f"{name} should not parse")
    for name in ("err_too_big", "err_no_id", "err_dynamic_in_can"):
        if "!error" not in reference[name]["fcp_dbc"]:
            failures += 1
            print(f"{name} should be refused by the dbc generator")
    if reference["!extra"].get("failures"):
        failures += 1
        print("extra checks failed:", reference["!extra"]["failures"][:10])

    print(
        f"runs={len(reports)} schemas={len(reference) - 1} files={generated} "
        f"extra_checks={reference['!extra'].get('checked')} "
        f"digest={digest(json.dumps(reference, sort_keys=True))[:16]}"
    )
    if failures:
        print("FAIL")
        return 1
    print("PASS")
    return 0


# --------------------------------------------------------------------------- #
# extra checks: packed encoder against a straightforward reference
# --------------------------------------------------------------------------- #


def _ref_type_length(fcp, type):
    """Packed length of a type, computed from scratch every time."""
    from fcp.specs import type as t

    if isinstance(type, (t.UnsignedType, t.SignedType, t.FloatType, t.DoubleType)):
        return type.get_length()
    elif isinstance(type, t.ArrayType):
        return int(type.size * _ref_type_length(fcp, type.underlying_type))
    elif isinstance(type, t.EnumType):
        return int(fcp.get_enum(type.name).unwrap().get_packed_size())
    else:
        raise ValueError("Error computing type length for type " + str(type))


def _ref_encode(fcp, impl, unroll):
    """Reference packed layout: [(name, type, bitstart, bitlength, endianess, unit, extended, composite)]."""
    from copy import copy
    from math import ceil, log2
    from fcp.specs import type as t
    from fcp.specs.struct import Struct
    from fcp.specs.enum import Enum

    out = []
    pos = [0]

    def signal(field, prefix):
        block = impl.get_signal(field.name)
        fields = block.unwrap().fields if block.is_some() else {}
        if isinstance(field.type, t.StructType):
            compound(field.type, prefix + field.name + "::")
            return
        if isinstance(field.type, t.ArrayType) and unroll:
            for i in range(field.type.size):
                derived = copy(field)
                derived.type = field.type.underlying_type
                derived.name = field.name + "_" + str(i)
                signal(derived, prefix)
            return
        length = _ref_type_length(fcp, field.type)
        out.append(
            (
                prefix + field.name,
                repr(field.type),
                pos[0],
                length,
                fields.get("endianess") or "little",
                field.unit,
                repr(sorted(fields.items(), key=repr)),
                "Nothing()",
            )
        )
        pos[0] += length

    def compound(type, prefix):
        if not isinstance(type, (t.StructType, t.EnumType)):
            raise ValueError("Expected StructType or EnumType")
        concrete = fcp.get_type(type).unwrap()
        if isinstance(concrete, Struct):
            for field in sorted(concrete.fields, key=lambda f: f.field_id):
                signal(field, prefix)
        elif isinstance(concrete, Enum):
            length = ceil(log2(max([e.value for e in concrete.enumeration]) + 1))
            if length > 64:
                raise ValueError(f"Way too large an enum, computed size: {length}")
            out.append(
                (prefix[:-2], repr(type), pos[0], length, "little", None, "[]",
                 repr(concrete.name) and "Some(%r)" % concrete.name)
            )
            pos[0] += length
        else:
            raise KeyError(f"Invalid type {type}")

    compound(t.StructType(impl.type), "")
    return out


def _flatten_values(values):
    return [
        (
            v.name,
            repr(v.type),
            v.bitstart,
            v.bitlength,
            v.endianess,
            v.unit,
            repr(sorted(v.extended_data.items(), key=repr)),
            repr(v.composite_type),
        )
        for v in values
    ]


def _outcome(thunk):
    try:
        return ("ok", thunk())
    except Exception as e:  # noqa: B902
        return ("err", type(e).__name__, str(e))


def extra_checks():
    from fcp.encoding import make_encoder, PackedEncoderContext, PackedEncoder
    from fcp.specs.enum import Enumeration
    from fcp.specs import type as t
    from fcp.specs.impl import Impl

    failures = []
    checked = 0

    for name, source in sorted(all_schemas().items()):
        parsed = parse(source)
        if parsed.is_err():
            continue
        fcp = parsed.unwrap()
        for unroll in (False, True):
            # one encoder reused for all impls, like the generators do
            shared = make_encoder(
                "packed", fcp, PackedEncoderContext().with_unroll_arrays(unroll)
            )
            for round_ in range(2):
                for impl in fcp.impls:
                    expected = _outcome(lambda: _ref_encode(fcp, impl, unroll))
                    got = _outcome(lambda: _flatten_values(shared.generate(impl)))
                    fresh = _outcome(
                        lambda: _flatten_values(
                            PackedEncoder(
                                fcp, PackedEncoderContext(unroll_arrays=unroll)
                            ).generate(impl)
                        )
                    )
                    checked += 1
                    if not (expected == got == fresh):
                        failures.append(
                            f"{name}/{impl.name}/{impl.protocol}/unroll={unroll}: "
                            f"{expected!r:.300} != {got!r:.300} / {fresh!r:.300}"
                        )

    # the schema changes between two generate() calls of the same encoder: the
    # second layout must follow the new enum size (and an error must not stick)
    fcp = parse(
        CORPUS["arrays_enums"]
        + "struct Flat {\n    ms @1: [Mode, 3],\n    mm @0: [[Mode, 2], 2],\n    m @2: Mode,\n}\n"
        + "impl can for Flat {\n    id: 302,\n}\n"
    ).unwrap()
    outer = [i for i in fcp.impls if i.type == "Flat" and i.protocol == "can"][0]
    encoder = make_encoder("packed", fcp, PackedEncoderContext().with_unroll_arrays(True))
    packed = make_encoder("packed", fcp, PackedEncoderContext())
    before = _flatten_values(encoder.generate(outer))
    before_packed = _flatten_values(packed.generate(outer))
    mode = fcp.get_enum("Mode").unwrap()
    for value in (9, 200, 70000):
        mode.enumeration.append(Enumeration("Grow%d" % value, value))
        for enc, unroll in ((encoder, True), (packed, False)):
            checked += 1
            got = _flatten_values(enc.generate(outer))
            if got != _ref_encode(fcp, outer, unroll):
                failures.append(f"stale layout after Mode grew to {value} (unroll={unroll})")
    if before == _flatten_values(encoder.generate(outer)):
        failures.append("layout did not change although the enum grew")
    if before_packed == _flatten_values(packed.generate(outer)):
        failures.append("packed layout did not change although the enum grew")

    # an impl that fails, followed by one that works, on the same encoder
    bad = Impl("Nope", "can", "DoesNotExist", {}, [])
    for enc, unroll in ((encoder, True), (packed, False)):
        first = _outcome(lambda: enc.generate(bad))
        second = _outcome(lambda: enc.generate(bad))
        checked += 1
        if first != second or first[0] != "err":
            failures.append(f"unknown struct: {first!r} / {second!r}")
        if _flatten_values(enc.generate(outer)) != _ref_encode(fcp, outer, unroll):
            failures.append("layout wrong after a failed generate()")

    # the length helper, asked directly, for another schema than the encoder's own
    other = parse(CORPUS["services"]).unwrap()
    other.get_enum("E").unwrap().enumeration.append(Enumeration("Big", 1000))
    probes = [
        t.UnsignedType("u8"), t.SignedType("i8"), t.UnsignedType("u13"),
        t.FloatType(), t.DoubleType(), t.EnumType("Mode"), t.EnumType("E"),
        t.EnumType("Tiny"), t.ArrayType(t.EnumType("Mode"), 3),
        t.ArrayType(t.ArrayType(t.UnsignedType("u3"), 2), 5),
        t.ArrayType(t.UnsignedType("u3"), 10), t.ArrayType(t.SignedType("i3"), 10),
        t.ArrayType(t.UnsignedType("u3"), 0), t.StructType("Inner"),
        t.StringType(), t.DynamicArrayType(t.UnsignedType("u8")),
        t.ArrayType(t.StructType("Inner"), 2), t.EnumType("Missing"),
        t.OptionalType(t.UnsignedType("u8")), t.UnsignedType("ux"),
    ]
    for schema in (fcp, other):
        for probe in probes + probes:
            checked += 1
            expected = _outcome(lambda: _ref_type_length(schema, probe))
            got = _outcome(lambda: encoder._get_type_length(schema, probe))
            if expected[:2] != got[:2]:
                failures.append(f"length of {probe!r}: {expected!r} != {got!r}")

    return {"checked": checked, "failures": failures}


if __name__ == "__main__":
    if len(sys.argv) >= 3 and sys.argv[1] == "--worker":
        worker(sys.argv[2])
        sys.exit(0)
    sys.exit(main())
