#!/usr/bin/env python
"""Differential demo for property C07: parsing is the inverse of printing.

The demo generates schema *descriptions* (plain dictionaries in the shape of
FcpV2.to_dict()), prints each of them to FCP text in several formatting
variants (white space, comments, the optional separators "|", "as", trailing
commas in parameter lists), parses the text and checks that

  * the parsed tree equals the description (structs with fields/ids/types of
    any nesting/units/ranges, enums, impls incl. renamed ones with extension
    fields and signal blocks, services with methods, devices), in source
    order, with exactly one default binding per struct;
  * every formatting variant of a description gives the same tree;
  * modules (`mod a.b;`) contribute their declarations in place;
  * ill-formed schemas give the pinned error chains;
  * FcpV2.to_dict() keeps its filtering contract on hand built trees;
  * a digest over everything observed (trees with key order, reflection
    with positions, error texts) equals the digest recorded on the
    unchanged code base.

Run with PYTHONPATH pointing at the worktree under test, e.g.

  PYTHONPATH=/tmp/twin3-C07/src /venv/bin/python demo.py
"""

import hashlib
import json
import os
import pathlib
import random
import re
import sys
import tempfile

from fcp.parser import get_fcp, get_fcp_from_string
from fcp.error import Logger
from fcp.specs.v2 import FcpV2
from fcp.specs.struct import Struct
from fcp.specs.struct_field import StructField
from fcp.specs.impl import Impl
from fcp.specs.signal_block import SignalBlock
from fcp.specs.device import Device
from fcp.specs.metadata import MetaData
from fcp.specs.type import (
    UnsignedType,
    ArrayType,
    OptionalType,
    DynamicArrayType,
    StructType,
)

GOLDEN = "babc797e9c0385f6db9c134d4b9bb75b52d62a1e85a8f8c738de6f452c7f651e"

FAILURES = []
OBSERVED = []  # everything that goes into the digest, in order


def check(cond, what):
    if not cond:
        FAILURES.append(what)
        print("FAIL:", what)


def observe(tag, value):
    OBSERVED.append(tag + "=" + value)


# --------------------------------------------------------------------------
# description generator
# --------------------------------------------------------------------------

BUILTINS = (
    ["u%d" % n for n in (1, 2, 7, 8, 9, 16, 31, 32, 33, 63, 64)]
    + ["i%d" % n for n in (2, 8, 13, 16, 32, 64)]
    + ["f32", "f64", "str"]
)


def builtin_dict(name):
    if name == "str":
        return {"type": "str"}
    if name == "f32":
        return {"name": "f32", "type": "float"}
    if name == "f64":
        return {"name": "f64", "type": "double"}
    return {"name": name, "type": "unsigned" if name[0] == "u" else "signed"}


def gen_type(rng, depth, structs, enums):
    """Return (text tokens, expected dictionary)."""
    kinds = ["builtin"] * 3
    if structs:
        kinds.append("struct")
    if enums:
        kinds.append("enum")
    if depth > 0:
        kinds += ["array", "dynamic", "optional"] * 2
    kind = rng.choice(kinds)
    if kind == "builtin":
        name = rng.choice(BUILTINS)
        return [name], builtin_dict(name)
    if kind == "struct":
        name = rng.choice(structs)
        return [name], {"name": name, "type": "Struct"}
    if kind == "enum":
        name = rng.choice(enums)
        return [name], {"name": name, "type": "Enum"}
    toks, inner = gen_type(rng, depth - 1, structs, enums)
    if kind == "array":
        size = rng.choice([1, 2, 3, 8, 255, 1000])
        return (
            ["["] + toks + [",", str(size), "]"],
            {"underlying_type": inner, "size": size, "type": "Array"},
        )
    if kind == "dynamic":
        return (
            ["["] + toks + ["]"],
            {"underlying_type": inner, "type": "DynamicArray"},
        )
    return (
        ["Optional", "["] + toks + ["]"],
        {"underlying_type": inner, "type": "Optional"},
    )


STRINGS = [
    "",
    "V",
    "m/s",
    "hello world",
    "a\\\"b",  # escaped quote stays raw
    "tab\\there",
    "unicode µA",
    "  padded  ",
    "[not, an, array]",
    "{x: 1,}",
    "-12",
]
FLOATS = ["1.5", "-0.25", "1e3", "2.5E-2", "3.", ".5", "-7.0", "+2.25", "0.0"]
INTS = ["0", "1", "-1", "+5", "255", "-128", "65535", "18446744073709551616", "-9223372036854775808", "007"]


def gen_value(rng, depth, idents):
    """Return (tokens, expected python value)."""
    kinds = ["int", "int", "float", "str", "id"]
    if depth > 0:
        kinds += ["arr"]
    kind = rng.choice(kinds)
    if kind == "int":
        text = rng.choice(INTS)
        return [text], int(text)
    if kind == "float":
        text = rng.choice(FLOATS)
        return [text], float(text)
    if kind == "str":
        raw = rng.choice(STRINGS)
        return ['"' + raw + '"'], raw
    if kind == "id":
        name = rng.choice(idents)
        return [name], name
    n = rng.choice([1, 1, 2, 3, 5])
    toks = ["["]
    vals = []
    for i in range(n):
        if i:
            toks.append(",")
        t, v = gen_value(rng, depth - 1, idents)
        toks += t
        vals.append(v)
    toks.append("]")
    return toks, vals


class Names:
    def __init__(self, rng):
        self.rng = rng
        self.n = 0

    def new(self, prefix):
        self.n += 1
        tail = self.rng.choice(["", "_", "x", "Z9", "_q_", "0"])
        return "%s%d%s" % (prefix, self.n, tail)


def gen_description(rng, size, depth):
    """Return (items, expected dict). items is the source-order list of
    declarations, each (kind, payload) with the tokens needed to print."""
    names = Names(rng)
    structs, enums = [], []
    items = []
    exp = {
        "structs": [],
        "enums": [],
        "impls": [],
        "services": [],
        "devices": [],
        "version": "3.0",
    }
    idents = ["ecu", "Kx", "some_name", "_u", "A1", "big_endian"]
    n_items = rng.randrange(1, size + 1)
    for _ in range(n_items):
        choices = ["struct", "struct", "enum"]
        if structs:
            choices += ["impl", "impl", "service"]
        choices += ["device"]
        kind = rng.choice(choices)
        if kind == "struct":
            name = names.new("S")
            fields = []
            exp_fields = []
            ids = list(range(0, 40))
            rng.shuffle(ids)
            for k in range(rng.randrange(1, 6)):
                fname = names.new("q")
                toks, tdict = gen_type(rng, depth, structs, enums)
                fid = ids[k]
                params = []
                fexp = {"name": fname, "field_id": fid, "type": tdict}
                order = rng.choice([[], ["unit"], ["range"], ["unit", "range"], ["range", "unit"]])
                for p in order:
                    if p == "unit":
                        raw = rng.choice(STRINGS)
                        params.append(("unit", [['"' + raw + '"']]))
                        fexp["unit"] = raw
                    else:
                        lo, hi = rng.choice(FLOATS), rng.choice(FLOATS)
                        params.append(("range", [[lo], [hi]]))
                        fexp["min_value"] = float(lo)
                        fexp["max_value"] = float(hi)
                fields.append((fname, fid, toks, params))
                # serialisation order of a field is fixed, whatever the
                # order of the parameters in the text
                fexp = {
                    k: fexp[k]
                    for k in ("name", "field_id", "type", "unit", "min_value", "max_value")
                    if k in fexp
                }
                exp_fields.append(fexp)
            items.append(("struct", (name, fields)))
            exp["structs"].append({"name": name, "fields": exp_fields})
            exp["impls"].append(
                {"name": name, "protocol": "default", "type": name, "fields": {}, "signals": []}
            )
            structs.append(name)
            idents.append(name)
        elif kind == "enum":
            name = names.new("E")
            members = []
            for k in range(rng.randrange(1, 6)):
                text = rng.choice(INTS)
                members.append((names.new("M"), text))
            items.append(("enum", (name, members)))
            exp["enums"].append(
                {"name": name, "enumeration": [{"name": m, "value": int(t)} for m, t in members]}
            )
            enums.append(name)
            idents.append(name)
        elif kind == "impl":
            target = rng.choice(structs)
            protocol = rng.choice(["can", "uart", "P_%d" % rng.randrange(9)])
            rename = rng.choice([None, None, names.new("R")])
            body = []
            fields = {}
            signals = []
            for k in range(rng.randrange(1, 6)):
                if rng.random() < 0.35:
                    sname = names.new("g")
                    sfields = []
                    sexp = {}
                    for j in range(rng.randrange(1, 4)):
                        key = rng.choice(["bitstart", "bitlength", "endianness", "mux", names.new("k")])
                        vt, vv = gen_value(rng, 2, idents)
                        sfields.append((key, vt))
                        sexp[key] = vv
                    body.append(("signal", sname, sfields))
                    signals.append({"name": sname, "fields": sexp})
                else:
                    key = rng.choice(["id", "device", "bus", "period", names.new("k")])
                    vt, vv = gen_value(rng, 2, idents)
                    body.append(("field", key, vt))
                    fields[key] = vv
            items.append(("impl", (protocol, target, rename, body)))
            exp["impls"].append(
                {
                    "name": rename if rename is not None else target,
                    "protocol": protocol,
                    "type": target,
                    "fields": fields,
                    "signals": signals,
                }
            )
        elif kind == "service":
            name = names.new("V")
            sid = rng.randrange(0, 300)
            methods = []
            for k in range(rng.randrange(1, 4)):
                methods.append(
                    (names.new("m"), rng.choice(idents), rng.randrange(0, 70000), rng.choice(idents))
                )
            items.append(("service", (name, sid, methods)))
            exp["services"].append(
                {
                    "name": name,
                    "id": sid,
                    "methods": [
                        {"name": m, "id": i, "input": a, "output": b} for m, a, i, b in methods
                    ],
                }
            )
        else:
            name = names.new("D")
            dfields = []
            dexp = {}
            for k in range(rng.randrange(1, 5)):
                key = rng.choice(["services", "address", names.new("k")])
                vt, vv = gen_value(rng, 3, idents)
                dfields.append((key, vt))
                dexp[key] = vv
            items.append(("device", (name, dfields)))
            exp["devices"].append({"name": name, "fields": dexp})
    return items, exp


# --------------------------------------------------------------------------
# printer: description -> token list -> text in a formatting variant
# --------------------------------------------------------------------------


def tokens_of(items, rng, style):
    """style: 'canonical' or 'random' (choice of optional separators)."""

    def flip():
        return style == "random" and rng.random() < 0.5

    out = ["version", ":", '"3"']
    for kind, payload in items:
        if kind == "struct":
            name, fields = payload
            out += ["struct", name, "{"]
            for fname, fid, toks, params in fields:
                out += [fname, "@", str(fid), ":"] + toks
                if params and (style == "canonical" or flip()):
                    out.append("|")
                for i, (pname, pargs) in enumerate(params):
                    out += [pname, "("]
                    for j, a in enumerate(pargs):
                        out += a
                        if j + 1 < len(pargs) or flip():
                            out.append(",")
                    out.append(")")
                    last = i + 1 == len(params)
                    if (not last and style == "canonical") or flip():
                        out.append("|")
                out.append(",")
            out.append("}")
        elif kind == "enum":
            name, members = payload
            out += ["enum", name, "{"]
            for m, text in members:
                out += [m, "=", text, ","]
            out.append("}")
        elif kind == "impl":
            protocol, target, rename, body = payload
            out += ["impl", protocol, "for", target]
            if rename is not None:
                if style == "canonical" or flip():
                    out.append("as")
                out.append(rename)
            out.append("{")
            for entry in body:
                if entry[0] == "field":
                    out += [entry[1], ":"] + entry[2] + [","]
                else:
                    out += ["signal", entry[1], "{"]
                    for key, vt in entry[2]:
                        out += [key, ":"] + vt + [","]
                    out += ["}", ","]
            out.append("}")
        elif kind == "service":
            name, sid, methods = payload
            out += ["service", name, "@", str(sid), "{"]
            for m, a, i, b in methods:
                out += ["method", m, "(", a, ")", "@", str(i), "returns", b, ","]
            out.append("}")
        else:
            name, dfields = payload
            out += ["device", name, "{"]
            for key, vt in dfields:
                out += [key, ":"] + vt + [","]
            out.append("}")
    return out


WORDISH = re.compile(r"[A-Za-z0-9_.+\-]")


def needs_space(a, b):
    return bool(WORDISH.match(a[-1])) and bool(WORDISH.match(b[0]))


COMMENTS = ["/* c */", "/* multi\n line * / */", "// line comment\n", "/**/", "// struct X { a @0: u8, }\n"]


def layout(tokens, rng, style):
    if style == "canonical":
        text = []
        for i, t in enumerate(tokens):
            text.append(t)
            text.append("\n" if t in ("{", "}", ",") else " ")
        return "".join(text)
    if style == "dense":
        text = [tokens[0]]
        for a, b in zip(tokens, tokens[1:]):
            if needs_space(a, b):
                text.append(" ")
            text.append(b)
        return "".join(text)
    # random white space and comments
    text = [tokens[0]]
    for a, b in zip(tokens, tokens[1:]):
        sep = rng.choice(["", " ", " ", "\n", "\t", "  \n\t ", "\n\n"])
        if rng.random() < 0.08:
            sep += rng.choice(COMMENTS) + rng.choice(["", " ", "\n"])
        if sep == "" and needs_space(a, b):
            sep = " "
        # a comment glued to the next token must not merge with a '/'
        text.append(sep)
        text.append(b)
    return "".join(text) + rng.choice(["", "\n", " // trailing", "/* end */\n"])


# --------------------------------------------------------------------------
# helpers around the parser
# --------------------------------------------------------------------------


def normalise_error(text):
    """`expected one of: [...]` is printed from a set: sort it."""

    def fix(m):
        inner = sorted(x.strip() for x in m.group(1).split(",") if x.strip())
        return "expected one of: [" + ", ".join(inner) + "]"

    text = re.sub(r"expected one of: \[([^\]]*)\]", fix, text)
    # beartype messages quote the module path of the worktree nowhere, but be
    # defensive about absolute paths anyway
    return text


def parse_text(text):
    logger = Logger({}, enable_file_paths=False)
    res = get_fcp_from_string(text, logger)
    if res.is_ok():
        return True, res.unwrap(), logger
    return False, res.err(), logger


def dump(obj):
    return json.dumps(obj, ensure_ascii=True, default=repr)


# --------------------------------------------------------------------------
# 1. round trip over generated descriptions x formatting variants
# --------------------------------------------------------------------------


def round_trips():
    rng = random.Random(0xC07)
    count = 0
    for case in range(70):
        size = 1 + case % 9
        depth = case % 5
        items, expected = gen_description(rng, size, depth)
        trees = []
        for style, lay in (
            ("canonical", "canonical"),
            ("canonical", "dense"),
            ("random", "random"),
            ("random", "random"),
            ("random", "dense"),
        ):
            toks = tokens_of(items, rng, style)
            text = layout(toks, rng, lay)
            ok, fcp, logger = parse_text(text)
            if not ok:
                check(False, "case %d (%s/%s) did not parse: %r\n%s" % (case, style, lay, fcp, text))
                continue
            got = fcp.to_dict()
            check(got == expected, "case %d (%s/%s): tree differs from description\n%s\n got %s\n exp %s" % (case, style, lay, text, dump(got), dump(expected)))
            # key order inside dictionaries is source order as well
            check(dump(got) == dump(expected_in_order(expected)), "case %d (%s/%s): key order" % (case, style, lay))
            trees.append(dump(got))
            # one default binding per struct, named after it, right after it
            defaults = [i["name"] for i in got["impls"] if i["protocol"] == "default"]
            check(defaults == [s["name"] for s in got["structs"]], "case %d: default bindings" % case)
            # nodes carry positions that point into the text
            for s in fcp.structs:
                check(text[s.meta.start_pos : s.meta.end_pos].startswith("struct"), "case %d: struct meta" % case)
                check(text[s.meta.end_pos - 1] == "}", "case %d: struct meta end" % case)
                for f in s.fields:
                    check(text[f.meta.start_pos : f.meta.end_pos].startswith(f.name), "case %d: field meta" % case)
            for e in fcp.enums:
                check(text[e.meta.start_pos : e.meta.end_pos].startswith("enum"), "case %d: enum meta" % case)
            for i in fcp.impls:
                word = "struct" if i.protocol == "default" else "impl"
                check(text[i.meta.start_pos : i.meta.end_pos].startswith(word), "case %d: impl meta" % case)
                for sg in i.signals:
                    check(text[sg.meta.start_pos : sg.meta.end_pos].startswith("signal"), "case %d: signal meta" % case)
            for sv in fcp.services:
                check(text[sv.meta.start_pos : sv.meta.end_pos].startswith("service"), "case %d: service meta" % case)
                for m in sv.methods:
                    check(text[m.meta.start_pos : m.meta.end_pos].startswith("method"), "case %d: method meta" % case)
            for d in fcp.devices:
                check(text[d.meta.start_pos : d.meta.end_pos].startswith("device"), "case %d: device meta" % case)
            if (style, lay) == ("canonical", "canonical"):
                observe("refl%d" % case, dump(fcp.reflection() | {"devices": [[d.name, d.fields] for d in fcp.devices]}))
                observe("repr%d" % case, repr(fcp))
            count += 1
        check(len(set(trees)) <= 1, "case %d: formatting changes the tree" % case)
        observe("tree%d" % case, trees[0] if trees else "-")
        # parsing the same text twice gives equal, independent trees
        text = layout(tokens_of(items, rng, "canonical"), rng, "canonical")
        a = parse_text(text)[1]
        b = parse_text(text)[1]
        check(a.to_dict() == b.to_dict() and a is not b and a.structs is not b.structs, "case %d: repeated parse" % case)
    return count


def expected_in_order(expected):
    # the description dictionaries are built in declaration order already
    return expected


# --------------------------------------------------------------------------
# 2. hand written texts: composed type resolution, duplicates, separators
# --------------------------------------------------------------------------

HAND = {
    "enum_then_struct_same_name": """version: "3"
        enum T { A = 0, }
        struct T { a @0: u8, }
        struct U { t @0: T, o @1: Optional[T], }""",
    "struct_then_enum_same_name": """version: "3"
        struct T { a @0: u8, }
        enum T { A = 0, }
        struct U { t @0: [T, 2], }""",
    "duplicate_struct": """version: "3"
        struct T { a @0: u8, }
        struct T { b @1: u16, }
        struct U { t @0: [T], }""",
    "enum_only": """version: "3"
        enum Colour { Red = 0, Green = 1, Blue = 2, }
        struct P { c @0: Colour, cs @1: [Colour, 3], }""",
    "impl_before_and_after": """version: "3"
        struct A { x @0: u8, }
        impl can for A { id: 1, }
        struct B { a @0: A, }
        impl can for B as Bee { id: 2, signal a { bitstart: 0, }, id2: 3, signal b { k: v, }, }
        impl can for B Bee2 { signal only { k: [1], }, }
        impl can for Unknown { id: 3, }
        """,
    "repeated_keys": """version: "3"
        struct A { x @0: u8 | unit("a") | unit("b") | range(0.0, 1.0) | range(2.0, 3.0), }
        impl can for A { id: 1, id: 2, other: 3, id: 4, signal s { k: 1, k: 2, j: 3, }, signal s { z: 0, }, }
        device d { f: 1, g: 2, f: 3, }""",
    "spaces_in_types": """version: "3"
        struct A { x @0: u 8, y @1: i 1 6, z @2: [ u 3 2 , 4 ], }""",
    "comments_everywhere": """version /*a*/ : /*b*/ "3" // c
        /*d*/ struct /*e*/ A /*f*/ { /*g*/ x /*h*/ @ /*i*/ 0 /*j*/ : /*k*/ u8 /*l*/ , /*m*/ } // n
        // struct B { y @0: A, }
        enum /*o*/ E { /*p*/ V /*q*/ = /*r*/ -1 /*s*/ , }""",
    "float_array_size": 'version: "3"\nstruct S { a @1: [u8, 2.5], }',
    "empty": """version: "3" """,
    "only_device": """version: "3"
        device ecu { services: [A, B, [C]], n: -1, f: -1.5e-3, s: "x y", }""",
    "deep_type": 'version: "3"\nstruct A { x @0: '
    + "Optional[" * 12
    + "[" * 12
    + "u8"
    + ", 2]" * 12
    + "]" * 12
    + ", }",
    "deep_value": 'version: "3"\ndevice d { v: ' + "[" * 25 + "1" + "]" * 25 + ", }",
    "many_fields": 'version: "3"\nstruct Big { '
    + " ".join("f%d @%d: u%d," % (i, 200 - i, 1 + i % 64) for i in range(120))
    + " }",
}


def hand_written():
    for name, text in HAND.items():
        ok, fcp, logger = parse_text(text)
        check(ok, "hand %s must parse: %r" % (name, fcp))
        if ok:
            observe("hand_" + name, dump(fcp.to_dict()))
            observe("handrefl_" + name, dump(fcp.reflection()))

    ok, fcp, _ = parse_text(HAND["enum_then_struct_same_name"])
    if ok:
        types = [f["type"] for f in fcp.to_dict()["structs"][1]["fields"]]
        check(types[0] == {"name": "T", "type": "Struct"}, "struct wins over enum of the same name")
    ok, fcp, _ = parse_text(HAND["struct_then_enum_same_name"])
    if ok:
        t = fcp.to_dict()["structs"][1]["fields"][0]["type"]
        check(t["underlying_type"] == {"name": "T", "type": "Struct"}, "struct wins (2)")
    ok, fcp, _ = parse_text(HAND["enum_only"])
    if ok:
        t = fcp.to_dict()["structs"][0]["fields"]
        check(t[0]["type"] == {"name": "Colour", "type": "Enum"}, "enum type")
    ok, fcp, _ = parse_text(HAND["repeated_keys"])
    if ok:
        d = fcp.to_dict()
        check(d["structs"][0]["fields"][0] == {"name": "x", "field_id": 0, "type": {"name": "u8", "type": "unsigned"}, "unit": "b", "min_value": 2.0, "max_value": 3.0}, "repeated params: last wins")
        check(list(d["impls"][1]["fields"].items()) == [("id", 4), ("other", 3)], "repeated extension keys")
        check(d["impls"][1]["signals"] == [{"name": "s", "fields": {"k": 2, "j": 3}}, {"name": "s", "fields": {"z": 0}}], "repeated signal keys")
        check(list(d["devices"][0]["fields"].items()) == [("f", 3), ("g", 2)], "repeated device keys")
    ok, fcp, _ = parse_text(HAND["impl_before_and_after"])
    if ok:
        d = fcp.to_dict()
        check([(i["name"], i["protocol"], i["type"]) for i in d["impls"]] == [("A", "default", "A"), ("A", "can", "A"), ("B", "default", "B"), ("Bee", "can", "B"), ("Bee2", "can", "B"), ("Unknown", "can", "Unknown")], "impl order and names")
        check(list(d["impls"][3]["fields"].items()) == [("id", 2), ("id2", 3)], "fields around signal blocks")
        check([s["name"] for s in d["impls"][3]["signals"]] == ["a", "b"], "signal order")
        check(d["impls"][4]["fields"] == {}, "impl with only signal blocks")


# --------------------------------------------------------------------------
# 3. error inputs: pinned chains
# --------------------------------------------------------------------------

ERRORS = {
    "self_reference": ('version: "3"\nstruct S { a @0: S, }', "Type 'S' cannot be found.\nError parsing type in struct field\nFailed to parse field in struct S\nFailed to parse main.fcp"),
    "use_before_declaration": ('version: "3"\nstruct S { a @0: u8, b @1: [Optional[[T, 2]]], }\nstruct T { a @0: u8, }', "Type 'T' cannot be found.\nError parsing array type\nError parsing optional type\nError parsing dynamic array type\nError parsing type in struct field\nFailed to parse field in struct S\nFailed to parse main.fcp"),
    "enum_after_use": ('version: "3"\nstruct S { a @0: Optional[E], }\nenum E { A = 0, }', "Type 'E' cannot be found.\nError parsing optional type\nError parsing type in struct field\nFailed to parse field in struct S\nFailed to parse main.fcp"),
    "failed_struct_is_not_declared": ('version: "3"\nstruct S { a @0: Nope, }\nstruct T { s @0: S, }', None),
    "wrong_version": ('version: "2"\nstruct S { a @0: u8, }', "Expected IDL version 3\nFailed to parse main.fcp"),
    "range_one_argument": ('version: "3"\nstruct S { a @0: u8 range(1.0), }', "Invalid definition in main.fcp: list index out of range"),
    "range_no_argument": ('version: "3"\nstruct S { a @0: u8 range(), }', "Invalid definition in main.fcp: list index out of range"),
    "unit_no_argument": ('version: "3"\nstruct S { a @0: u8 unit(), }', "Invalid definition in main.fcp: list index out of range"),
    "unknown_param": ('version: "3"\nstruct S { a @0: u8 | scale(2.0), }', "Invalid definition in main.fcp: 'scale'"),
    "int_range": ('version: "3"\nstruct S { a @0: u8 | range(0, 1), }', None),
    "unit_not_string": ('version: "3"\nstruct S { a @0: u8 | unit(3), }', None),
    "float_field_id": ('version: "3"\nstruct S { a @1.5: u8, }', None),
    "empty_enum": ('version: "3"\nenum E { }', "Invalid definition in main.fcp: Enum E as no values"),
    "string_enum_value": ('version: "3"\nenum E { A = "x", }', None),
    "float_service_id": ('version: "3"\nservice V @1.5 { method m(A) @0 returns B, }', None),
    "missing_comma": ('version: "3"\nstruct S { a @0: u8 }', None),
    "eof": ('version: "3"\nstruct S { a @0: u8,', None),
    "no_version": ("struct S { a @0: u8, }", None),
    "empty_struct": ('version: "3"\nstruct S { }', None),
    "empty_impl": ('version: "3"\nstruct S { a @0: u8, }\nimpl can for S { }', None),
    "missing_module": ('version: "3"\nmod does.not.exist;', "File not found: exist.fcp\nFailed to parse main.fcp"),
    "two_errors_first_reported": ('version: "3"\nstruct S { a @0: X, }\nstruct T { b @0: Y, }', None),
}


def error_inputs():
    for name, (text, pinned) in ERRORS.items():
        ok, err, logger = parse_text(text)
        check(not ok, "error input %s must be rejected" % name)
        if ok:
            continue
        chain = normalise_error(repr(err))
        if pinned is not None:
            check(chain == pinned, "error %s: chain %r" % (name, chain))
        observe("err_" + name, chain)
        observe("errlog_" + name, normalise_error(logger.error(err)))
        observe("errnodes_" + name, dump([(normalise_error(m), None if n is None else [n.meta.line, n.meta.column, n.meta.end_line, n.meta.end_column, n.meta.start_pos, n.meta.end_pos, os.path.basename(n.meta.filename)]) for m, n, _ in err.msg]))
    # a rejected schema leaves nothing behind for the next call
    ok, _, _ = parse_text('version: "3"\nstruct Leak { a @0: u8, }\nenum LeakE { A = 0, }')
    check(ok, "leak setup")
    ok, err, _ = parse_text('version: "3"\nstruct S { a @0: Leak, }')
    check(not ok and repr(err).startswith("Type 'Leak' cannot be found."), "types must not leak between calls")
    ok, err, _ = parse_text('version: "3"\nstruct S { a @0: LeakE, }')
    check(not ok and repr(err).startswith("Type 'LeakE' cannot be found."), "enums must not leak between calls")


# --------------------------------------------------------------------------
# 4. modules
# --------------------------------------------------------------------------


def modules():
    with tempfile.TemporaryDirectory() as tmp:
        root = pathlib.Path(tmp).resolve()
        (root / "lib" / "deep").mkdir(parents=True)
        (root / "main.fcp").write_text(
            'version: "3"\n'
            "struct Before { a @0: u8, }\n"
            "mod lib.types;\n"
            "struct After { p @0: Point, c @1: [Colour, 2], l @2: Optional[Leaf], b @3: Before, }\n"
            "impl can for Point as Pt { id: 7, }\n"
            "mod other;\n"
            "struct Last { o @0: Other, }\n"
        )
        (root / "lib" / "types.fcp").write_text(
            'version: "3"\n'
            "mod deep.leaf;\n"
            "enum Colour { Red = 0, Green = 1, }\n"
            "struct Point { x @0: i16 | unit(\"mm\"), y @1: i16, leaf @2: Leaf, c @3: Colour, }\n"
            "impl can for Point { id: 1, signal x { bitstart: 0, }, }\n"
            "device ecu { services: [S], }\n"
            "service S @1 { method get(Point) @0 returns Leaf, }\n"
        )
        (root / "lib" / "deep" / "leaf.fcp").write_text(
            'version: "3"\nstruct Leaf { v @0: f32 | range(0.0, 1.0), }\n'
        )
        (root / "other.fcp").write_text('version: "3"\nstruct Other { a @0: u8, }\nenum Before { Z = 0, }\n')

        def run(name, expect_ok):
            logger = Logger({}, enable_file_paths=False)
            res = get_fcp(str(root / name), logger)
            check(res.is_ok() == expect_ok, "module case %s: ok=%s %r" % (name, res.is_ok(), res))
            if res.is_ok():
                fcp = res.unwrap()
                observe("mod_" + name, dump(fcp.to_dict()))
                observe("modrefl_" + name, dump(fcp.reflection()).replace(str(root), "<root>"))
                return fcp
            err = res.err()
            observe("moderr_" + name, normalise_error(repr(err)).replace(str(root), "<root>"))
            observe("moderrlog_" + name, normalise_error(logger.error(err)).replace(str(root), "<root>"))
            return err

        fcp = run("main.fcp", True)
        if isinstance(fcp, FcpV2):
            d = fcp.to_dict()
            check([s["name"] for s in d["structs"]] == ["Before", "Leaf", "Point", "After", "Other", "Last"], "module structs in place: %s" % [s["name"] for s in d["structs"]])
            check([e["name"] for e in d["enums"]] == ["Colour", "Before"], "module enums")
            check([(i["name"], i["protocol"]) for i in d["impls"]] == [("Before", "default"), ("Leaf", "default"), ("Point", "default"), ("Point", "can"), ("After", "default"), ("Pt", "can"), ("Other", "default"), ("Last", "default")], "module impls")
            after = d["structs"][3]["fields"]
            check(after[0]["type"] == {"name": "Point", "type": "Struct"}, "type from module")
            check(after[1]["type"]["underlying_type"] == {"name": "Colour", "type": "Enum"}, "enum from module")
            check(after[2]["type"]["underlying_type"] == {"name": "Leaf", "type": "Struct"}, "type from nested module")
            check(after[3]["type"] == {"name": "Before", "type": "Struct"}, "own type")
            check([s["name"] for s in d["services"]] == ["S"] and [x["name"] for x in d["devices"]] == ["ecu"], "module services/devices")

        # types of the importing file are not visible inside the module
        (root / "m2.fcp").write_text('version: "3"\nstruct Mine { a @0: u8, }\nenum MineE { A = 0, }\nmod uses_mine;\n')
        (root / "uses_mine.fcp").write_text('version: "3"\nstruct X { m @0: Mine, }\n')
        run("m2.fcp", False)
        (root / "m2e.fcp").write_text('version: "3"\nenum MineE { A = 0, }\nmod uses_minee;\n')
        (root / "uses_minee.fcp").write_text('version: "3"\nstruct X { m @0: [MineE], }\n')
        run("m2e.fcp", False)
        # a module that fails contributes nothing, the type stays unknown
        (root / "m3.fcp").write_text('version: "3"\nmod bad_version;\n')
        (root / "bad_version.fcp").write_text('version: "1"\nstruct X { a @0: u8, }\n')
        run("m3.fcp", False)
        (root / "m4.fcp").write_text('version: "3"\nmod bad_syntax;\n')
        (root / "bad_syntax.fcp").write_text('version: "3"\nstruct X { a @0 u8, }\n')
        run("m4.fcp", False)
        (root / "m5.fcp").write_text('version: "3"\nmod bad_eof;\n')
        (root / "bad_eof.fcp").write_text('version: "3"\nstruct X { a @0: u8,')
        run("m5.fcp", False)
        (root / "m6.fcp").write_text('version: "3"\nmod bad_param;\n')
        (root / "bad_param.fcp").write_text('version: "3"\nstruct X { a @0: u8 | nope(1), }\n')
        run("m6.fcp", False)
        # same module twice: declarations appear twice, in place
        (root / "m7.fcp").write_text('version: "3"\nmod other;\nstruct Q { o @0: Other, }\nmod other;\nstruct R { o @0: [Other, 2], z @1: Before, }\n')
        fcp = run("m7.fcp", True)
        if isinstance(fcp, FcpV2):
            check([s.name for s in fcp.structs] == ["Other", "Q", "Other", "R"], "module imported twice")
            check(fcp.to_dict()["structs"][3]["fields"][1]["type"] == {"name": "Before", "type": "Enum"}, "enum from module imported twice")


# --------------------------------------------------------------------------
# 5. to_dict contract on hand built trees
# --------------------------------------------------------------------------


def to_dict_contract():
    meta = MetaData(1, 2, 3, 4, 5, 6, "x.fcp")
    deep = UnsignedType("u8")
    for i in range(60):
        deep = [ArrayType(deep, i + 1), OptionalType(deep), DynamicArrayType(deep)][i % 3]
    fcp = FcpV2(
        structs=[
            Struct("A", [StructField("a", 0, deep, unit=None, min_value=0.0, meta=meta), StructField("meta", 1, StructType("meta"), unit="meta")], meta),
            Struct("B", [], None),
        ],
        impls=[
            Impl("A", "can", "A", {"meta": 1, "none": None, "zero": 0, "empty": "", "false": False, "l": [None, {"meta": 2, "k": None, "j": [], "d": {}}, [None, [{"meta": None}]], (None, {"meta": 3})], "d": {"meta": {"meta": 1}, "x": {"y": None, "z": {}}}}, [SignalBlock("meta", {"meta": 5, "n": None, "v": [1, {"meta": 1, "w": 2}]}, meta)], meta),
        ],
        devices=[Device("d", {"meta": None, "a": {"b": {"c": {"meta": 1, "d": [None]}}}}, meta)],
    )
    d = fcp.to_dict()
    observe("todict", dump(d))
    check(d["impls"][0]["fields"]["l"][0] is None, "None inside lists stays")
    check("none" not in d["impls"][0]["fields"] and "meta" not in d["impls"][0]["fields"], "None values / meta keys go")
    check(d["impls"][0]["fields"]["zero"] == 0 and d["impls"][0]["fields"]["empty"] == "" and d["impls"][0]["fields"]["false"] is False, "falsy values stay")
    check(d["impls"][0]["fields"]["l"][1] == {"j": [], "d": {}}, "nested dict in list filtered")
    check(d["impls"][0]["fields"]["d"] == {"x": {"z": {}}}, "nested dicts filtered")
    check(d["devices"][0]["fields"] == {"a": {"b": {"c": {"d": [None]}}}}, "device fields filtered")
    check(list(d.keys()) == ["structs", "enums", "impls", "services", "devices", "version"], "top level key order")
    check(list(d["structs"][0]["fields"][0].keys()) == ["name", "field_id", "type", "min_value"], "field key order")
    check(d["structs"][0]["fields"][1]["name"] == "meta" and d["structs"][0]["fields"][1]["unit"] == "meta", "values called meta stay")
    # to_dict does not modify the tree and gives fresh containers each time
    d2 = fcp.to_dict()
    check(d == d2 and d is not d2 and d["structs"] is not d2["structs"], "to_dict is repeatable")
    d["structs"].clear()
    check(len(fcp.to_dict()["structs"]) == 2, "to_dict result is independent of the tree")
    check(fcp.impls[0].fields["none"] is None and "meta" in fcp.impls[0].fields, "tree untouched")
    check(FcpV2().to_dict() == {"structs": [], "enums": [], "impls": [], "services": [], "devices": [], "version": "3.0"}, "empty tree")


def main():
    n = round_trips()
    hand_written()
    error_inputs()
    modules()
    to_dict_contract()

    digest = hashlib.sha256("\n".join(OBSERVED).encode("utf-8")).hexdigest()
    if os.environ.get("C07_DUMP"):
        with open(os.environ["C07_DUMP"], "w") as f:
            for o in OBSERVED:
                f.write(o.replace("\n", "\\n") + "\n")
    if os.environ.get("C07_PRINT_DIGEST"):
        print("digest", digest, "observations", len(OBSERVED))
    else:
        check(digest == GOLDEN, "digest of all observations differs from the recorded one: %s" % digest)
    if FAILURES:
        print("FAIL (%d problems)" % len(FAILURES))
        return 1
    print("PASS (%d round trips, %d observations)" % (n, len(OBSERVED)))
    return 0


if __name__ == "__main__":
    sys.exit(main())
