#!/usr/bin/env python
"""Differential test for property C18 (C++ CAN frame wrapper).

For a handful of schemas the C++ plug-in output is generated from the code
found through PYTHONPATH, compiled together with a small driver and run.  The
driver encodes every case through `fcp::can::Can` backed by the statically
generated schema and by the reflection-loaded (dynamic) schema, decodes the
frames again and probes frames whose (id, bus) matches no binding.  The Python
side checks the answers against the schema text and the Python serde codec.

Exits 0 and prints PASS when the property holds on all cases.
"""

import json
import os
import subprocess
import sys
import tempfile
from pathlib import Path

from fcp.parser import get_fcp_from_string
from fcp.reflection import get_reflection_schema
from fcp.serde import encode as serde_encode
from fcp_cpp import Generator

JSON_INCLUDE = os.environ.get("NLOHMANN_INCLUDE", "/root/miniconda/include")
CXX = os.environ.get("CXX", "g++")
EXTRA_CXXFLAGS = os.environ.get("CXXFLAGS", "").split()

DRIVER = r"""
#include "can.h"
#include "fcp.h"
#include "can_static_schema.h"
#include "can_dynamic_schema.h"

#include <fstream>
#include <iostream>
#include <memory>

using json = nlohmann::json;

static json FrameToJson(const fcp::can::frame_t& f) {
    json j;
    j["bus"] = json::array();
    for (auto c: f.bus) j["bus"].push_back(static_cast<int>(static_cast<unsigned char>(c)));
    j["sid"] = f.sid;
    j["dlc"] = f.dlc;
    j["data"] = json::array();
    for (auto b: f.data) j["data"].push_back(static_cast<int>(b));
    return j;
}

static fcp::can::frame_t FrameFromJson(const json& j) {
    fcp::can::frame_t f{};
    for (std::size_t i = 0; i < 4; i++) f.bus[i] = static_cast<char>(j["bus"][i].get<int>());
    f.sid = j["sid"].get<std::uint16_t>();
    f.dlc = j["dlc"].get<std::uint8_t>();
    for (std::size_t i = 0; i < 8; i++) f.data[i] = j["data"][i].get<std::uint8_t>();
    return f;
}

static json DecodedToJson(const std::optional<std::pair<std::string, json>>& d) {
    if (!d.has_value()) return nullptr;
    return json{{"name", d.value().first}, {"value", d.value().second}};
}

static json Run(fcp::can::Can can, const json& cases) {
    json out;
    out["encode"] = json::array();
    out["raw"] = json::array();
    // two passes, the second one in reverse order: answers must not depend on
    // what was asked before
    for (int pass = 0; pass < 2; pass++) {
        json encs = json::array();
        const auto& list = cases["encode"];
        for (std::size_t k = 0; k < list.size(); k++) {
            const auto& c = list[pass == 0 ? k : list.size() - 1 - k];
            json r;
            r["case"] = c["case"];
            auto frame = can.Encode(c["name"].get<std::string>(), c["value"]);
            if (!frame.has_value()) {
                r["frame"] = nullptr;
            } else {
                r["frame"] = FrameToJson(frame.value());
                r["decoded"] = DecodedToJson(can.Decode(frame.value()));
            }
            encs.push_back(r);
        }
        out["encode"].push_back(encs);

        json raws = json::array();
        for (const auto& c: cases["raw"]) {
            json r;
            r["case"] = c["case"];
            r["decoded"] = DecodedToJson(can.Decode(FrameFromJson(c["frame"])));
            raws.push_back(r);
        }
        out["raw"].push_back(raws);
    }
    return out;
}

int main() {
    std::ifstream in("cases.json");
    json cases = json::parse(in);

    json out;
    out["static"] = Run(fcp::can::Can{std::make_shared<fcp::can::CanStaticSchema>()}, cases);

    // the dynamic wrapper is copied around and must outlive the objects it
    // was built from
    std::shared_ptr<fcp::can::ICanSchema> dyn;
    {
        auto dynamic_schema = fcp::dynamic::DynamicSchema();
        dynamic_schema.LoadBinarySchemaFromFile("output.bin");
        auto first = std::make_unique<fcp::can::CanDynamicSchema>(dynamic_schema);
        fcp::can::CanDynamicSchema second(*first);
        first.reset();
        fcp::can::CanDynamicSchema third(std::move(second));
        dyn = std::make_shared<fcp::can::CanDynamicSchema>(third);
    }
    out["dynamic"] = Run(fcp::can::Can{dyn}, cases);

    std::cout << out.dump() << std::endl;
    return 0;
}
"""

# --------------------------------------------------------------------------
# schemas: (source, bindings {name: (id, bus)}, encode cases [(name, value)])
# --------------------------------------------------------------------------

SCHEMA_MIXED = """version: "3"

struct A {
    a @ 0: u8,
    b @ 1: u8,
}

impl can for A {
    id: 0,
    bus: "b",
}

struct B {
    x @ 0: u3,
    y @ 1: u5,
    z @ 2: u13,
    w @ 3: i11,
}

impl can for B {
    id: 2047,
    device: "ecu1",
    bus: "bus1",
}

struct C {
    v @ 0: u64,
}

impl can for C {
    id: 1,
    bus: "ab",
}

struct D {
    s @ 0: i16,
    t @ 1: [u8, 3],
    u @ 2: i24,
}

impl can for D {
    id: 1,
    bus: "abc",
}

struct F {
    f @ 0: f32,
    g @ 1: u1,
}

impl can for F {
    id: 1024,
    bus: "bus1",
}

// a second binding of an already bound struct: encoding by name keeps using
// the first one, frames of either are decoded
impl can for A {
    id: 3,
    bus: "c2",
}

struct N {
    inner @ 0: A,
    k @ 1: u4,
}

impl can for N {
    id: 77,
    bus: "zz",
}

struct Plain {
    p @ 0: u8,
}

struct Big {
    a @ 0: u64,
    b @ 1: u8,
}

impl can for Big {
    id: 99,
    bus: "bus1",
}
"""

MIXED_BINDINGS = {
    "A": (0, "b"),
    "B": (2047, "bus1"),
    "C": (1, "ab"),
    "D": (1, "abc"),
    "F": (1024, "bus1"),
    "N": (77, "zz"),
    "Big": (99, "bus1"),
}

MIXED_CASES = [
    ("A", {"a": 0, "b": 0}),
    ("A", {"a": 255, "b": 1}),
    ("A", {"a": 1, "b": 255}),
    ("B", {"x": 0, "y": 0, "z": 0, "w": 0}),
    ("B", {"x": 7, "y": 31, "z": 8191, "w": -1}),
    ("B", {"x": 5, "y": 17, "z": 4097, "w": -1024}),
    ("B", {"x": 1, "y": 30, "z": 1, "w": 1023}),
    ("C", {"v": 0}),
    ("C", {"v": 2**64 - 1}),
    ("C", {"v": 0x0102030405060708}),
    ("D", {"s": -32768, "t": [0, 255, 7], "u": -1}),
    ("D", {"s": 32767, "t": [1, 2, 3], "u": 8388607}),
    ("D", {"s": -2, "t": [9, 8, 7], "u": -8388608}),
    ("F", {"f": 1.5, "g": 1}),
    ("F", {"f": -0.25, "g": 0}),
    ("N", {"inner": {"a": 200, "b": 100}, "k": 15}),
    ("N", {"inner": {"a": 0, "b": 1}, "k": 0}),
]

MIXED_SECONDARY = [("A", 3, "c2")]

# message names that must not produce a frame
MIXED_REFUSED = [
    ("Big", {"a": 1, "b": 2}),  # nine payload bytes do not fit a frame
    ("Plain", {"p": 1}),  # no CAN binding
    ("Nope", {"p": 1}),  # no such message
    ("", {"p": 1}),
    ("a", {"a": 1, "b": 2}),  # names are case sensitive
]

SCHEMA_SINGLE = """version: "3"

struct Only {
    lo @ 0: u8,
    hi @ 1: u8,
    rest @ 2: u48,
}

impl can for Only {
    id: 1,
    bus: "x",
}
"""

SINGLE_BINDINGS = {"Only": (1, "x")}
SINGLE_CASES = [
    ("Only", {"lo": 255, "hi": 0, "rest": 2**48 - 1}),
    ("Only", {"lo": 0, "hi": 255, "rest": 0}),
    ("Only", {"lo": 9, "hi": 6, "rest": 0xC0FFEE123456}),
]
SINGLE_REFUSED = [("only", {"lo": 0, "hi": 0, "rest": 0}), ("Onl", {}), ("Only2", {})]


def _many_schema():
    """Bindings whose names are declared in neither sorted nor id order."""
    names = [
        "Zeta",
        "alpha",
        "Msg",
        "msg",
        "MSG",
        "Msg2",
        "Msg10",
        "M",
        "beta",
        "Beta",
        "Ms",
        "Z",
        "a0",
        "_under",
    ]
    buses = ["c", "can0", "ab", "c", "can1", "abc", "c", "can0", "can1", "z", "ab", "abc", "ca", "can"]
    ids = [2047, 0, 5, 5, 5, 6, 2046, 1, 0, 0, 1023, 1024, 5, 5]
    src = ['version: "3"', ""]
    bindings = {}
    cases = []
    for k, (name, bus, ident) in enumerate(zip(names, buses, ids)):
        width = 8 * (1 + k % 4)
        signed = 8 * (1 + k % 3)
        src += [
            f"struct {name} {{",
            f"    first @ 0: u{width},",
            "    second @ 1: u8,",
            f"    third @ 2: i{signed},",
            "}",
            "",
            f"impl can for {name} {{",
            f"    id: {ident},",
            f'    bus: "{bus}",',
            "}",
            "",
        ]
        bindings[name] = (ident, bus)
        cases.append((name, {"first": 2**width - 1, "second": k, "third": -(2 ** (signed - 1))}))
        cases.append((name, {"first": 1, "second": 255 - k, "third": 2 ** (signed - 1) - 1}))
        cases.append((name, {"first": 0, "second": 0, "third": 0}))
    return "\n".join(src), bindings, cases


MANY_SRC, MANY_BINDINGS, MANY_CASES = _many_schema()
MANY_REFUSED = [("Mso", {}), ("MSg", {}), ("zeta", {}), ("Alpha", {}), ("Msg1", {}), ("~", {}), ("0", {})]


# a schema without any CAN binding still has to generate, compile and answer
SCHEMA_NONE = """version: "3"

struct Lonely {
    p @ 0: u8,
    q @ 1: i16,
}
"""
NONE_REFUSED = [("Lonely", {"p": 1, "q": -1}), ("Other", {})]


def fail(msg):
    print("FAIL:", msg)
    sys.exit(1)


def pad_bus(bus):
    raw = bus.encode()
    assert 1 <= len(raw) <= 4
    return list(raw) + [0] * (4 - len(raw))


def build_raw_cases(bindings, secondary):
    """Frames addressed to a (id, bus) pair nobody is bound to."""
    bound = {(ident, bus) for ident, bus in bindings.values()}
    bound |= {(ident, bus) for _, ident, bus in secondary}
    all_buses = sorted({bus for _, bus in bound})
    all_ids = sorted({ident for ident, _ in bound})
    probes = set()
    for ident, bus in bound:
        for other in (ident + 1, ident - 1, ident ^ 0x400, 2047 - ident, 4000, 65535):
            if 0 <= other <= 65535:
                probes.add((other, bus))
        variants = [bus[:-1], bus[1:], bus.upper(), bus + "x", "x" + bus, bus[::-1], "unkn", "None", "defa"]
        variants += all_buses
        for other_bus in variants:
            if len(other_bus) <= 4:
                probes.add((ident, other_bus))
    for ident in all_ids + [0, 10, 2047]:
        probes.add((ident, ""))
        probes.add((ident, "unkn"))
        probes.add((ident, "q"))
    probes -= bound
    raw = []
    for n, (ident, bus) in enumerate(sorted(probes)):
        raw.append(
            {
                "case": n,
                "frame": {
                    "bus": list(bus.encode()) + [0] * (4 - len(bus.encode())),
                    "sid": ident,
                    "dlc": 8,
                    "data": [(17 * n + i) % 256 for i in range(8)],
                },
            }
        )
    return raw


def generate(source, outdir):
    fcp_v2 = get_fcp_from_string(source).unwrap()
    for result in Generator().generate(fcp_v2, {"output": str(outdir)}):
        (outdir / Path(result["path"]).name).write_text(str(result["contents"]))
    reflection = get_reflection_schema().unwrap()
    fresh = get_fcp_from_string(source).unwrap()
    (outdir / "output.bin").write_bytes(bytes(serde_encode(reflection, "Fcp", fresh.reflection())))
    (outdir / "driver.cpp").write_text(DRIVER)


def run_schema(label, source, bindings, cases, refused, static_only=(), secondary=()):
    """Check one schema.

    `static_only` names messages with fields that are not whole bytes wide: the
    reflection-loaded schema packs every field on a byte boundary, so for those
    only the generated schema is held to the canonical payload.
    """
    reference = get_fcp_from_string(source).unwrap()
    with tempfile.TemporaryDirectory(prefix="c18-demo-") as tmp:
        outdir = Path(tmp)
        generate(source, outdir)

        encode_cases = [
            {"case": n, "name": name, "value": value} for n, (name, value) in enumerate(cases + refused)
        ]
        raw_cases = build_raw_cases(bindings, secondary)
        # frames of the secondary bindings, with the answer they must decode to
        expected_raw = {}
        for sec_name, sec_id, sec_bus in secondary:
            for name, value in cases:
                if name != sec_name:
                    continue
                payload = list(serde_encode(reference, name, value))
                case_no = len(raw_cases)
                raw_cases.append(
                    {
                        "case": case_no,
                        "frame": {
                            "bus": pad_bus(sec_bus),
                            "sid": sec_id,
                            "dlc": len(payload),
                            "data": payload + [0] * (8 - len(payload)),
                        },
                    }
                )
                expected_raw[case_no] = {"name": name, "value": value}
        (outdir / "cases.json").write_text(json.dumps({"encode": encode_cases, "raw": raw_cases}))

        compiled = subprocess.run(
            [CXX, "--std=c++17", "-O0", "-Wall", "-Wextra", "-Wshadow", "-pedantic", "-Werror",
             "-Wno-unused-parameter", *EXTRA_CXXFLAGS, "-isystem", JSON_INCLUDE, "driver.cpp", "-o", "driver"],
            cwd=outdir, capture_output=True, text=True,
        )
        if compiled.returncode != 0:
            print(compiled.stderr[-4000:])
            fail(f"{label}: generated code does not compile")
        ran = subprocess.run(["./driver"], cwd=outdir, capture_output=True, text=True)
        if ran.returncode != 0:
            print(ran.stderr[-2000:])
            fail(f"{label}: driver exited with {ran.returncode}")
        out = json.loads(ran.stdout)

    checked = 0
    for kind in ("static", "dynamic"):
        for pass_no in range(2):
            results = {r["case"]: r for r in out[kind]["encode"][pass_no]}
            if sorted(results) != list(range(len(encode_cases))):
                fail(f"{label}/{kind}: missing answers")
            for n, (name, value) in enumerate(cases):
                if kind == "dynamic" and name in static_only:
                    continue
                ident, bus = bindings[name]
                payload = list(serde_encode(reference, name, value))
                got = results[n]
                if len(payload) > 8:
                    if got["frame"] is not None:
                        fail(f"{label}/{kind}: {name} {value} does not fit a frame but was encoded")
                    continue
                want = {
                    "bus": pad_bus(bus),
                    "sid": ident,
                    "dlc": len(payload),
                    "data": payload + [0] * (8 - len(payload)),
                }
                if got["frame"] != want:
                    fail(f"{label}/{kind}: Encode({name}, {value}) = {got['frame']}, want {want}")
                if got["decoded"] != {"name": name, "value": value}:
                    fail(f"{label}/{kind}: Decode(Encode({name}, {value})) = {got['decoded']}")
                checked += 1
            for n, (name, value) in enumerate(refused, start=len(cases)):
                if results[n]["frame"] is not None:
                    fail(f"{label}/{kind}: Encode({name!r}) produced {results[n]['frame']}")
                checked += 1
            for r in out[kind]["raw"][pass_no]:
                frame = raw_cases[r["case"]]["frame"]
                if r["decoded"] != expected_raw.get(r["case"]):
                    fail(f"{label}/{kind}: frame {frame} decoded as {r['decoded']}")
                checked += 1
            if len(out[kind]["raw"][pass_no]) != len(raw_cases):
                fail(f"{label}/{kind}: missing raw answers")
    comparable = {n for n, (name, _) in enumerate(cases + refused) if name not in static_only}
    for pass_no in range(2):
        for got_static, got_dynamic in zip(out["static"]["encode"][pass_no], out["dynamic"]["encode"][pass_no]):
            if got_static["case"] != got_dynamic["case"]:
                fail(f"{label}: answers out of order")
            if got_static["case"] in comparable and got_static != got_dynamic:
                fail(f"{label}: static and dynamic schemas disagree: {got_static} vs {got_dynamic}")
        if out["static"]["raw"][pass_no] != out["dynamic"]["raw"][pass_no]:
            fail(f"{label}: static and dynamic schemas disagree on unbound frames")
    print(f"{label}: {checked} checks ok ({len(cases)} values, {len(refused)} refused names, {len(raw_cases)} raw frames)")


def main():
    run_schema("mixed", SCHEMA_MIXED, MIXED_BINDINGS, MIXED_CASES, MIXED_REFUSED, static_only={"B", "F", "N"},
               secondary=MIXED_SECONDARY)
    run_schema("single", SCHEMA_SINGLE, SINGLE_BINDINGS, SINGLE_CASES, SINGLE_REFUSED)
    run_schema("many", MANY_SRC, MANY_BINDINGS, MANY_CASES, MANY_REFUSED)
    run_schema("none", SCHEMA_NONE, {}, [], NONE_REFUSED)
    print("PASS")


if __name__ == "__main__":
    main()
