#!/usr/bin/env python
"""Differential test for property C20: module imports are transparent.

Random schemas are generated directly as a tree of modules (import depth <= 3,
dotted module paths of 1..3 components, resolved relative to the importing
file).  Each tree is written to disk, parsed through ``fcp.parser.get_fcp`` and
compared with the parse of the single-file schema obtained by textually
inlining every ``mod`` statement at the place it stands.

Errors (missing file, stray character, truncated file, unknown type, bad
parameter, wrong version) are then injected in a random module and the whole
chain of error messages is compared with the chain predicted from the import
path, which in particular has to name the module / the missing file.

The code under test is found through PYTHONPATH; FCP_ROOT (default
/tmp/twin-C20) is only used to locate the example schemas of the repository.
"""

import os
import random
import shutil
import sys
import tempfile
from pathlib import Path

from fcp.parser import get_fcp, get_fcp_from_string
from fcp.error import Logger
from fcp.specs.v2 import FcpV2
from fcp.verifier import make_general_verifier

FCP_ROOT = Path(os.environ.get("FCP_ROOT", "/tmp/twin-C20"))

FAILURES = []
COVER = {}


def check(cond, what):
    if not cond:
        FAILURES.append(what)
        print("FAIL:", what)


# --------------------------------------------------------------------------
# schema generator
# --------------------------------------------------------------------------


class Mod:
    def __init__(self, parts):
        self.parts = parts  # dotted path, relative to the importer
        self.items = []  # ("decl", text) | ("mod", Mod)
        self.version = '"3"'
        self.tail = ""  # garbage appended at the end of the file

    @property
    def basename(self):
        return self.parts[-1] + ".fcp"


class Gen:
    def __init__(self, rng):
        self.rng = rng
        self.n = 0

    def fresh(self, prefix):
        self.n += 1
        return f"{prefix}{self.n}"

    def value(self, depth=0):
        r = self.rng
        k = r.randrange(5 if depth < 2 else 4)
        if k == 0:
            return str(r.choice([0, 1, -1, 7, 255, 2**31, -(2**15), 1234567]))
        if k == 1:
            return r.choice(["0.5", "-2.25", "1e3", "3.0"])
        if k == 2:
            return '"' + r.choice(["", "x", "a b", "km/h", "mod x;"]) + '"'
        if k == 3:
            return r.choice(["ecu", "true", "little", "Svc", "_x1"])
        return "[" + ", ".join(self.value(depth + 1) for _ in range(r.randint(1, 3))) + "]"

    def type(self, visible, depth=0):
        r = self.rng
        k = r.randrange(9 if depth < 2 else 6)
        if k == 0:
            return "u" + str(r.choice([1, 7, 8, 9, 16, 31, 32, 33, 63, 64]))
        if k == 1:
            return "i" + str(r.choice([2, 8, 15, 16, 32, 64]))
        if k == 2:
            return r.choice(["f32", "f64"])
        if k == 3:
            return "str"
        if k in (4, 5):
            return r.choice(visible) if visible else "u8"
        if k == 6:
            return f"[{self.type(visible, depth + 1)}, {r.randint(1, 9)}]"
        if k == 7:
            return f"[{self.type(visible, depth + 1)}]"
        return f"Optional[{self.type(visible, depth + 1)}]"

    def struct(self, visible):
        r = self.rng
        name = self.fresh("S")
        lines = []
        for i in range(r.randint(1, 4)):
            t = self.type(visible)
            params = ""
            if r.random() < 0.3:
                params += " | range(%s, %s)" % (r.choice(["0.0", "-1.5"]), r.choice(["10.0", "2.5"]))
            if r.random() < 0.3:
                params += ' | unit("%s")' % r.choice(["C", "m/s", ""])
            sep = r.choice([" @", "@ ", " @ "])
            lines.append(f"    f{i}{sep}{i}: {t}{params},")
        text = "struct %s {\n%s\n}\n" % (name, "\n".join(lines))
        if r.random() < 0.2:
            text = "/* block\n comment mod nope; */\n" + text
        return name, text

    def enum(self):
        r = self.rng
        name = self.fresh("E")
        fields = "".join(f"    V{i} = {i * r.randint(1, 3)},\n" for i in range(r.randint(1, 4)))
        return name, "enum %s {\n%s}\n" % (name, fields)

    def impl(self, structs):
        r = self.rng
        target = r.choice(structs) if structs and r.random() < 0.8 else "Elsewhere"
        head = f"impl {r.choice(['can', 'uart', 'default'])} for {target}"
        if r.random() < 0.5:
            head += " as " + self.fresh("impl")
        body = ""
        for _ in range(r.randint(1, 3)):
            if r.random() < 0.3:
                inner = "".join(
                    f"        {self.fresh('k')}: {self.value()},\n" for _ in range(r.randint(1, 2))
                )
                body += "    signal %s {\n%s    },\n" % (self.fresh("sig"), inner)
            else:
                body += f"    {self.fresh('k')}: {self.value()},\n"
        return head + " {\n" + body + "}\n"

    def service(self, structs):
        r = self.rng
        name = self.fresh("Svc")
        methods = ""
        for i in range(r.randint(1, 3)):
            a = r.choice(structs) if structs else "Nowhere"
            b = r.choice(structs) if structs else "Nowhere"
            methods += f"    method {self.fresh('M')}({a}) @{i} returns {b},\n"
        return "service %s @%d {\n%s}\n" % (name, r.randint(0, 300), methods)

    def device(self):
        r = self.rng
        body = "".join(f"    {self.fresh('k')}: {self.value()},\n" for _ in range(r.randint(1, 3)))
        return "device %s {\n%s}\n" % (self.fresh("dev"), body)

    def module(self, parts, depth, max_depth):
        """Returns (Mod, names of the types it makes visible to its importer)."""
        r = self.rng
        mod = Mod(parts)
        types, structs = [], []
        n_items = r.randint(0, 6) if depth else r.randint(3, 8)
        for _ in range(n_items):
            k = r.random()
            if k < 0.28 and depth < max_depth:
                sub_parts = [self.fresh(r.choice(["m", "mod_", "dir"])) for _ in range(r.randint(1, 3))]
                if r.random() < 0.15 and len(sub_parts) > 1:
                    # same base name as another module, in another directory
                    sub_parts[-1] = "shared"
                sub, sub_types = self.module(sub_parts, depth + 1, max_depth)
                mod.items.append(("mod", sub))
                types += sub_types
                structs += [t for t in sub_types if t.startswith("S")]
            elif k < 0.55:
                name, text = self.struct(types)
                mod.items.append(("decl", text))
                types.append(name)
                structs.append(name)
            elif k < 0.7:
                name, text = self.enum()
                mod.items.append(("decl", text))
                types.append(name)
            elif k < 0.82:
                mod.items.append(("decl", self.impl(structs)))
            elif k < 0.92:
                mod.items.append(("decl", self.service(structs)))
            else:
                mod.items.append(("decl", self.device()))
        return mod, types


def mod_source(mod):
    r = [f"version: {mod.version}\n"]
    for kind, item in mod.items:
        if kind == "decl":
            r.append(item)
        else:
            r.append("mod " + ".".join(item.parts) + ";\n")
    return "\n".join(r) + mod.tail


def flat_source(mod, top=True):
    r = ['version: "3"\n'] if top else []
    for kind, item in mod.items:
        r.append(item if kind == "decl" else flat_source(item, top=False))
    return "\n".join(r)


def write_tree(mod, directory, filename, skip=None):
    """Writes mod as directory/filename and its imports next to it."""
    if mod is not skip:
        directory.mkdir(parents=True, exist_ok=True)
        (directory / filename).write_text(mod_source(mod))
    for kind, item in mod.items:
        if kind == "mod":
            sub_dir = directory.joinpath(*item.parts[:-1])
            if item is skip:
                sub_dir.mkdir(parents=True, exist_ok=True)
            write_tree(item, sub_dir, item.basename, skip)


def all_modules(mod, chain=()):
    """Yields (module, chain of importers from the root)."""
    yield mod, chain
    for kind, item in mod.items:
        if kind == "mod":
            yield from all_modules(item, chain + (mod,))


# --------------------------------------------------------------------------
# checks
# --------------------------------------------------------------------------


def messages(err):
    return [m for m, _, _ in err.msg]


def parse(path, **kw):
    logger = Logger({}, enable_file_paths=False)
    return get_fcp(path, logger), logger


def same_schema(a, b, what):
    check(a.to_dict() == b.to_dict(), what + ": to_dict differs")
    for cat in ("struct", "enum", "impl", "service", "device", "signal_block", "field", "type"):
        na = [getattr(x, "name", None) or x[1].name for x in a.get(cat).unwrap()]
        nb = [getattr(x, "name", None) or x[1].name for x in b.get(cat).unwrap()]
        check(na == nb, f"{what}: category {cat} differs: {na} != {nb}")
    check(sorted(a.get_protocols()) == sorted(b.get_protocols()), what + ": protocols")
    va = make_general_verifier().verify(a)
    vb = make_general_verifier().verify(b)
    check(va.is_ok() == vb.is_ok(), what + ": verifier verdict differs")
    for s in a.structs:
        check(
            b.get_struct(s.name).is_some() and a.get_struct(s.name).unwrap() is s,
            what + ": get_struct " + s.name,
        )
        check(a.get_enum(s.name).is_nothing(), what + ": get_enum on a struct name")
    for e in a.enums:
        check(b.get_enum(e.name).is_some() and a.get_enum(e.name).unwrap() is e, what + ": get_enum")
        check(a.get_struct(e.name).is_nothing(), what + ": get_struct on an enum name")


def computed_paths(root_dir_as_given, chain_and_target):
    """Path of every non-root module as its importer computes it."""
    paths = []
    base = root_dir_as_given
    real = Path(os.path.realpath(root_dir_as_given))
    for m in chain_and_target[1:]:
        rel = "/".join(m.parts) + ".fcp"
        paths.append(base / rel)
        real = (real / rel).parent
        base = real
    return paths


def expected_tail(names, paths, upto):
    """Messages added while the error travels from module #upto to the root."""
    r = []
    for j in range(upto, 0, -1):
        r.append(f"Failed to parse {names[j]}")
        r.append(f"Failed to import {paths[j - 1]}")
    r.append(f"Failed to parse {names[0]}")
    return r


def error_trial(rng, root, workdir, cwd, main_arg, trial):
    os.chdir(workdir.parent)
    mods = [(m, chain) for m, chain in all_modules(root) if chain]
    if not mods:
        return 0
    target, chain = rng.choice(mods)
    line = chain + (target,)
    names = ["main.fcp"] + [m.basename for m in line[1:]]
    k = len(line) - 1
    kind = rng.choice(["missing", "char", "eof", "type", "param", "version"])
    what = f"trial {trial} error {kind} in {'/'.join(names)}"
    COVER[(kind, k)] = COVER.get((kind, k), 0) + 1

    shutil.rmtree(workdir)
    workdir.mkdir()
    os.chdir(cwd)
    paths = computed_paths(Path(main_arg).parent, line)
    saved = (list(target.items), target.version, target.tail)
    skip = None
    first_node_file = None
    if kind == "missing":
        skip = target
        expect = [f"File not found: {target.basename}"] + expected_tail(names, paths, k - 1)
    elif kind == "char":
        target.tail = "\nstruct Broken {\n  a @0: u8,\n}\n$\n"
        expect = [None] + expected_tail(names, paths, k - 1)
        first_node_file = str(paths[k - 1])
        char_line = (mod_source(target)).split("\n").index("$") + 1
    elif kind == "eof":
        target.tail = "\nstruct Truncated {\n  a @0: u8,"
        expect = [f"Unexpected EOF in {target.basename}"] + expected_tail(names, paths, k - 1)
        first_node_file = "importer"
    elif kind == "type":
        target.items = target.items + [("decl", "struct Bad {\n  a @0: u8,\n  b @1: [Nope, 3],\n}\n")]
        expect = [
            "Type 'Nope' cannot be found.",
            "Error parsing array type",
            "Error parsing type in struct field",
            "Failed to parse field in struct Bad",
        ] + expected_tail(names, paths, k)
        first_node_file = "target"
    elif kind == "param":
        target.items = [("decl", "struct Bad {\n  a @0: u8 | colour(3),\n}\n")] + target.items
        expect = [f"Invalid definition in {target.basename}: 'colour'"] + expected_tail(
            names, paths, k - 1
        )
        first_node_file = "importer"
    else:
        target.version = '"2"'
        expect = ["Expected IDL version 3"] + expected_tail(names, paths, k)
        first_node_file = "target"

    write_tree(root, workdir, "main.fcp", skip)
    target.items, target.version, target.tail = saved

    res, logger = parse(main_arg)
    check(res.is_err(), what + ": expected an error")
    if not res.is_err():
        return 1
    got = messages(res.err())
    if expect[0] is None:
        check(got[0].startswith("Unexpected character '$', expected one of: "), what + ": " + got[0])
        expect[0] = got[0]
    check(got == expect, f"{what}:\n   got      {got}\n   expected {expect}")

    # the error names the module (or the missing file)
    text = repr(res.err())
    node = res.err().msg[0][1]
    named = target.basename in text or (
        node is not None and Path(node.meta.filename).name == target.basename
    )
    check(named, what + ": module not named")
    if first_node_file == "target":
        check(Path(node.meta.filename) == Path(os.path.realpath(paths[k - 1])), what + ": node file")
    elif first_node_file == "importer":
        importer = str(Path(main_arg)) if k == 1 else os.path.realpath(paths[k - 2])
        check(str(node.meta.filename) == str(importer), what + ": importer node file")
        src = Path(importer).read_text().split("\n")[node.meta.line - 1]
        check(src.startswith("mod " + ".".join(target.parts) + ";"), what + ": node line " + src)
    elif first_node_file is not None:
        check(node.meta.filename == first_node_file, what + ": node file (char)")
        check(node.meta.line == char_line and node.meta.column == 1, what + ": char position")
    if kind == "missing":
        check(node is None, what + ": missing file has no node")

    basenames = [m.basename for m, _ in all_modules(root)]
    if len(set(basenames)) == len(basenames):
        rendered = logger.error(res.err())
        check("Error:" in rendered and got[0] in rendered, what + ": rendering")
        if kind in ("type", "char"):
            check({"type": "[Nope, 3]", "char": "| $"}[kind] in rendered, what + ": source excerpt")
    return 1


def fixed_cases(workdir):
    # the example shipped with the repository
    ex = get_fcp(FCP_ROOT / "example" / "example.fcp").unwrap()
    check([s.name for s in ex.structs][0] == "Temperature", "example: imported struct comes first")
    flat = (FCP_ROOT / "example" / "temperature.fcp").read_text() + (
        FCP_ROOT / "example" / "example.fcp"
    ).read_text().replace('version: "3"', "").replace("mod temperature;", "")
    same_schema(ex, get_fcp_from_string(flat).unwrap(), "example")

    # pinned error text of the repository
    logger = Logger({}, enable_file_paths=False)
    bad = FCP_ROOT / "tests" / "schemas" / "error" / "013_missing_file_in_mod.fcp"
    res = get_fcp(bad, logger)
    check(res.is_err(), "013 is an error")
    check(logger.error(res.err()) == bad.with_suffix(".txt").read_text(), "013 text")

    # a module imported twice is merged twice, a module that only holds a
    # preamble contributes nothing
    shutil.rmtree(workdir, ignore_errors=True)
    (workdir / "a" / "b").mkdir(parents=True)
    (workdir / "main.fcp").write_text(
        'version: "3"\nmod empty;\nmod a.b.leaf;\nstruct T {\n x @0: L,\n}\nmod a.b.leaf;\n'
    )
    (workdir / "empty.fcp").write_text('version: "3"\n// nothing\n')
    (workdir / "a" / "b" / "leaf.fcp").write_text(
        'version: "3"\nmod sibling;\nstruct L {\n e @0: Sib,\n}\n'
    )
    (workdir / "a" / "b" / "sibling.fcp").write_text('version: "3"\nenum Sib {\n A = 1,\n}\n')
    twice = get_fcp(workdir / "main.fcp").unwrap()
    check([s.name for s in twice.structs] == ["L", "T", "L"], "twice: structs")
    check([e.name for e in twice.enums] == ["Sib", "Sib"], "twice: enums")
    check([i.name for i in twice.impls] == ["L", "T", "L"], "twice: impls")
    check(make_general_verifier().verify(twice).is_err(), "twice: duplicate types are reported")

    # a type of the importer is not visible inside the imported module
    (workdir / "main.fcp").write_text('version: "3"\nenum Up {\n A = 1,\n}\nmod uses_up;\n')
    (workdir / "uses_up.fcp").write_text('version: "3"\nstruct U {\n x @0: Up,\n}\n')
    res, _ = parse(workdir / "main.fcp")
    check(
        res.is_err()
        and messages(res.err())
        == [
            "Type 'Up' cannot be found.",
            "Error parsing type in struct field",
            "Failed to parse field in struct U",
            "Failed to parse uses_up.fcp",
            f"Failed to import {workdir / 'uses_up.fcp'}",
            "Failed to parse main.fcp",
        ],
        "scoping of imported modules",
    )

    # module paths are relative to the importing file, not to the root
    (workdir / "main.fcp").write_text('version: "3"\nmod a.b.leaf;\n')
    (workdir / "sibling.fcp").write_text('version: "3"\nenum Wrong {\n A = 1,\n}\n')
    got = get_fcp(workdir / "main.fcp").unwrap()
    check([e.name for e in got.enums] == ["Sib"], "relative resolution")

    # lark errors of the root file itself (no importer to blame)
    (workdir / "main.fcp").write_text('version: "3"\nmod a.b.leaf;\n\n  %\n')
    res, logger = parse(workdir / "main.fcp")
    check(res.is_err() and len(res.err().msg) == 1, "root char: one message")
    msg, node, _ = res.err().msg[0]
    check(msg.startswith("Unexpected character '%', expected one of: "), "root char: " + msg)
    check(
        (node.meta.filename, node.meta.line, node.meta.column) == (str(workdir / "main.fcp"), 4, 3),
        "root char: position",
    )
    check("4 |   %" in logger.error(res.err()), "root char: excerpt")
    (workdir / "main.fcp").write_text('version: "3"\nmod a.b.leaf;\nenum X {')
    res, logger = parse(workdir / "main.fcp")
    check(
        res.is_err() and [m[:2] for m in res.err().msg] == [("Unexpected EOF in main.fcp", None)],
        "root eof",
    )
    check(logger.error(res.err()).count("\n") == 1, "root eof: rendering")
    res = get_fcp_from_string('version: "3"\nstruct A {\n a @0: u8,\n')
    check(res.is_err() and messages(res.err()) == ["Unexpected EOF in main.fcp"], "string eof")
    res = get_fcp_from_string('version: "3"\nstruct A {\n a @0: u8,\n}\n}')
    check(res.is_err() and res.err().msg[0][1].meta.filename == "main.fcp", "string char")
    check(res.err().msg[0][1].meta.line == 5, "string char line")
    (workdir / "main.fcp").write_text('version: "3"\nmod a.b.leaf;\n')

    # v2.FcpV2.merge keeps the argument intact and appends in order
    a, b = FcpV2(), get_fcp(workdir / "main.fcp").unwrap()
    before = b.to_dict()
    a.merge(b)
    a.merge(FcpV2())
    a.merge(b)
    check(b.to_dict() == before, "merge leaves its argument alone")
    check([s.name for s in a.structs] == ["L", "L"] and a.structs[0] is b.structs[0], "merge order")
    check(len(a.impls) == 2 and len(a.enums) == 2 and a.services == [] and a.devices == [], "merge all")
    check(a.get_struct("L").unwrap() is a.structs[0], "get_struct returns the first match")
    check(a.get_enum("Sib").unwrap() is a.enums[0], "get_enum returns the first match")
    check(a.get_struct("Sib").is_nothing() and a.get_enum("L").is_nothing(), "lookups are per kind")
    check(FcpV2().get_struct("L").is_nothing() and FcpV2().get_enum("").is_nothing(), "empty lookups")


def main():
    seed = int(os.environ.get("DEMO_SEED", "20"))
    trials = int(os.environ.get("DEMO_TRIALS", "40"))
    rng = random.Random(seed)
    tmp = Path(os.path.realpath(tempfile.mkdtemp(prefix="c20-")))
    old_cwd = os.getcwd()
    n_err = n_mod = 0
    try:
        workdir = tmp / "w"
        fixed_cases(workdir)
        for trial in range(trials):
            gen = Gen(rng)
            root, _ = gen.module(["main"], 0, rng.randint(1, 3))
            n_mod += sum(1 for _ in all_modules(root)) - 1
            shutil.rmtree(workdir, ignore_errors=True)
            write_tree(root, workdir, "main.fcp")
            single = tmp / f"single{trial}.fcp"
            single.write_text(flat_source(root))

            one, _ = parse(single)
            check(one.is_ok(), f"trial {trial}: single file does not parse: {one}")
            if not one.is_ok():
                continue
            mem = get_fcp_from_string(flat_source(root))
            check(mem.is_ok(), f"trial {trial}: in-memory parse")

            # absolute path, relative paths with the schema dir or its parent as cwd
            variants = [
                (tmp, str(workdir / "main.fcp")),
                (workdir, "main.fcp"),
                (workdir, "./main.fcp"),
                (tmp, "w/main.fcp"),
            ]
            for cwd, v in variants:
                os.chdir(cwd)
                split, _ = parse(v)
                check(split.is_ok(), f"trial {trial} [{v}]: split schema does not parse: {split}")
                if split.is_ok():
                    same_schema(split.unwrap(), one.unwrap(), f"trial {trial} [{v}]")
                    same_schema(split.unwrap(), mem.unwrap(), f"trial {trial} [{v}] vs string")
            # parsing the same tree again gives the same answer (no stale state)
            os.chdir(tmp)
            again, _ = parse("w/main.fcp")
            check(again.unwrap().to_dict() == one.unwrap().to_dict(), f"trial {trial}: repeat")

            for cwd, v in variants:
                n_err += error_trial(rng, root, workdir, cwd, v, trial)
            os.chdir(tmp)
    finally:
        os.chdir(old_cwd)
        shutil.rmtree(tmp, ignore_errors=True)

    print("error kind x import depth:", " ".join(f"{a}@{b}={n}" for (a, b), n in sorted(COVER.items())))
    print(f"{trials} schemas, {n_mod} modules, {n_err} injected errors, {len(FAILURES)} failures")
    if FAILURES or n_mod < trials or n_err < trials:
        print("FAIL")
        return 1
    print("PASS")
    return 0


if __name__ == "__main__":
    sys.exit(main())
