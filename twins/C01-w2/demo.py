#!/venv/bin/python
"""Differential test for the Python codec round-trip property (C01).

For many generated schemas (every integer width 1..64 at every bit offset
0..7, f32/f64, enums, strings, fixed arrays, dynamic arrays, optionals and
nested structs, plus seeded random type trees) and many in-range values it
checks that

  * fcp.serde.encode() produces exactly the bytes an independent bit-list
    reference encoder produces,
  * fcp.serde.decode(encode(v)) == v (floats bit-for-bit), and equals what the
    reference decoder returns,
  * error inputs raise the same exception type / message as documented below,
  * repeated and interleaved calls, and calls after the schema object was
    mutated, are not influenced by earlier calls.

Run with PYTHONPATH pointing at the worktree under test, e.g.
  PYTHONPATH=$FCP_ROOT/src /venv/bin/python demo.py
Prints PASS and exits 0 on success.
"""

import math
import os
import random
import struct as pystruct
import sys

FCP_ROOT = os.environ.get("FCP_ROOT", "/tmp/twin3-C01")

from fcp.serde import encode, decode  # noqa: E402
from fcp.parser import get_fcp_from_string  # noqa: E402
from fcp.specs.type import (  # noqa: E402
    ArrayType,
    DynamicArrayType,
    OptionalType,
    StringType,
    StructType,
    EnumType,
    UnsignedType,
    SignedType,
    FloatType,
    DoubleType,
)
from fcp.specs.struct import Struct  # noqa: E402
from fcp.specs.struct_field import StructField  # noqa: E402
from fcp.specs.enum import Enum, Enumeration  # noqa: E402
from fcp.specs.v2 import FcpV2  # noqa: E402

import fcp.serde as serde_mod  # noqa: E402

assert os.path.realpath(serde_mod.__file__).startswith(
    os.path.realpath(FCP_ROOT) + os.sep
), "fcp imported from %s, expected below %s (set PYTHONPATH)" % (
    serde_mod.__file__,
    FCP_ROOT,
)

CHECKS = 0


def check(cond, msg):
    global CHECKS
    CHECKS += 1
    if not cond:
        print("FAIL:", msg)
        sys.exit(1)


# --------------------------------------------------------------------------
# Independent reference codec: a plain list of bits, LSB first.
# --------------------------------------------------------------------------


def _enum_bits(fcp, name):
    enum = [e for e in fcp.enums if e.name == name][0]
    m = max(e.value for e in enum.enumeration)
    return 1 if m in (0, 1) else math.floor(math.log2(m) + 1)


def _struct_fields(fcp, name):
    st = [s for s in fcp.structs if s.name == name][0]
    return sorted(st.fields, key=lambda f: f.field_id)


def ref_bits(fcp, ty, value, out):
    def word(v, n):
        for i in range(n):
            out.append((v >> i) & 1)

    if isinstance(ty, (UnsignedType, SignedType)):
        word(value, int(ty.name[1:]))
    elif isinstance(ty, FloatType):
        for b in pystruct.pack("f", value):
            word(b, 8)
    elif isinstance(ty, DoubleType):
        for b in pystruct.pack("d", value):
            word(b, 8)
    elif isinstance(ty, StringType):
        word(len(value), 32)
        for c in value:
            word(ord(c), 8)
    elif isinstance(ty, EnumType):
        word(value, _enum_bits(fcp, ty.name))
    elif isinstance(ty, StructType):
        for f in _struct_fields(fcp, ty.name):
            ref_bits(fcp, f.type, value[f.name], out)
    elif isinstance(ty, ArrayType):
        for i in range(ty.size):
            ref_bits(fcp, ty.underlying_type, value[i], out)
    elif isinstance(ty, DynamicArrayType):
        word(len(value), 32)
        for x in value:
            ref_bits(fcp, ty.underlying_type, x, out)
    elif isinstance(ty, OptionalType):
        word(0 if value is None else 1, 8)
        if value is not None:
            ref_bits(fcp, ty.underlying_type, value, out)
    else:
        raise AssertionError(ty)


def ref_encode(fcp, name, value):
    bits = []
    ref_bits(fcp, StructType(name), value, bits)
    out = bytearray((len(bits) + 7) // 8)
    for k, b in enumerate(bits):
        out[k >> 3] |= b << (k & 7)
    return out


class _Reader:
    def __init__(self, data):
        self.bits = [(byte >> i) & 1 for byte in data for i in range(8)]
        self.pos = 0

    def word(self, n):
        if n > 0 and self.pos + n > len(self.bits):
            raise ValueError("buffer overrrun")
        v = 0
        for i in range(n):
            v |= self.bits[self.pos + i] << i
        self.pos += n
        return v


def ref_value(fcp, ty, rd):
    if isinstance(ty, UnsignedType):
        return rd.word(int(ty.name[1:]))
    elif isinstance(ty, SignedType):
        n = int(ty.name[1:])
        w = rd.word(n)
        # the code base maps the bit pattern 1000..0 to +2^(n-1) (pinned by
        # tests/test_serde.py::test_roundtrip_decoding_8_byte_types)
        return w - (1 << n) if w > (1 << n) // 2 else w
    elif isinstance(ty, FloatType):
        return pystruct.unpack("f", bytes(rd.word(8) for _ in range(4)))[0]
    elif isinstance(ty, DoubleType):
        return pystruct.unpack("d", bytes(rd.word(8) for _ in range(8)))[0]
    elif isinstance(ty, StringType):
        n = rd.word(32)
        return bytes(rd.word(8) for _ in range(n)).decode("ascii")
    elif isinstance(ty, EnumType):
        return rd.word(_enum_bits(fcp, ty.name))
    elif isinstance(ty, StructType):
        return {
            f.name: ref_value(fcp, f.type, rd) for f in _struct_fields(fcp, ty.name)
        }
    elif isinstance(ty, ArrayType):
        return [ref_value(fcp, ty.underlying_type, rd) for _ in range(ty.size)]
    elif isinstance(ty, DynamicArrayType):
        n = rd.word(32)
        return [ref_value(fcp, ty.underlying_type, rd) for _ in range(n)]
    elif isinstance(ty, OptionalType):
        if rd.word(8) != 0:
            return ref_value(fcp, ty.underlying_type, rd)
        return None
    raise AssertionError(ty)


def ref_decode(fcp, name, data):
    return ref_value(fcp, StructType(name), _Reader(data))


def same(a, b):
    """Deep equality, floats bit-for-bit, no int/float/bool confusion."""
    if type(a) is not type(b):
        return False
    if isinstance(a, float):
        return pystruct.pack("d", a) == pystruct.pack("d", b)
    if isinstance(a, dict):
        return list(a.keys()) == list(b.keys()) and all(
            same(a[k], b[k]) for k in a
        )
    if isinstance(a, list):
        return len(a) == len(b) and all(same(x, y) for x, y in zip(a, b))
    return a == b


def has_signed_min(fcp, ty, value):
    """True when value contains -2^(N-1) in an iN slot (known pinned quirk)."""
    if isinstance(ty, SignedType):
        n = int(ty.name[1:])
        return n > 0 and value == -(1 << (n - 1))
    if isinstance(ty, StructType):
        return any(
            has_signed_min(fcp, f.type, value[f.name])
            for f in _struct_fields(fcp, ty.name)
        )
    if isinstance(ty, (ArrayType, DynamicArrayType)):
        return any(has_signed_min(fcp, ty.underlying_type, v) for v in value)
    if isinstance(ty, OptionalType):
        return value is not None and has_signed_min(fcp, ty.underlying_type, value)
    return False


def roundtrip(fcp, name, value, what):
    enc = encode(fcp, name, value)
    check(type(enc) is bytearray, "%s: encode returned %r" % (what, type(enc)))
    exp = ref_encode(fcp, name, value)
    check(enc == exp, "%s: bytes differ %s != %s" % (what, enc.hex(), exp.hex()))
    dec = decode(fcp, name, enc)
    ref = ref_decode(fcp, name, exp)
    check(same(dec, ref), "%s: decode %r != reference %r" % (what, dec, ref))
    if not has_signed_min(fcp, StructType(name), value):
        check(same(dec, value), "%s: decode(encode(v)) %r != %r" % (what, dec, value))
    # decoding also accepts bytes and is repeatable
    check(same(decode(fcp, name, bytes(enc)), dec), what + ": bytes input")
    return enc


def parse(src):
    res = get_fcp_from_string(src)
    check(res.is_ok(), "schema rejected: %r\n%s" % (res, src))
    return res.unwrap()


# --------------------------------------------------------------------------
# 1. every width 1..64 at every bit offset 0..7
# --------------------------------------------------------------------------


def f32(x):
    return pystruct.unpack("f", pystruct.pack("f", x))[0]


def test_widths():
    lines = ['version: "3"']
    for n in range(1, 65):
        for k in range(8):
            pad = "pad @0: u%d, " % k if k else ""
            lines.append(
                "struct W%d_%d { %sa @1: u%d, b @2: i%d, t @3: u3, c @4: i%d, }"
                % (n, k, pad, n, n, n)
            )
    fcp = parse("\n".join(lines))
    for n in range(1, 65):
        uvals = sorted({0, 1, (1 << n) - 1, (1 << n) >> 1, ((1 << n) - 1) // 3})
        svals = sorted(
            {0, -1 if n > 1 else 0, (1 << (n - 1)) - 1, -(1 << (n - 1)) + 1, -(1 << (n - 1))}
        )
        if n == 1:
            svals = [0]  # i1: only 0 round-trips today (1000..0 quirk), checked below
        for k in range(8):
            for i, u in enumerate(uvals):
                s = svals[i % len(svals)]
                s2 = svals[(i + 2) % len(svals)]
                v = {"a": u, "b": s, "t": (5 + i) & 7, "c": s2}
                if k:
                    v = dict(pad=(0x55 >> (8 - k)) & ((1 << k) - 1), **v)
                    v = {kk: v[kk] for kk in ("pad", "a", "b", "t", "c")}
                roundtrip(fcp, "W%d_%d" % (n, k), v, "W%d_%d %r" % (n, k, v))
    # the signed minimum itself: same bytes and same decode as the reference
    for n in (1, 2, 7, 8, 9, 31, 32, 33, 63, 64):
        v = {"a": 0, "b": -(1 << (n - 1)), "t": 7, "c": -(1 << (n - 1))}
        roundtrip(fcp, "W%d_0" % n, v, "signed-min W%d" % n)


# --------------------------------------------------------------------------
# 2. hand written nested schema
# --------------------------------------------------------------------------

NESTED = """version: "3"
enum E1 { A = 0, }
enum E2 { A = 0, B = 1, }
enum E3 { A = 0, B = 1, C = 2, D = 5, }
enum E9 { A = 3, B = 300, }
struct Inner { x @0: u3, y @1: i5, z @2: f32, }
struct Leaf { e @1: E3, s @0: str, }
struct Opt { o @0: Optional[u7], p @1: Optional[Inner], q @2: Optional[[i9, 3]], }
struct Big {
    bit @0: u1,
    e1 @1: E1,
    e2 @2: E2,
    e9 @3: E9,
    inner @4: Inner,
    arr @5: [Inner, 2],
    dyn @6: [Leaf],
    d @7: f64,
    name @8: str,
    opt @9: Opt,
    dd @10: [[u13]],
    od @11: Optional[[Optional[str]]],
    mat @12: [[i3, 2], 3],
    tail @13: u64,
}
struct Reordered { c @2: u5, a @0: u3, b @1: str, }
struct Empty0 { a @0: [u8, 0], b @1: u1, }
"""


def inner(x, y, z):
    return {"x": x, "y": y, "z": f32(z)}


def test_nested():
    fcp = parse(NESTED)
    long_s = "".join(chr(32 + (i * 7) % 95) for i in range(700)) + "\x00\x7f"
    big = {
        "bit": 1,
        "e1": 0,
        "e2": 1,
        "e9": 300,
        "inner": inner(7, -16, 1.5),
        "arr": [inner(0, 15, -0.0), inner(5, -1, float("inf"))],
        "dyn": [{"e": 5, "s": ""}, {"e": 2, "s": "hello"}, {"e": 0, "s": long_s}],
        "d": 5e-324,
        "name": "fcp",
        "opt": {"o": 127, "p": inner(1, 1, 3.25), "q": [-256, 255, -1]},
        "dd": [[], [8191], [0, 1, 2, 4096]],
        "od": [None, "", "x", None, "yz"],
        "mat": [[-3, 3], [0, -1], [2, -2]],
        "tail": 2**64 - 1,
    }
    roundtrip(fcp, "Big", big, "Big")
    big2 = dict(big)
    big2.update(
        bit=0,
        dyn=[],
        d=-1.7976931348623157e308,
        name="",
        opt={"o": None, "p": None, "q": None},
        dd=[],
        od=None,
        tail=0,
    )
    roundtrip(fcp, "Big", big2, "Big2")
    big3 = dict(big2, od=[], dd=[[]] * 9, name=long_s * 3, dyn=[{"e": 1, "s": "a"}] * 40)
    roundtrip(fcp, "Big", big3, "Big3")
    # NaN payloads survive bit for bit (f64); f32 quiet NaN
    nan = pystruct.unpack("d", bytes([1, 0, 0, 0, 0, 0, 0xF8, 0x7F]))[0]
    enc = encode(fcp, "Big", dict(big2, d=nan))
    dec = decode(fcp, "Big", enc)
    check(pystruct.pack("d", dec["d"]) == pystruct.pack("d", nan), "NaN payload")
    # declaration order differs from field id order
    enc = roundtrip(fcp, "Reordered", {"a": 5, "b": "ok", "c": 21}, "Reordered")
    check(list(decode(fcp, "Reordered", enc).keys()) == ["a", "b", "c"], "key order")
    # value dict order / extra keys do not matter
    enc2 = encode(fcp, "Reordered", {"c": 21, "zzz": 1, "b": "ok", "a": 5})
    check(enc2 == enc, "extra keys / key order")
    roundtrip(fcp, "Empty0", {"a": [], "b": 1}, "Empty0")
    roundtrip(fcp, "Inner", inner(3, -7, 0.1), "Inner")
    for o in (None, 0, 1, 127):
        for p in (None, inner(2, 2, 2.0)):
            for q in (None, [0, -255, 255]):
                roundtrip(fcp, "Opt", {"o": o, "p": p, "q": q}, "Opt")
    return fcp


# --------------------------------------------------------------------------
# 3. seeded random type trees and values
# --------------------------------------------------------------------------


def random_schema(rng, idx):
    enums = []
    structs = []
    lines = ['version: "3"']

    def gen_type(depth):
        kinds = ["u", "i", "u", "i", "f32", "f64", "str"]
        if enums:
            kinds.append("enum")
        if structs:
            kinds += ["struct"]
        if depth < 3:
            kinds += ["arr", "dyn", "opt", "arr", "dyn", "opt"]
        k = rng.choice(kinds)
        if k in "ui":
            return "%s%d" % (k, rng.randint(1, 64))
        if k in ("f32", "f64", "str"):
            return k
        if k == "enum":
            return rng.choice(enums)[0]
        if k == "struct":
            return rng.choice(structs)
        if k == "arr":
            return "[%s, %d]" % (gen_type(depth + 1), rng.randint(0, 4))
        if k == "dyn":
            return "[%s]" % gen_type(depth + 1)
        return "Optional[%s]" % gen_type(depth + 1)

    for e in range(rng.randint(1, 3)):
        name = "En%d_%d" % (idx, e)
        top = rng.choice([0, 1, 2, 3, 4, 7, 8, 255, 256, 1000, 65535, 65536])
        vals = sorted({top, rng.randint(0, top), 0 if rng.random() < 0.5 else top})
        enums.append((name, vals))
        lines.append(
            "enum %s { %s }" % (name, " ".join("V%d = %d," % (v, v) for v in vals))
        )
    for s in range(rng.randint(2, 5)):
        name = "St%d_%d" % (idx, s)
        ids = list(range(rng.randint(1, 6)))
        rng.shuffle(ids)
        fields = " ".join("f%d @%d: %s," % (i, i, gen_type(0)) for i in ids)
        lines.append("struct %s { %s }" % (name, fields))
        structs.append(name)
    return "\n".join(lines), structs


def random_value(rng, fcp, ty):
    if isinstance(ty, UnsignedType):
        n = int(ty.name[1:])
        return rng.choice([0, (1 << n) - 1, rng.getrandbits(n), 1 << (n - 1)])
    if isinstance(ty, SignedType):
        n = int(ty.name[1:])
        if n == 1:
            return 0
        lo, hi = -(1 << (n - 1)) + 1, (1 << (n - 1)) - 1
        return rng.choice([lo, hi, -1, 0, rng.randint(lo, hi)])
    if isinstance(ty, FloatType):
        return f32(rng.choice([0.0, -0.0, 1.0, rng.uniform(-1e30, 1e30), float("-inf")]))
    if isinstance(ty, DoubleType):
        return rng.choice([0.0, -0.0, 1e-310, rng.uniform(-1e300, 1e300), float("inf")])
    if isinstance(ty, StringType):
        n = rng.choice([0, 1, 2, 9, 40])
        return "".join(chr(rng.randint(0, 127)) for _ in range(n))
    if isinstance(ty, EnumType):
        enum = [e for e in fcp.enums if e.name == ty.name][0]
        return rng.choice([e.value for e in enum.enumeration])
    if isinstance(ty, StructType):
        # dict built in declaration order, decode returns field-id order
        return {
            f.name: random_value(rng, fcp, f.type)
            for f in _struct_fields(fcp, ty.name)
        }
    if isinstance(ty, ArrayType):
        return [random_value(rng, fcp, ty.underlying_type) for _ in range(ty.size)]
    if isinstance(ty, DynamicArrayType):
        n = rng.choice([0, 0, 1, 2, 5])
        return [random_value(rng, fcp, ty.underlying_type) for _ in range(n)]
    if isinstance(ty, OptionalType):
        if rng.random() < 0.4:
            return None
        return random_value(rng, fcp, ty.underlying_type)
    raise AssertionError(ty)


def test_random(n_schemas=60, n_values=12):
    rng = random.Random(20240101)
    for idx in range(n_schemas):
        src, structs = random_schema(rng, idx)
        fcp = parse(src)
        for name in structs:
            for _ in range(n_values):
                v = random_value(rng, fcp, StructType(name))
                roundtrip(fcp, name, v, "random %s\n%s\n%r" % (name, src, v))


# --------------------------------------------------------------------------
# 4. error inputs: same exception type and text as the code base has today
# --------------------------------------------------------------------------


def raises(fn, exc_type, text, what):
    try:
        fn()
    except BaseException as e:  # noqa: B902
        check(type(e) is exc_type, "%s: raised %r, expected %s" % (what, e, exc_type))
        if text is not None:
            check(text in str(e), "%s: message %r lacks %r" % (what, str(e), text))
        return
    check(False, "%s: did not raise" % what)


def test_errors(fcp):
    ok_inner = inner(1, 1, 1.0)
    raises(lambda: encode(fcp, "Inner", {"x": 1, "y": 1}), KeyError, "z", "missing key")
    raises(
        lambda: encode(fcp, "Inner", {"x": 1.5, "y": "q"}),
        TypeError,
        "unsupported operand type(s) for >>: 'float' and 'int'",
        "float in u3 reported before the later bad/missing fields",
    )
    raises(
        lambda: encode(fcp, "Inner", {"x": 1, "y": None, "z": 1.0}),
        TypeError,
        "unsupported operand type(s) for >>: 'NoneType' and 'int'",
        "None in i5",
    )
    raises(lambda: encode(fcp, "Inner", dict(ok_inner, z="s")), pystruct.error, None, "str in f32")
    raises(lambda: encode(fcp, "Empty0", {"a": 3, "b": 1.0}), TypeError, "'float'", "u1 float after empty array of int")
    raises(lambda: encode(fcp, "Opt", {"o": 1, "p": {"x": 1}, "q": None}), KeyError, "y", "nested missing key")
    raises(lambda: encode(fcp, "Opt", {"o": 1, "p": None, "q": [1, 2]}), IndexError, None, "short fixed array")
    raises(lambda: encode(fcp, "Opt", {"o": 1, "p": None, "q": 5}), TypeError, "subscriptable", "int as array")
    raises(lambda: encode(fcp, "Leaf", {"e": 1, "s": 5}), TypeError, "len()", "int as str")
    raises(lambda: encode(fcp, "Leaf", {"e": 1, "s": [1, 2]}), TypeError, "ord()", "list as str")
    raises(lambda: encode(fcp, "Leaf", {"e": "A", "s": ""}), TypeError, "'str' and 'int'", "enum name as value")
    raises(lambda: encode(fcp, "Big", {"bit": 1, "e1": 0, "e2": 0, "e9": 3, "inner": None}), TypeError, "subscriptable", "None as struct")
    for fn, what in (
        (lambda: encode(fcp, "Nope", {}), "unknown struct (encode)"),
        (lambda: decode(fcp, "Nope", bytearray(4)), "unknown struct (decode)"),
    ):
        try:
            fn()
            check(False, what + ": did not raise")
        except Exception as e:  # noqa: B902
            check(type(e).__name__ == "UnwrapError", "%s: %r" % (what, e))
    # too large values are truncated to the field width, not rejected
    check(encode(fcp, "Inner", inner(15, 33, 0.0)) == encode(fcp, "Inner", inner(7, 1, 0.0)), "truncation")
    # non 7-bit text: encodes (low 8 bits), decoding reports it
    enc = encode(fcp, "Leaf", {"e": 1, "s": "\xe9"})
    check(enc == bytearray([1, 0, 0, 0, 0xE9, 1]), "latin-1 char bytes %s" % enc.hex())
    raises(lambda: decode(fcp, "Leaf", enc), UnicodeDecodeError, None, "non ascii decode")
    check(encode(fcp, "Leaf", {"e": 1, "s": "Ł"}) == bytearray([1, 0, 0, 0, 0x41, 1]), "wide char truncation")
    # truncated input, at every cut position
    full = encode(fcp, "Big", {
        "bit": 1, "e1": 0, "e2": 1, "e9": 3, "inner": ok_inner, "arr": [ok_inner, ok_inner],
        "dyn": [{"e": 5, "s": "abc"}], "d": 2.5, "name": "nm", "opt": {"o": 1, "p": ok_inner, "q": [1, 2, 3]},
        "dd": [[1], [2, 3]], "od": ["a", None], "mat": [[0, 1], [1, 0], [-1, -1]], "tail": 1 << 63,
    })
    ref = decode(fcp, "Big", full)
    for cut in range(len(full)):
        raises(lambda: decode(fcp, "Big", full[:cut]), ValueError, "buffer overrrun", "cut at %d" % cut)
    # trailing garbage is ignored
    check(same(decode(fcp, "Big", full + bytearray([0xFF] * 5)), ref), "trailing bytes")
    # absurd length prefixes run into the end of the buffer
    raises(lambda: decode(fcp, "Leaf", bytearray([0xFF, 0xFF, 0xFF, 0xFF, 65, 66])), ValueError, "buffer overrrun", "huge str length")
    raises(lambda: decode(fcp, "Leaf", bytearray([3, 0, 0, 0, 65, 66])), ValueError, "buffer overrrun", "str one byte short")
    raises(lambda: decode(fcp, "Leaf", bytearray([2, 0, 0, 0, 65, 66])), ValueError, "buffer overrrun", "enum missing after str")
    check(decode(fcp, "Leaf", bytearray([2, 0, 0, 0, 65, 66, 0xFD])) == {"s": "AB", "e": 5}, "3 bit enum from 0xFD")
    check(decode(fcp, "Empty0", bytearray([3])) == {"a": [], "b": 1}, "Empty0 decode")
    # a list of ints is taken byte-wise, each reduced to its low 8 bits
    check(decode(fcp, "Leaf", [1, 0, 0, 0, 0x141, -3]) == {"s": "A", "e": 5}, "list input")
    check(type(decode(fcp, "Leaf", [0, 0, 0, 0, True])["e"]) is int, "plain int results")
    raises(lambda: decode(fcp, "Empty0", bytearray()), ValueError, "buffer overrrun", "empty input")
    raises(lambda: decode(fcp, "Inner", "abcdefgh"), TypeError, "for >>: 'str' and 'int'", "str as bytes input")
    # optional flag: any non-zero byte means present
    check(decode(fcp, "Opt", bytearray([0x80, 0x7F, 0, 0])) == {"o": 127, "p": None, "q": None}, "flag 0x80")


# --------------------------------------------------------------------------
# 5. schemas built programmatically; no state carried between calls
# --------------------------------------------------------------------------


def test_programmatic_and_state():
    def mk(fields, enums=()):
        return FcpV2(
            structs=[Struct("In", [StructField("v", 0, UnsignedType("u4"))]), Struct("S", fields)],
            enums=list(enums),
        )

    e_small = Enum("E", [Enumeration("a", 0), Enumeration("b", 3)])
    e_large = Enum("E", [Enumeration("a", 0), Enumeration("b", 1000)])
    f_a = [
        StructField("k", 1, EnumType("E")),
        StructField("n", 0, UnsignedType("u5")),
        StructField("in_", 2, ArrayType(StructType("In"), 2)),
    ]
    f_b = [
        StructField("n", 0, SignedType("i11")),
        StructField("k", 1, EnumType("E")),
        StructField("in_", 2, ArrayType(StructType("In"), 2)),
    ]
    fa, fb = mk(f_a, [e_small]), mk(f_b, [e_large])
    va = {"n": 17, "k": 3, "in_": [{"v": 9}, {"v": 15}]}
    vb = {"n": -1000, "k": 1000, "in_": [{"v": 1}, {"v": 2}]}
    # same struct / enum names, different layouts, interleaved calls
    seen = []
    for _ in range(3):
        seen.append((bytes(roundtrip(fa, "S", va, "fa")), bytes(roundtrip(fb, "S", vb, "fb"))))
    check(len(set(seen)) == 1, "repeated calls differ")
    check(len(seen[0][0]) == 2 and len(seen[0][1]) == 4, "sizes %r" % (seen[0],))
    # the schema object is mutated between calls: results follow the mutation
    before = bytes(encode(fa, "S", va))
    fa.enums[0].enumeration.append(Enumeration("c", 70000))
    roundtrip(fa, "S", dict(va, k=70000), "grown enum")
    check(len(encode(fa, "S", va)) == 4, "enum width after growth")
    fa.structs[1].fields.insert(0, StructField("first", -5, OptionalType(StringType())))
    v2 = dict({"first": "x"}, **va)
    enc = roundtrip(fa, "S", v2, "new field with lowest id")
    check(enc[:6] == bytearray([1, 1, 0, 0, 0, ord("x")]), "new field first: %s" % enc.hex())
    check(list(decode(fa, "S", enc).keys()) == ["first", "n", "k", "in_"], "order after mutation")
    fa.structs[1].fields.pop(0)
    fa.enums[0].enumeration.pop()
    check(bytes(encode(fa, "S", va)) == before, "mutation undone")
    fa.structs[0].fields[0].type = UnsignedType("u12")
    roundtrip(fa, "S", dict(va, in_=[{"v": 4095}, {"v": 2048}]), "inner struct widened")
    # equal field ids keep declaration order (stable sort); duplicate struct
    # names resolve to the first definition
    dup = FcpV2(
        structs=[
            Struct("D", [StructField("b", 1, UnsignedType("u8")), StructField("a", 1, UnsignedType("u4")), StructField("z", 0, UnsignedType("u4"))]),
            Struct("D", [StructField("other", 0, UnsignedType("u64"))]),
        ]
    )
    enc = encode(dup, "D", {"a": 0xA, "b": 0xBC, "z": 0x5})
    check(enc == bytearray([0xC5, 0xAB]), "stable order / first definition: %s" % enc.hex())
    check(list(decode(dup, "D", enc).items()) == [("z", 5), ("b", 0xBC), ("a", 0xA)], "dup decode")
    # a struct and an enum may share a name; each is looked up in its own space,
    # repeatedly within one message
    share = FcpV2(
        structs=[
            Struct("X", [StructField("v", 0, UnsignedType("u3"))]),
            Struct("Y", [
                StructField("a", 0, ArrayType(StructType("X"), 3)),
                StructField("b", 1, DynamicArrayType(EnumType("X"))),
                StructField("c", 2, OptionalType(StructType("X"))),
                StructField("d", 3, ArrayType(EnumType("X"), 2)),
            ]),
        ],
        enums=[Enum("X", [Enumeration("lo", 0), Enumeration("hi", 511)])],
    )
    vy = {"a": [{"v": 7}, {"v": 0}, {"v": 5}], "b": [511, 0, 256], "c": {"v": 1}, "d": [1, 510]}
    enc = roundtrip(share, "Y", vy, "struct and enum called X")
    check(len(enc) == (9 + 32 + 27 + 8 + 3 + 18 + 7) // 8, "X sizes: %d" % len(enc))
    roundtrip(share, "X", {"v": 6}, "X itself")
    # zero width and wider-than-64 integers built directly
    odd = FcpV2(structs=[Struct("O", [
        StructField("z", 0, UnsignedType("u0")),
        StructField("w", 1, UnsignedType("u70")),
        StructField("s", 2, SignedType("i70")),
        StructField("z2", 3, SignedType("i0")),
    ])])
    v = {"z": 0, "w": (1 << 70) - 3, "s": -(1 << 69) + 1, "z2": 0}
    roundtrip(odd, "O", v, "u0/u70/i70")
    check(len(encode(odd, "O", v)) == 18, "u0 takes no space")
    # a zero width field accepts anything today (no bits are ever looked at)
    check(encode(odd, "O", dict(v, z=1.5, z2=None)) == encode(odd, "O", v), "u0 ignores value")
    # unknown Type subclass object
    class Weird:  # noqa: E306
        def __str__(self):
            return "weird!"
    bad = FcpV2(structs=[Struct("B", [StructField("a", 0, UnsignedType("u8"))])])
    bad.structs[0].fields[0].type = Weird()
    raises(lambda: encode(bad, "B", {"a": 1}), ValueError, "Unmatched type weird!", "unknown type encode")
    raises(lambda: decode(bad, "B", bytearray(1)), ValueError, "Unmatched type", "unknown type decode")
    # negative fixed size behaves like an empty array
    neg = FcpV2(structs=[Struct("N", [StructField("a", 0, ArrayType(UnsignedType("u8"), -2)), StructField("b", 1, UnsignedType("u8"))])])
    check(encode(neg, "N", {"a": [1, 2], "b": 7}) == bytearray([7]), "negative size")
    check(decode(neg, "N", bytearray([7])) == {"a": [], "b": 7}, "negative size decode")
    # enum referenced but not defined
    noenum = FcpV2(structs=[Struct("M", [StructField("a", 0, EnumType("Missing"))])])
    for fn in (lambda: encode(noenum, "M", {"a": 1}), lambda: decode(noenum, "M", bytearray(1))):
        try:
            fn()
            check(False, "missing enum did not raise")
        except Exception as e:  # noqa: B902
            check(type(e).__name__ == "UnwrapError", "missing enum: %r" % (e,))
    # enum whose largest value is negative: log2 domain error, every time
    negenum = FcpV2(structs=[Struct("M", [StructField("a", 0, EnumType("G")), StructField("b", 1, EnumType("G"))])],
                    enums=[Enum("G", [Enumeration("a", -4)])])
    for _ in range(2):
        raises(lambda: encode(negenum, "M", {"a": 1, "b": 1}), ValueError, "math domain error", "negative enum")
        raises(lambda: decode(negenum, "M", bytearray(2)), ValueError, "math domain error", "negative enum decode")


def test_deep():
    """39 levels of alternating containers around an unaligned i5."""
    ty, depth = "i5", 39
    for lvl in range(depth):
        size = 2 if lvl in (0, 18, 36) else 1
        ty = ("[%%s, %d]" % size, "[%s]", "Optional[%s]")[lvl % 3] % ty
    fcp = parse('version: "3"\nstruct Deep { lead @0: u3, d @1: %s, trail @2: u6, }' % ty)
    field_type = _struct_fields(fcp, "Deep")[1].type

    def build(t, leaf, width):
        if isinstance(t, SignedType):
            return next(leaf)
        if isinstance(t, ArrayType):
            return [build(t.underlying_type, leaf, width) for _ in range(t.size)]
        if isinstance(t, DynamicArrayType):
            n = width if next(leaf) % 4 == 0 else 1
            return [build(t.underlying_type, leaf, width) for _ in range(n)]
        return build(t.underlying_type, leaf, width)

    def leaves():
        while True:
            for v in (-15, 15, -1, 0, 7):
                yield v

    for width in (0, 1, 2):
        v = {"lead": 5, "d": build(field_type, leaves(), width), "trail": 33}
        roundtrip(fcp, "Deep", v, "deep width %d" % width)
    roundtrip(fcp, "Deep", {"lead": 5, "d": None, "trail": 33}, "deep None")


def test_buffer():
    """The private bit buffer against a plain list of bits."""
    Buffer = getattr(serde_mod, "_Buffer", None)
    if Buffer is None:
        return
    rng = random.Random(7)
    for _ in range(300):
        buf, bits, words = Buffer(), [], []
        for _ in range(rng.randint(0, 12)):
            n = rng.choice([0, 1, 2, 3, 5, 7, 8, 9, 15, 16, 17, 31, 32, 33, 63, 64, 65, 100])
            w = rng.choice([0, -1, rng.getrandbits(n + 3), -rng.getrandbits(n + 3), (1 << n) - 1])
            buf.push_word(w, n)
            bits += [(w >> i) & 1 for i in range(n)]
            words.append((w & ((1 << n) - 1), n))
            check(buf.bitaddr == len(bits), "bitaddr after push")
        exp = bytearray((len(bits) + 7) // 8)
        for k, b in enumerate(bits):
            exp[k >> 3] |= b << (k & 7)
        check(buf.get_buffer() == exp, "buffer bytes")
        rd = Buffer()
        rd.push_bytes(list(exp))
        rd.bitaddr = 0
        for w, n in words:
            got = rd.read_word(n)
            check(got == w and type(got) is int, "read_word(%d) %r != %r" % (n, got, w))
        check(rd.bitaddr == len(bits), "bitaddr after reads")
        check(rd.read_word(0) == 0 and rd.read_bytes(0) == [], "empty reads at the end")
        left = 8 * len(exp) - len(bits)
        if left:
            check(rd.read_word(left) == 0, "padding bits")
        raises(lambda: rd.read_word(1), ValueError, "buffer overrrun", "read past end")
        raises(lambda: rd.read_bytes(1), ValueError, "buffer overrrun", "read_bytes past end")
        # byte reads at an arbitrary bit offset
        if len(exp) >= 2:
            rd.bitaddr = off = rng.randint(0, 7)
            n = len(exp) - 1 if off else len(exp)
            as_int = int.from_bytes(exp, "little") >> off
            check(rd.read_bytes(n) == [(as_int >> (8 * i)) & 0xFF for i in range(n)], "read_bytes @%d" % off)
            rd.bitaddr = off
            raises(lambda: rd.read_bytes(n + 1), ValueError, "buffer overrrun", "read_bytes one too many")
            rd.bitaddr = off
            raises(lambda: rd.read_bytes(1 << 40), ValueError, "buffer overrrun", "read_bytes 2^40")
    raises(lambda: Buffer().push_word(1.0, 3), TypeError, "for >>: 'float' and 'int'", "push float")
    b = Buffer()
    b.push_word(1.0, 0)
    b.push_word(None, 0)
    check(b.get_buffer() == bytearray() and b.bitaddr == 0, "zero bits of anything")


def main():
    test_buffer()
    test_widths()
    test_deep()
    fcp = test_nested()
    test_random()
    test_errors(fcp)
    test_programmatic_and_state()
    print("checks:", CHECKS)
    print("PASS")


if __name__ == "__main__":
    main()
