#!/venv/bin/python
"""C16 differential demo: the Python decoder detects truncated input.

Run with the worktree on PYTHONPATH, e.g.

    cd /tmp/twin-C16 && PYTHONPATH=/tmp/twin-C16/src /venv/bin/python demo.py

What is checked (against an independent reference decoder that lives in this
file and against a pinned digest of every observed outcome):

  1. round trip of random values for a schema with unaligned widths, enums,
     strings, fixed/dynamic arrays, optionals and nested structs;
  2. EVERY strict prefix (each byte boundary) of every valid encoding raises
     ValueError("buffer overrrun") - never a value;
  3. corrupted u32 length prefixes (n+1 ... 2**32-1) of strings and dynamic
     arrays, byte aligned and at unaligned bit offsets, with no / too little
     data behind them, raise ValueError quickly and without large allocations;
  4. random byte strings and mutated encodings decode to exactly what the
     reference decoder says (same value or same exception type and message);
  5. repeated / interleaved calls give identical answers, trailing bytes are
     ignored, the caller's buffer is not modified;
  6. a few schemas shipped in tests/schemas/syntax (located through FCP_ROOT).
"""

import hashlib
import os
import random
import struct
import sys
import time
import tracemalloc

from fcp.parser import get_fcp, get_fcp_from_string
from fcp.serde import encode, decode
from fcp.specs.type import (
    ArrayType,
    StructType,
    EnumType,
    DynamicArrayType,
    OptionalType,
    StringType,
    UnsignedType,
    SignedType,
    FloatType,
    DoubleType,
)

FCP_ROOT = os.environ.get("FCP_ROOT", "/tmp/twin-C16")

SCHEMA = """version: "3"

enum Mode {
    Off = 0,
    On = 1,
    Auto = 2,
    Fault = 5,
}

enum Flag {
    No = 0,
    Yes = 1,
}

struct Inner {
    a @ 0: u3,
    b @ 1: i5,
    m @ 2: Mode,
}

struct Leaf {
    tag @ 0: u1,
    name @ 1: str,
}

struct Main {
    id @ 0: u8,
    delta @ 1: i13,
    ratio @ 2: f32,
    precise @ 3: f64,
    label @ 4: str,
    fixed @ 5: [u8, 3],
    items @ 6: [Inner],
    maybe @ 7: Optional[Inner],
    grid @ 8: [[u16, 2]],
    note @ 9: Optional[str],
    names @ 10: [str],
    flag @ 11: Flag,
    leaves @ 12: [Leaf, 2],
    tail @ 13: u1,
}

struct Wide {
    big @ 1: u64,
    neg @ 0: i64,
    odd @ 2: u37,
    sodd @ 3: i29,
}

struct Str {
    s @ 0: str,
}

struct OffStr {
    pad @ 0: u3,
    s @ 1: str,
}

struct Dyn {
    xs @ 0: [u8],
}

struct OffDyn {
    pad @ 0: u5,
    xs @ 1: [u16],
}

struct DynInner {
    xs @ 0: [Inner],
}

struct DynStr {
    xs @ 0: [str],
}

struct DynDyn {
    xs @ 0: [[u8]],
}

struct DynGrid {
    xs @ 0: [[u16, 2]],
}

struct OptDyn {
    xs @ 0: Optional[[u32]],
    after @ 1: u2,
}
"""

FAILURES = []
OUTCOMES = hashlib.sha256()
COUNTS = {"roundtrip": 0, "prefix": 0, "corrupt": 0, "fuzz": 0, "repeat": 0}


def fail(msg):
    FAILURES.append(msg)
    if len(FAILURES) <= 20:
        print("FAIL:", msg)


def record(tag, outcome):
    OUTCOMES.update(repr((tag, outcome)).encode())


# --------------------------------------------------------------------------
# independent reference decoder (LSB-first bit stream over the input bytes)
# --------------------------------------------------------------------------


class Overrun(Exception):
    pass


class RefReader:
    def __init__(self, data):
        self.data = bytes(data)
        self.whole = int.from_bytes(self.data, "little")
        self.pos = 0

    def bits(self, n):
        if self.pos + n > 8 * len(self.data):
            raise Overrun()
        v = (self.whole >> self.pos) & ((1 << n) - 1)
        self.pos += n
        return v

    def byte_list(self, n):
        # bounded by the input: stop at the first missing byte
        out = []
        for _ in range(n):
            out.append(self.bits(8))
        return out


def enum_bits(fcp, name):
    enum = fcp.get_enum(name).unwrap()
    m = max([e.value for e in enum.enumeration], default=0)
    return 1 if m in (0, 1) else m.bit_length()


def ref_decode_type(r, fcp, t):
    if isinstance(t, UnsignedType):
        return r.bits(int(t.name[1:]))
    if isinstance(t, SignedType):
        n = int(t.name[1:])
        w = r.bits(n)
        # upstream quirk kept on purpose: exactly 2**(n-1) stays positive
        return w - (1 << n) if w > (1 << (n - 1)) else w
    if isinstance(t, FloatType):
        return float(struct.unpack("f", bytes(r.byte_list(4)))[0])
    if isinstance(t, DoubleType):
        return float(struct.unpack("d", bytes(r.byte_list(8)))[0])
    if isinstance(t, StringType):
        n = r.bits(32)
        return bytearray(r.byte_list(n)).decode("ascii")
    if isinstance(t, EnumType):
        return r.bits(enum_bits(fcp, t.name))
    if isinstance(t, StructType):
        return ref_decode_struct(r, fcp, t.name)
    if isinstance(t, ArrayType):
        return [ref_decode_type(r, fcp, t.underlying_type) for _ in range(t.size)]
    if isinstance(t, DynamicArrayType):
        n = r.bits(32)
        out = []
        for _ in range(n):
            out.append(ref_decode_type(r, fcp, t.underlying_type))
        return out
    if isinstance(t, OptionalType):
        if r.bits(8) != 0:
            return ref_decode_type(r, fcp, t.underlying_type)
        return None
    raise AssertionError("unknown type")


def ref_decode_struct(r, fcp, name):
    s = fcp.get_struct(name).unwrap()
    out = {}
    for f in sorted(s.fields, key=lambda f: f.field_id):
        out[f.name] = ref_decode_type(r, fcp, f.type)
    return out


def ref_outcome(fcp, name, data):
    try:
        return ("ok", ref_decode_struct(RefReader(data), fcp, name))
    except Overrun:
        return ("err", "ValueError", "buffer overrrun")
    except UnicodeDecodeError as e:
        return ("err", "UnicodeDecodeError", str(e))


def real_outcome(fcp, name, data):
    try:
        return ("ok", decode(fcp, name, data))
    except Exception as e:  # noqa: BLE001 - we compare the exact class below
        return ("err", type(e).__name__, str(e))


def same(a, b):
    # NaN-safe structural comparison (fuzzed floats may be NaN)
    return repr(a) == repr(b)


# --------------------------------------------------------------------------
# independent bit writer used to craft corrupted inputs
# --------------------------------------------------------------------------


class BitWriter:
    def __init__(self):
        self.value = 0
        self.nbits = 0

    def put(self, v, n):
        self.value |= (v & ((1 << n) - 1)) << self.nbits
        self.nbits += n
        return self

    def put_bytes(self, bs):
        for b in bs:
            self.put(b, 8)
        return self

    def done(self):
        return bytearray(self.value.to_bytes((self.nbits + 7) // 8, "little"))


# --------------------------------------------------------------------------
# random values
# --------------------------------------------------------------------------

F32 = [0.0, 1.0, -1.0, 0.5, 1.5, -2.25, 1024.0, 2.0**100, -(2.0**-100), 65504.0]
F64 = [0.0, 1.0, -1.0, 2.25, 1e300, -1e-300, 3.141592653589793, 1 / 3]
ASCII = "abcXYZ019 _-~!\x00\x7f\n"


def rand_value(rng, fcp, t, depth=0):
    if isinstance(t, UnsignedType):
        n = int(t.name[1:])
        return rng.choice([0, 1, (1 << n) - 1, rng.getrandbits(n)])
    if isinstance(t, SignedType):
        n = int(t.name[1:])
        lo, hi = -(1 << (n - 1)) + 1, (1 << (n - 1)) - 1
        return rng.choice([0, -1, lo, hi, rng.randint(lo, hi)])
    if isinstance(t, FloatType):
        return rng.choice(F32)
    if isinstance(t, DoubleType):
        return rng.choice(F64)
    if isinstance(t, StringType):
        k = rng.choice([0, 0, 1, 2, 5, 17])
        return "".join(rng.choice(ASCII) for _ in range(k))
    if isinstance(t, EnumType):
        enum = fcp.get_enum(t.name).unwrap()
        return rng.choice([e.value for e in enum.enumeration])
    if isinstance(t, StructType):
        return rand_struct(rng, fcp, t.name, depth + 1)
    if isinstance(t, ArrayType):
        return [rand_value(rng, fcp, t.underlying_type, depth + 1) for _ in range(t.size)]
    if isinstance(t, DynamicArrayType):
        k = rng.choice([0, 0, 1, 2, 3, 6])
        return [rand_value(rng, fcp, t.underlying_type, depth + 1) for _ in range(k)]
    if isinstance(t, OptionalType):
        if rng.random() < 0.4:
            return None
        return rand_value(rng, fcp, t.underlying_type, depth + 1)
    raise AssertionError("unknown type")


def rand_struct(rng, fcp, name, depth=0):
    s = fcp.get_struct(name).unwrap()
    return {f.name: rand_value(rng, fcp, f.type, depth) for f in s.fields}


# --------------------------------------------------------------------------
# checks
# --------------------------------------------------------------------------


def check_valid_and_prefixes(fcp, name, value, tag):
    enc = encode(fcp, name, value)
    keep = bytes(enc)
    got = real_outcome(fcp, name, enc)
    if bytes(enc) != keep:
        fail("%s: decode modified the caller's buffer" % tag)
    if got != ("ok", value):
        fail("%s: round trip mismatch: %r != %r" % (tag, got, value))
    if not same(got, ref_outcome(fcp, name, enc)):
        fail("%s: reference disagrees on the full encoding" % tag)
    record(tag, got)
    COUNTS["roundtrip"] += 1
    # trailing garbage is ignored, input type bytes works like bytearray
    if real_outcome(fcp, name, enc + bytearray([0xA5, 0x5A])) != got:
        fail("%s: trailing bytes changed the result" % tag)
    if real_outcome(fcp, name, bytes(enc)) != got:
        fail("%s: bytes input differs from bytearray input" % tag)
    for k in range(len(enc)):
        cut = enc[:k]
        out = real_outcome(fcp, name, cut)
        COUNTS["prefix"] += 1
        if out != ("err", "ValueError", "buffer overrrun"):
            fail("%s: prefix %d/%d gave %r" % (tag, k, len(enc), out))
        record((tag, k), out)
    return enc


def check_bounded(fcp, name, data, tag, limit_s=1.0, limit_bytes=4 << 20):
    """Decode must fail fast and without allocating in proportion to the prefix."""
    tracemalloc.start()
    t0 = time.perf_counter()
    out = real_outcome(fcp, name, data)
    dt = time.perf_counter() - t0
    _, peak = tracemalloc.get_traced_memory()
    tracemalloc.stop()
    COUNTS["corrupt"] += 1
    if out[0] != "err" or out[1] != "ValueError" or out[2] != "buffer overrrun":
        fail("%s: expected overrun, got %r" % (tag, out))
    if dt > limit_s:
        fail("%s: took %.2fs - work not bounded by the input" % (tag, dt))
    if peak > limit_bytes:
        fail("%s: peak allocation %d bytes" % (tag, peak))
    record(tag, out)


BIG = [1 << 8, 1 << 16, 1 << 24, 1 << 31, (1 << 32) - 2, (1 << 32) - 1]


def corrupt_prefix_checks(fcp):
    # --- aligned string -----------------------------------------------------
    for body in (b"", b"a", b"hello", b"x" * 40):
        n = len(body)
        for announced in [n + 1, n + 2, n + 255] + BIG:
            if announced > (1 << 32) - 1:
                continue
            data = BitWriter().put(announced, 32).put_bytes(body).done()
            check_bounded(fcp, "Str", data, ("Str", n, announced))
    # prefix itself cut short (0..3 bytes of it present)
    for k in range(4):
        check_bounded(fcp, "Str", bytearray([0xFF] * k), ("Str-cut", k))
        check_bounded(fcp, "Dyn", bytearray([0xFF] * k), ("Dyn-cut", k))
    # --- unaligned string: 3 pad bits then the prefix ----------------------
    for body in (b"", b"ab", b"0123456789"):
        n = len(body)
        ok = BitWriter().put(5, 3).put(n, 32).put_bytes(body).done()
        want = {"pad": 5, "s": body.decode()}
        if real_outcome(fcp, "OffStr", ok) != ("ok", want):
            fail("OffStr sanity %r" % (real_outcome(fcp, "OffStr", ok),))
        for announced in [n + 1, n + 7] + BIG:
            data = BitWriter().put(5, 3).put(announced, 32).put_bytes(body).done()
            check_bounded(fcp, "OffStr", data, ("OffStr", n, announced))
        # exact data but the last byte (holding only the 3 spill-over bits) cut
        check_bounded(fcp, "OffStr", ok[:-1], ("OffStr-last", n))
    # --- dynamic arrays -----------------------------------------------------
    for body in ([], [1], [1, 2, 3], list(range(30))):
        n = len(body)
        for announced in [n + 1, n + 3] + BIG:
            data = BitWriter().put(announced, 32).put_bytes(body).done()
            check_bounded(fcp, "Dyn", data, ("Dyn", n, announced))
    for n in (0, 1, 4):
        for announced in [n + 1] + BIG:
            w = BitWriter().put(19, 5).put(announced, 32)
            for i in range(n):
                w.put(1000 + i, 16)
            check_bounded(fcp, "OffDyn", w.done(), ("OffDyn", n, announced))
    # elements are Inner structs (u3 + i5 + 3-bit enum = 11 bits, unaligned)
    for n in (0, 2, 5):
        for announced in [n + 1] + BIG:
            w = BitWriter().put(announced, 32)
            for i in range(n):
                w.put(i, 3).put(i, 5).put(1, 3)
            # one more 11-bit element never fits in the padding of the last byte
            check_bounded(fcp, "DynInner", w.done(), ("DynInner", n, announced))
    # array of strings: outer count fine, inner prefix corrupted, and reverse
    for announced in [3] + BIG:
        data = BitWriter().put(2, 32).put(1, 32).put_bytes(b"a").put(announced, 32).put_bytes(b"bc").done()
        check_bounded(fcp, "DynStr", data, ("DynStr-inner", announced))
        data = BitWriter().put(announced, 32).put(1, 32).put_bytes(b"a").put(0, 32).done()
        check_bounded(fcp, "DynStr", data, ("DynStr-outer", announced))
    # nested dynamic arrays
    for announced in [2] + BIG:
        data = BitWriter().put(1, 32).put(announced, 32).put_bytes([9]).done()
        check_bounded(fcp, "DynDyn", data, ("DynDyn-inner", announced))
        data = BitWriter().put(announced, 32).put(0, 32).done()
        check_bounded(fcp, "DynDyn", data, ("DynDyn-outer", announced))
        data = BitWriter().put(announced, 32).put(7, 16).put(8, 16).done()
        check_bounded(fcp, "DynGrid", data, ("DynGrid", announced))
    # optional dynamic array, presence byte set, then a corrupted count
    for announced in [1] + BIG:
        data = BitWriter().put(1, 8).put(announced, 32).done()
        check_bounded(fcp, "OptDyn", data, ("OptDyn", announced))
        data = BitWriter().put(0xFF, 8).put(announced, 32).put(1, 32).done()
        check_bounded(fcp, "OptDyn", data, ("OptDyn-ff", announced))
    # presence byte 0: nothing to read but the trailing u2 must still be there
    check_bounded(fcp, "OptDyn", bytearray([0]), ("OptDyn-none-cut",))
    if real_outcome(fcp, "OptDyn", bytearray([0, 2])) != ("ok", {"xs": None, "after": 2}):
        fail("OptDyn none sanity")
    # the full message: corrupt the count of `items` in a Main encoding
    value = {
        "id": 7, "delta": -5, "ratio": 1.5, "precise": 2.25, "label": "hey",
        "fixed": [1, 2, 3], "items": [{"a": 5, "b": -3, "m": 5}], "maybe": None,
        "grid": [[1, 2], [3, 4]], "note": "x", "names": ["ab", ""], "flag": 1,
        "leaves": [{"tag": 1, "name": "q"}, {"tag": 0, "name": ""}], "tail": 1,
    }
    enc = encode(fcp, "Main", value)
    # label prefix is at bit 8+13+32+64 = 117 (unaligned)
    whole = int.from_bytes(enc, "little")
    if (whole >> 117) & 0xFFFFFFFF != 3:
        fail("Main layout assumption broken")
    for announced in [len(enc), len(enc) + 1] + BIG:
        bad = (whole & ~(0xFFFFFFFF << 117)) | (announced << 117)
        data = bytearray(bad.to_bytes(len(enc), "little"))
        check_bounded(fcp, "Main", data, ("Main-label", announced))


def fuzz_checks(fcp, rng):
    names = ["Main", "Wide", "Str", "OffStr", "Dyn", "OffDyn", "DynInner",
             "DynStr", "DynDyn", "DynGrid", "OptDyn", "Inner", "Leaf"]
    for name in names:
        for i in range(120):
            k = rng.choice([0, 1, 2, 3, 4, 5, 8, 9, 12, 20, 33])
            data = bytearray(rng.getrandbits(8) for _ in range(k))
            # keep announced counts small most of the time so that some inputs
            # decode successfully, otherwise almost everything is an overrun
            if i % 3 and k >= 4:
                data[1] = data[2] = data[3] = 0
                data[0] &= 0x07
            got = real_outcome(fcp, name, data)
            want = ref_outcome(fcp, name, data)
            COUNTS["fuzz"] += 1
            if not same(got, want):
                fail("fuzz %s %s: %r != %r" % (name, data.hex(), got, want))
            record(("fuzz", name, data.hex()), repr(got))
    # mutated valid encodings, every truncation of them compared to the reference
    for i in range(25):
        name = rng.choice(["Main", "DynStr", "DynInner", "OffStr", "OptDyn"])
        enc = encode(fcp, name, rand_struct(rng, fcp, name))
        if not enc:
            continue
        pos = rng.randrange(len(enc))
        enc[pos] ^= 1 << rng.randrange(8)
        for k in range(len(enc) + 1):
            data = enc[:k]
            t0 = time.perf_counter()
            got = real_outcome(fcp, name, data)
            dt = time.perf_counter() - t0
            want = ref_outcome(fcp, name, data)
            COUNTS["fuzz"] += 1
            if dt > 1.0:
                fail("mut %s %d: slow (%.2fs)" % (name, k, dt))
            if not same(got, want):
                fail("mut %s %s: %r != %r" % (name, data.hex(), got, want))
            if got[0] == "ok" and want[0] != "ok":
                fail("mut %s: value fabricated from missing bytes" % name)
            record(("mut", name, data.hex()), repr(got))


def repeat_checks(fcp, rng):
    """Same answers when the same inputs are decoded again, interleaved."""
    cases = []
    for name in ["Main", "Str", "Dyn", "DynInner", "Wide"]:
        for _ in range(4):
            enc = encode(fcp, name, rand_struct(rng, fcp, name))
            cases.append((name, enc))
            cases.append((name, enc[: len(enc) // 2]))
    first = [real_outcome(fcp, n, d) for n, d in cases]
    order = list(range(len(cases)))
    rng.shuffle(order)
    for idx in order + order[::-1]:
        n, d = cases[idx]
        COUNTS["repeat"] += 1
        if real_outcome(fcp, n, d) != first[idx]:
            fail("repeat: %s answer changed between calls" % n)
    # a second, independently parsed copy of the schema behaves the same
    fcp2 = get_fcp_from_string(SCHEMA).unwrap()
    for (n, d), want in zip(cases, first):
        if real_outcome(fcp2, n, d) != want:
            fail("repeat: %s differs on a re-parsed schema" % n)


def signed_boundary_checks(fcp):
    # i5 inside Inner sits at bit offset 3; pin the upstream sign convention
    for raw, want in [(0, 0), (15, 15), (16, 16), (17, -15), (31, -1)]:
        data = BitWriter().put(2, 3).put(raw, 5).put(1, 3).done()
        got = real_outcome(fcp, "Inner", data)
        if got != ("ok", {"a": 2, "b": want, "m": 1}):
            fail("signed boundary raw=%d: %r" % (raw, got))
        record(("i5", raw), got)
        if real_outcome(fcp, "Inner", data[:1]) != ("err", "ValueError", "buffer overrrun"):
            fail("Inner cut after first byte must overrun")
    w = {"big": (1 << 64) - 1, "neg": -(1 << 63) + 1, "odd": (1 << 37) - 1, "sodd": -1}
    check_valid_and_prefixes(fcp, "Wide", w, "Wide-max")


def repo_schema_checks(rng):
    base = os.path.join(FCP_ROOT, "tests", "schemas", "syntax")
    plan = [
        ("001_basic_struct", ["S1", "S2", "S3", "S4", "S5"]),
        ("004_struct_composition", ["baz"]),
        ("007_simple_array_type", ["S1"]),
        ("008_dynamic_array", ["S1", "S2"]),
        ("009_optional", ["S1"]),
    ]
    for stem, structs in plan:
        path = os.path.join(base, stem + ".fcp")
        if not os.path.exists(path):
            fail("missing schema " + path)
            continue
        fcp = get_fcp(path).unwrap()
        for name in structs:
            for i in range(6):
                value = rand_struct(rng, fcp, name)
                check_valid_and_prefixes(fcp, name, value, (stem, name, i))
    # the literal vectors of tests/test_serde.py, truncated
    fcp = get_fcp(os.path.join(base, "008_dynamic_array.fcp")).unwrap()
    vec = bytearray([3, 0, 0, 0, 1, 2, 3])
    if real_outcome(fcp, "S1", vec) != ("ok", {"field1": [1, 2, 3]}):
        fail("008 vector")
    for k in range(len(vec)):
        if real_outcome(fcp, "S1", vec[:k])[0] != "err":
            fail("008 vector prefix %d accepted" % k)
    for announced in BIG:
        data = BitWriter().put(announced, 32).put_bytes([1, 2, 3]).done()
        check_bounded(fcp, "S1", data, ("008-S1", announced))
        data = BitWriter().put(announced, 32).put(1, 32).put(9, 8).done()
        check_bounded(fcp, "S2", data, ("008-S2", announced))


# digest of every recorded outcome, taken on the unmodified worktree
EXPECTED_DIGEST = "177349e3bf27bf5ddaf0719252f363d1966280adb7dee80aa0f660489fab6c8d"


def main():
    rng = random.Random(0xC16)
    fcp = get_fcp_from_string(SCHEMA).unwrap()

    for i in range(40):
        check_valid_and_prefixes(fcp, "Main", rand_struct(rng, fcp, "Main"), ("Main", i))
    for name in ["Wide", "Inner", "Leaf", "OffStr", "OffDyn", "DynInner", "DynStr",
                 "DynDyn", "DynGrid", "OptDyn"]:
        for i in range(10):
            check_valid_and_prefixes(fcp, name, rand_struct(rng, fcp, name), (name, i))
    # long payloads: 4 KiB string and 3000-element array, every 97th boundary
    long_s = {"s": "".join(rng.choice("abcdef") for _ in range(4096))}
    enc = encode(fcp, "Str", long_s)
    if real_outcome(fcp, "Str", enc) != ("ok", long_s):
        fail("long string round trip")
    for k in list(range(0, len(enc), 97)) + [len(enc) - 1]:
        if real_outcome(fcp, "Str", enc[:k]) != ("err", "ValueError", "buffer overrrun"):
            fail("long string prefix %d accepted" % k)
    long_a = {"xs": [rng.getrandbits(8) for _ in range(3000)]}
    enc = encode(fcp, "Dyn", long_a)
    if real_outcome(fcp, "Dyn", enc) != ("ok", long_a):
        fail("long array round trip")
    for k in list(range(0, len(enc), 97)) + [len(enc) - 1]:
        if real_outcome(fcp, "Dyn", enc[:k]) != ("err", "ValueError", "buffer overrrun"):
            fail("long array prefix %d accepted" % k)

    signed_boundary_checks(fcp)
    corrupt_prefix_checks(fcp)
    fuzz_checks(fcp, rng)
    repeat_checks(fcp, rng)
    repo_schema_checks(rng)

    # empty input for every struct
    for s in fcp.structs:
        out = real_outcome(fcp, s.name, bytearray())
        if out != ("err", "ValueError", "buffer overrrun"):
            fail("empty input for %s: %r" % (s.name, out))

    digest = OUTCOMES.hexdigest()
    print("checks:", " ".join("%s=%d" % kv for kv in sorted(COUNTS.items())))
    print("digest:", digest)
    if os.environ.get("C16_PRINT_DIGEST"):
        return 0
    if digest != EXPECTED_DIGEST:
        fail("outcome digest %s differs from the pinned %s" % (digest, EXPECTED_DIGEST))
    if FAILURES:
        print("FAILED (%d problems)" % len(FAILURES))
        return 1
    print("PASS")
    return 0


if __name__ == "__main__":
    sys.exit(main())
