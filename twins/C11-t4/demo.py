#!/venv/bin/python
"""Differential demo for property C11: the parser is total.

For every input text (valid, malformed, truncated, mutated, random) parsing
must terminate and hand back an Ok(schema) or an Err(FcpError); no exception may
escape.  Every error must be renderable by Logger.error(), and every source line
that a diagnostic cites must exist in the source registered under that name.

The script checks the property on a few thousand generated inputs and, on top
of that, compares a digest of all (normalised) outcomes with the digest that
was recorded on the unchanged tree, so any observable drift in results or
diagnostics makes it FAIL.

Run with the worktree on PYTHONPATH, e.g.
    PYTHONPATH=/tmp/twin-C11/src /venv/bin/python demo.py
"""

import hashlib
import os
import pathlib
import random
import re
import sys
import tempfile

# Keep set/dict iteration orders inside lark reproducible between runs.
if os.environ.get("PYTHONHASHSEED") != "0":
    os.environ["PYTHONHASHSEED"] = "0"
    os.execv(sys.executable, [sys.executable] + sys.argv)

FCP_ROOT = pathlib.Path(os.environ.get("FCP_ROOT", "/tmp/twin-C11"))

from fcp.parser import get_fcp, get_fcp_from_string  # noqa: E402
from fcp.error import Logger, FcpError  # noqa: E402
from fcp.result import Ok, Err  # noqa: E402
from fcp.specs.v2 import FcpV2  # noqa: E402
from fcp import maybe as maybe_mod  # noqa: E402
from fcp import result as result_mod  # noqa: E402

GOLDEN = "3b3ff23029c68d7d302b6c0a065d24c59a168095c4d6b325b0184958bf1bac0a"

failures = []
records = []


def fail(msg):
    failures.append(msg)
    if len(failures) <= 20:
        print("FAIL:", msg)


# --------------------------------------------------------------------------
# corpus
# --------------------------------------------------------------------------
EMBEDDED = [
    'version: "3"\n\nstruct A {\n    f1 @0: u8,\n    f2 @1: i13 | range(0.0, 10.5) unit("V"),\n}\n',
    'version: "3"\n\nenum E {\n    A = 0,\n    B = 1,\n}\n\nstruct S {\n    e @0: E,\n    o @1: Optional[E],\n'
    "    a @2: [u8, 4],\n    d @3: [f32],\n    s @4: str,\n    x @5: f64,\n}\n",
    'version: "3"\n/* c */\nstruct A {\n    f @0: u8, // t\n}\n\nimpl can for A as B {\n    id: 10,\n    dev: "ecu",\n'
    "    signal f {\n        bitstart: 0,\n        mux: [a, 1, \"s\"],\n    },\n}\n",
    'version: "3"\n\nstruct A {\n    f @0: u8,\n}\n\nstruct B {\n    g @0: A,\n}\n\nservice S @1 {\n'
    "    method M(A) @0 returns B,\n}\n\ndevice ecu {\n    services: [S],\n    n: -3,\n}\n",
]


def load_corpus():
    corpus = list(EMBEDDED)
    syntax = FCP_ROOT / "tests" / "schemas" / "syntax"
    if syntax.is_dir():
        for path in sorted(syntax.glob("*.fcp")):
            corpus.append(path.read_text())
    return corpus


OUT_OF_DOMAIN = [
    "",
    " ",
    "\n\n",
    "version",
    "version:",
    'version: "3"',
    'version: "2"',
    'version: "3" version: "3"',
    'version: 3',
    'version: "3"\nstruct A { f @0.5: u8, }',
    'version: "3"\nstruct A { f @1e3: u8, }',
    'version: "3"\nstruct A { f @-1: u8, }',
    'version: "3"\nstruct A { f @+7: u8, }',
    'version: "3"\nstruct A { f @0: u0, }',
    'version: "3"\nstruct A { f @0: u99, }',
    'version: "3"\nstruct A { f @0: u123, }',
    'version: "3"\nstruct A { f @0: i7, g @0: i7, }',
    'version: "3"\nstruct A { }',
    'version: "3"\nstruct A { f @0: u8 }',
    'version: "3"\nstruct A { f @0: u8 | bogus(1), }',
    'version: "3"\nstruct A { f @0: u8 | range(1), }',
    'version: "3"\nstruct A { f @0: u8 | range(), }',
    'version: "3"\nstruct A { f @0: u8 | range, }',
    'version: "3"\nstruct A { f @0: u8 | range(1, 2, 3), }',
    'version: "3"\nstruct A { f @0: u8 | range("a", "b"), }',
    'version: "3"\nstruct A { f @0: u8 | unit(), }',
    'version: "3"\nstruct A { f @0: u8 | unit(1), }',
    'version: "3"\nstruct A { f @0: u8 | unit("V") unit("A"), }',
    'version: "3"\nstruct A { f @0: u8 | unit("V") | range(0, 1), }',
    'version: "3"\nstruct A { f @0: u8 | range(0.5, 1e9) unit("V"), }',
    'version: "3"\nstruct A { f @0: u8 | range([1], [2]), }',
    'version: "3"\nstruct A { f @0: u8 | name("x"), }',
    'version: "3"\nstruct A { f @0: u8 | meta("x"), }',
    'version: "3"\nstruct A { f @0: u8 | type("x"), }',
    'version: "3"\nstruct A { f @"0": u8, }',
    'version: "3"\nstruct A { f @0: Missing, }',
    'version: "3"\nstruct A { f @0: [Missing, 3], }',
    'version: "3"\nstruct A { f @0: [Missing], }',
    'version: "3"\nstruct A { f @0: Optional[Missing], }',
    'version: "3"\nstruct A { f @0: Optional[[[Missing, 2]]], }',
    'version: "3"\nstruct A { f @0: [u8, 2.5], }',
    'version: "3"\nstruct A { f @0: [u8, -2], }',
    'version: "3"\nstruct A { f @0: [u8, 1e2], }',
    'version: "3"\nstruct A { f @0: [[u8, 2], 3], }',
    'version: "3"\nstruct A { f @0: Optional[Optional[[str]]], }',
    'version: "3"\nstruct A {\n  ok @0: u8,\n\tbad @1: Missing,\n}',
    'version: "3"\r\nstruct A {\r\n  bad @1: Missing,\r\n}\r\n',
    'version: "3"\nstruct A { f @0: A, }',
    'version: "3"\nenum E { }',
    'version: "3"\nenum E { A = "x", }',
    'version: "3"\nenum E { A = 1.5, }',
    'version: "3"\nenum E { A = [1, 2], }',
    'version: "3"\nenum E { A = B, }',
    'version: "3"\nenum E { A = -1, A = -1, }',
    'version: "3"\nenum E { A = 99999999999999999999999999, }',
    'version: "3"\nenum E { A = 0, }\nenum E { A = 0, }',
    'version: "3"\nenum E { A = 0, }\nstruct E { f @0: E, }',
    'version: "3"\nimpl can for A { id: 1, }',
    'version: "3"\nimpl can for A as { id: 1, }',
    'version: "3"\nimpl can for A as B { id: 1, id: 2, }',
    'version: "3"\nimpl can for A B { id: 1, }',
    'version: "3"\nimpl can for A { signal s { x: 1, }, }',
    'version: "3"\nimpl can for A { signal s { }, }',
    'version: "3"\nimpl can for A { }',
    'version: "3"\nimpl can for A as B { signal s { x: [], }, }',
    'version: "3"\nservice S @0.5 { method M(A) @"x" returns B, }',
    'version: "3"\nservice S @0 { method M(A) @1.5 returns B, }',
    'version: "3"\nservice S @0 { }',
    'version: "3"\nservice S @0 { method M() @0 returns B, }',
    'version: "3"\ndevice d { }',
    'version: "3"\ndevice d { a: 1, a: 2, }',
    'version: "3"\ndevice d { a: [[1, [2]], "s", x], }',
    'version: "3"\nmod nothere;',
    'version: "3"\nmod a.b.c;',
    'version: "3"\nmod ;',
    'version: "3"\nmod a',
    'version: "3"\nstruct',
    'version: "3"\nstruct A {',
    'version: "3"\nstruct A { f @0: u8, } }',
    'version: "3"\nstruct A { f @0: u8, } /* unterminated',
    'version: "3"\n// only a comment',
    'version: "3"\nstruct A { f @0: "str", }',
    'version: "3"\nstruct A { f @0: u8 | unit("unterminated), }',
    'version: "3"\nstruct A { f @0: u8 | unit("a\\"b"), }',
    'version: "3"\nstruct é { f @0: u8, }',
    'version: "3"\nstruct A { f @0: u8, }\x00',
    'version: "3"\nstruct A { f @٣: u8, }',
    "﻿version: \"3\"\n",
    'version: "3"\n' + "struct A { f @0: u8, }\n" * 3,
    'version: "3"\n' + "".join("struct S%d { f @0: u8, }\n" % i for i in range(12)),
    'version: "3"\nstruct A { ' + " ".join("f%d @%d: u8," % (i, i) for i in range(40)) + " }",
    'version: "3"\nstruct A { f @0: ' + "[" * 30 + "u8" + "]" * 30 + ", }",
    'version: "3"\nstruct A { f @0: ' + "Optional[" * 20 + "Missing" + "]" * 20 + ", }",
    'version: "3"\ndevice d { a: ' + "[" * 25 + "1" + "]" * 25 + ", }",
]

TOKEN_RE = re.compile(r'"[^"\n]*"|//[^\n]*|\w+|\s+|[^\w\s]')
REPLACEMENTS = [
    "struct", "enum", "impl", "for", "as", "signal", "service", "method", "returns",
    "device", "mod", "version", "Optional", "u8", "i64", "f32", "str", "x", "0", "-1",
    "2.5", '"s"', "{", "}", "[", "]", "(", ")", ",", ":", "@", "|", "=", ";", ".", "#",
]


def mutations(text, rng, count):
    toks = TOKEN_RE.findall(text)
    idx = [i for i, t in enumerate(toks) if not t.isspace()]
    out = []
    if not idx:
        return out
    for _ in range(count):
        t = list(toks)
        kind = rng.choice(["delete", "duplicate", "swap", "replace"])
        i = rng.choice(idx)
        if kind == "delete":
            del t[i]
        elif kind == "duplicate":
            t.insert(i, t[i])
        elif kind == "swap":
            j = rng.choice(idx)
            t[i], t[j] = t[j], t[i]
        else:
            t[i] = rng.choice(REPLACEMENTS)
        out.append("".join(t))
    return out


def random_texts(rng, count):
    alphabet = 'abzAZ_019 \n\t{}[]():,;@|=."/*-+\\\x00é#u8i4f32'
    words = REPLACEMENTS + ["A", "B", "field1", "\n", " ", " ", '"3"']
    out = []
    for n in range(count):
        if n % 2:
            out.append("".join(rng.choice(alphabet) for _ in range(rng.randint(0, 40))))
        else:
            head = 'version: "3"\n' if rng.random() < 0.7 else ""
            out.append(head + " ".join(rng.choice(words) for _ in range(rng.randint(0, 25))))
    return out


# --------------------------------------------------------------------------
# the property check
# --------------------------------------------------------------------------
ANSI = re.compile(r"\x1b\[[0-9;]*m")
PY_SITE = re.compile(r"\[(\w+\.py):\d+\]")
EXPECTED = re.compile(r"expected one of: (\[[^\n]*\])")


def _sort_expected(match):
    inner = match.group(1)[1:-1]
    return "expected one of: [" + ", ".join(sorted(p.strip() for p in inner.split(",") if p.strip())) + "]"


def normalise(text):
    text = ANSI.sub("", text)
    text = PY_SITE.sub(r"[\1:N]", text)  # python call-site line: debugging aid only
    return EXPECTED.sub(_sort_expected, text)


def check_error(label, logger_sources, err):
    """Render `err` in both logger modes; check cited lines; return a record."""
    if not isinstance(err, FcpError):
        fail("%s: error value is %r, not FcpError" % (label, type(err)))
        return "BADERR"
    rendered = []
    for paths in (False, True):
        lg = Logger(dict(logger_sources), enable_file_paths=paths)
        try:
            text = lg.error(err)
        except BaseException as exc:  # noqa: BLE001
            fail("%s: rendering (paths=%s) raised %r" % (label, paths, exc))
            return "UNRENDERABLE"
        if not isinstance(text, str) or not text:
            fail("%s: rendering produced %r" % (label, text))
        # rendering twice gives the same text (no state leaks between renders)
        if lg.error(err) != text:
            fail("%s: rendering is not repeatable" % label)
        rendered.append(normalise(text))
    cites = []
    for msg, node, site in err.msg:
        if not isinstance(msg, str):
            fail("%s: message %r is not a string" % (label, msg))
        if node is None:
            continue
        name = pathlib.Path(node.meta.filename).name
        if name not in logger_sources:
            fail("%s: diagnostic cites unknown source %r" % (label, name))
            continue
        lines = logger_sources[name].split("\n")
        line = node.meta.line
        if not (isinstance(line, int) and 1 <= line <= len(lines)):
            fail("%s: diagnostic cites line %r of %r (%d lines)" % (label, line, name, len(lines)))
            continue
        cites.append("%s:%d:%s" % (name, line, lines[line - 1]))
        if lines[line - 1].replace("\t", "    ") and ("~" * len(lines[line - 1].replace("\t", "    "))) not in rendered[0]:
            fail("%s: underline for cited line missing from rendering" % label)
    return "ERR|" + repr(normalise(repr(err))) + "|" + "|".join(rendered) + "|" + ";".join(cites)


def run_one(label, thunk, sources):
    try:
        res = thunk()
    except BaseException as exc:  # noqa: BLE001
        fail("%s: exception escaped: %r" % (label, exc))
        records.append(label + "=>ESCAPED")
        return None
    if isinstance(res, Ok):
        val = res.unwrap()
        if not isinstance(val, FcpV2):
            fail("%s: Ok carries %r" % (label, type(val)))
        try:
            rec = "OK|" + repr(val.to_dict())
        except BaseException as exc:  # noqa: BLE001
            rec = "OK|<to_dict raised %s>" % type(exc).__name__
    elif isinstance(res, Err):
        rec = check_error(label, sources, res.err())
    else:
        fail("%s: result is %r, neither Ok nor Err" % (label, type(res)))
        rec = "NEITHER"
    records.append(label + "=>" + rec)
    return res


def run_string(label, text):
    logger = Logger({}, enable_file_paths=False)
    res = run_one(label, lambda: get_fcp_from_string(text, logger), logger.sources)
    if set(logger.sources) - {"main.fcp"}:
        pass  # imports may register more sources
    if logger.sources.get("main.fcp") != text:
        fail("%s: source registered for main.fcp differs from the input" % label)
    return res


# --------------------------------------------------------------------------
# file based inputs (imports through `mod`)
# --------------------------------------------------------------------------
def run_files():
    files = {
        "good.fcp": 'version: "3"\n\nmod leaf;\n\nstruct Top {\n    t @0: Leaf,\n}\n',
        "leaf.fcp": 'version: "3"\n\nstruct Leaf {\n    v @0: u8,\n}\n',
        "deep.fcp": 'version: "3"\nmod sub.inner;\nstruct D { d @0: Inner, }\n',
        "sub/inner.fcp": 'version: "3"\nstruct Inner { v @0: [u8, 2], }\n',
        "missing.fcp": 'version: "3"\n\nmod nothere;\n',
        "imp_badchar.fcp": 'version: "3"\n\n\nmod badchar;\n',
        "badchar.fcp": 'version: "3"\nstruct A {\n\n\n\n    f @0: u8, #\n}\n',
        "imp_eof.fcp": 'version: "3"\nmod eof;\n',
        "eof.fcp": 'version: "3"\nstruct A {\n    f @0: u8,\n',
        "imp_visit.fcp": 'version: "3"\nmod visit;\n',
        "visit.fcp": 'version: "3"\nstruct A {\n    f @0: u8 | bogus(1),\n}\n',
        "imp_type.fcp": 'version: "3"\nmod typeerr;\n',
        "typeerr.fcp": 'version: "3"\n\n\n\n\n\nstruct A {\n    f @0: Optional[Nope],\n}\n',
        "imp_version.fcp": 'version: "3"\nmod oldversion;\n',
        "oldversion.fcp": 'version: "2"\nstruct A { f @0: u8, }\n',
        "imp_chain.fcp": 'version: "3"\nmod imp_type;\n',
        "imp_empty.fcp": 'version: "3"\nmod empty;\n',
        "empty.fcp": "",
        "selfimport.fcp": 'version: "3"\nmod leaf;\nmod leaf;\n',
        "toplevel_badchar.fcp": 'version: "3"\nstruct A {\n    f @0: u8, $\n}\n',
        "toplevel_eof.fcp": 'version: "3"\nenum E {\n',
        "toplevel_float_id.fcp": 'version: "3"\nstruct A {\n    f @0.5: u8,\n}\n',
    }
    with tempfile.TemporaryDirectory() as tmp:
        root = pathlib.Path(tmp)
        for name, text in files.items():
            path = root / name
            path.parent.mkdir(parents=True, exist_ok=True)
            path.write_text(text)
        tops = [n for n in sorted(files) if "/" not in n]
        for name in tops + ["does_not_exist_dir/x.fcp"][:0]:
            for as_str in (False, True):
                logger = Logger({}, enable_file_paths=False)
                target = root / name
                arg = str(target) if as_str else target
                before = len(records)
                run_one("file:%s:%s" % (name, as_str), lambda: get_fcp(arg, logger), logger.sources)
                # the temp dir name is random: scrub it from the record
                records[before:] = [r.replace(str(root.resolve()), "<TMP>").replace(str(root), "<TMP>") for r in records[before:]]
                if logger.sources.get(name) != files[name]:
                    fail("file:%s: registered source differs from the file" % name)


# --------------------------------------------------------------------------
# building blocks the property leans on: catch / attempt / Logger
# --------------------------------------------------------------------------
def run_units():
    catch = maybe_mod.catch
    boom = result_mod.Err("boom")

    @catch
    def f(kind, *args, **kwargs):
        """doc"""
        if kind == "ok":
            return Ok((args, kwargs))
        if kind == "err":
            return boom.attempt()
        if kind == "nothing":
            return maybe_mod.Nothing().attempt()
        if kind == "some":
            return maybe_mod.Some(5).attempt()
        if kind == "plain":
            return 7
        if kind == "nested":
            return Ok(f("err").map_err(lambda e: e + "!").attempt())
        raise KeyError(kind)

    unit = []
    unit.append(repr(f("ok", 1, a=2)))
    r = f("err")
    unit.append(repr(r))
    if r is not boom:
        fail("catch: Err.attempt() must surface the very same Err object")
    unit.append(repr(f("nothing")))
    if not isinstance(f("nothing"), maybe_mod.Nothing):
        fail("catch: Nothing.attempt() must surface Nothing()")
    unit.append(repr(f("some")))
    unit.append(repr(f("plain")))
    unit.append(repr(f("nested")))
    unit.append(f.__name__ + ":" + str(f.__doc__))
    for kind, exc_type in (("other", KeyError),):
        try:
            f(kind)
            fail("catch: foreign exception swallowed")
        except exc_type:
            unit.append("foreign exception propagates")
    try:
        boom.attempt()
        fail("attempt on Err returned")
    except result_mod.ResultAttemptError as exc:
        if exc.error is not boom:
            fail("ResultAttemptError.error is not the Err")
        unit.append("attempt raises ResultAttemptError")

    # Logger: sources replaced / shared between parses, direct log_node use
    lg = Logger({}, enable_file_paths=False)
    bad1 = 'version: "3"\nstruct A {\n    f @0: Nope,\n}\n'
    bad2 = 'version: "3"\n\n\nstruct A {\n\n    f @0: Other,\n}\n'
    for round_ in range(3):
        for text in (bad1, bad2, bad1):
            res = get_fcp_from_string(text, lg)
            rendered = normalise(lg.error(res.err()))
            node = res.err().msg[0][1]
            cited = text.split("\n")[node.meta.line - 1]
            if cited not in rendered:
                fail("logger reuse: rendering shows a stale line (%r not in %r)" % (cited, rendered))
            unit.append(rendered)
    # external replacement of a source through the public dict and add_source
    res = get_fcp_from_string(bad1, lg)
    node = res.err().msg[0][1]
    first = lg.log_node(node)
    lg.sources["main.fcp"] = "l1\nl2\nCHANGED LINE\nl4"
    second = lg.log_node(node)
    lg.add_source("main.fcp", "l1\nl2\nAGAIN\nl4")
    third = lg.log_node(node)
    lg.add_source("main.fcp", bad1)
    fourth = lg.log_node(node)
    if not ("Nope" in first and "CHANGED LINE" in second and "AGAIN" in third and fourth == first):
        fail("logger: log_node does not follow the registered source")
    unit += [normalise(x) for x in (first, second, third, fourth)]
    lg.add_source("main.fcp", "only one line")
    try:
        lg.log_node(node)
        fail("logger: out-of-range line did not raise")
    except IndexError:
        unit.append("IndexError for a line outside the source")
    del lg.sources["main.fcp"]
    try:
        lg.log_node(node)
        fail("logger: unknown source did not raise")
    except KeyError:
        unit.append("KeyError for an unknown source")
    unit.append(normalise(lg.log_location("\ta\tb", 12)))
    unit.append(normalise(lg.log_location("", 7)))
    # default, module-wide logger instance: many parses in a row
    for text in (bad1, EMBEDDED[0], bad2, "", bad1):
        try:
            res = get_fcp_from_string(text)
        except BaseException as exc:  # noqa: BLE001
            fail("default logger: exception escaped %r" % exc)
            continue
        unit.append("default:" + ("ok" if res.is_ok() else normalise(repr(res.err()))))
    records.append("units=>" + "\n".join(unit))


def main():
    rng = random.Random(20241011)
    corpus = load_corpus()
    n = 0
    for ci, text in enumerate(corpus):
        run_string("valid%d" % ci, text)
        if ci < len(EMBEDDED) and not records[-1].split("=>", 1)[1].startswith("OK|"):
            fail("embedded valid schema %d does not parse" % ci)
        step = 1 if len(text) <= 160 else 3
        for cut in range(0, len(text), step):
            run_string("prefix%d.%d" % (ci, cut), text[:cut])
        for mi, mutated in enumerate(mutations(text, rng, 45)):
            run_string("mut%d.%d" % (ci, mi), mutated)
    for oi, text in enumerate(OUT_OF_DOMAIN):
        run_string("ood%d" % oi, text)
        run_string("ood%d.again" % oi, text)
        if records[-1].split("=>", 1)[1] != records[-2].split("=>", 1)[1]:
            fail("ood%d: parsing twice gives different outcomes" % oi)
    for ri, text in enumerate(random_texts(rng, 500)):
        run_string("rand%d" % ri, text)
    run_files()
    run_units()
    n = len(records)

    digest = hashlib.sha256("\n".join(records).encode("utf-8", "backslashreplace")).hexdigest()
    oks = sum(1 for r in records if "=>OK|" in r)
    errs = sum(1 for r in records if "=>ERR|" in r)
    print("inputs %d: ok %d, err %d, digest %s" % (n, oks, errs, digest))
    if os.environ.get("C11_DUMP"):
        pathlib.Path(os.environ["C11_DUMP"]).write_text("\n".join(records), errors="backslashreplace")
    if GOLDEN.startswith("@@"):
        print("(no golden digest recorded)")
    elif digest != GOLDEN:
        fail("outcome digest %s differs from the recorded %s" % (digest, GOLDEN))
    if failures:
        print("FAIL (%d problems)" % len(failures))
        return 1
    print("PASS")
    return 0


if __name__ == "__main__":
    sys.exit(main())
