#!/venv/bin/python
"""Differential test for property C12: reflection is a lossless, faithful
description of the schema.

For a spread of schemas (every node kind, with/without unit, range, signal
blocks, services, nested type wrappers) the test checks that

 1. FcpV2.reflection() equals a record that this file derives on its own from
    the parsed AST (own recursive walk of the type tree, own field ordering);
 2. the values in the record are the ones written in the schema text
    (spot checks against literals);
 3. serde.encode(reflection schema, "Fcp", record) produces exactly the bytes
    of an independent reference encoder written in this file;
 4. serde.decode(...) of those bytes returns the very same record, and an
    independent reference decoder agrees;
 5. repeated calls give equal, but not shared, results;
 6. error inputs (truncated / oversized-length buffers, wrong value types,
    abstract types) keep raising the same exception types and messages.

Run with PYTHONPATH pointing at the tree under test.  Prints PASS, exit 0.
"""

import hashlib
import os
import struct as pystruct
import sys
from pathlib import Path

from fcp.parser import get_fcp_from_string, get_fcp
from fcp.reflection import get_reflection_schema
from fcp import serde as fcp_serde
from fcp.serde import encode, decode
from fcp.specs import type as T
from fcp.specs.v2 import FcpV2, encode_version
from fcp.specs.struct import Struct
from fcp.specs.struct_field import StructField
from fcp.specs.enum import Enum, Enumeration
from fcp.specs.impl import Impl
from fcp.specs.signal_block import SignalBlock
from fcp.specs.service import Service
from fcp.specs.method import Method
from fcp.specs.metadata import MetaData

FCP_ROOT = Path(os.environ.get("FCP_ROOT", "/tmp/twin2-C12"))

CHECKS = 0


def check(cond, msg):
    global CHECKS
    CHECKS += 1
    if not cond:
        print("FAIL:", msg)
        sys.exit(1)


def expect_raises(exc_type, message, fn, what):
    try:
        fn()
    except exc_type as e:  # noqa
        if message is not None:
            check(str(e) == message, f"{what}: message {str(e)!r} != {message!r}")
        else:
            check(True, what)
        if exc_type is not Exception:
            check(type(e) is exc_type, f"{what}: raised {type(e).__name__}")
        return
    except Exception as e:  # noqa
        check(False, f"{what}: raised {type(e).__name__}: {e}, expected {exc_type.__name__}")
    check(False, f"{what}: did not raise")


# --------------------------------------------------------------------------
# schemas
# --------------------------------------------------------------------------

SCHEMAS = {}

SCHEMAS["minimal"] = """version: "3"
struct A {
    x @0: u8,
}
"""

SCHEMAS["builtins"] = """version: "3"
struct B {
    a @0: u1,
    b @1: u7,
    c @2: u8,
    d @3: u13,
    e @4: u32,
    f @5: u64,
    g @6: i2,
    h @7: i8,
    i @8: i33,
    j @9: i64,
    k @10: f32,
    l @11: f64,
    m @12: str,
}
"""

SCHEMAS["units_ranges"] = """version: "3"
struct C {
    speed @0: f32 | unit("m/s") range(-12.5, 250.75),
    temp @1: i16 | unit("C"),
    level @2: u8 | range(0.0, 100.0),
    tiny @3: f64 | range(-1e-300, 1e300) unit("V"),
    plain @4: u3,
    neg @5: i8 | range(-128.0, -0.5),
}
"""

SCHEMAS["out_of_order_ids"] = """version: "3"
struct D {
    last @7: u8,
    first @0: u16 | unit("s"),
    mid @3: [u8, 4],
    second @1: str,
}
"""

SCHEMAS["nesting"] = """version: "3"
enum Colour {
    Red = 0,
    Green = 1,
    Blue = 2,
    Max = 255,
}
enum Single {
    Only = 0,
}
struct Inner {
    v @0: u8,
    c @1: Colour,
}
struct Outer {
    a @0: [u8, 3],
    b @1: [u8],
    c @2: Optional[u8],
    d @3: [[u8, 2], 5],
    e @4: [[u8]],
    f @5: Optional[[u8, 7]],
    g @6: [Optional[i12]],
    h @7: [[[f32, 1], 2], 3],
    i @8: Optional[[Optional[[str]]]],
    j @9: Inner,
    k @10: [Inner, 2],
    l @11: [Inner],
    m @12: Optional[Inner],
    n @13: Colour,
    o @14: [Colour, 9],
    p @15: Optional[[[Colour], 4]],
    q @16: [[[[[[[[u1]]]]]]]],
    r @17: [Optional[[Optional[[f64, 11]], 12]], 13],
    s @18: Single,
    t @19: [str, 1],
}
"""

SCHEMAS["impls_signals"] = """version: "3"
struct Frame {
    a @0: u8 | unit("m"),
    b @1: u16,
    c @2: f32,
}
struct Other {
    z @0: i8,
}
impl can for Frame {
    id: 100,
    bus: "main",
    period: 0.5,
    tags: [1, 2, 3],
    mode: fast,
    signal a {
        mux_count: 16,
        mux: "b",
        scale: 0.25,
        endianness: "big",
    },
    signal b {
        bitstart: 8,
    },
}
impl can for Frame as FrameAlt {
    id: 101,
    neg: -7,
    nested: [[1, 2], ["x", y]],
    signal c {
        offset: -1.5,
    },
}
impl udp for Other {
    port: 4000,
}
"""

SCHEMAS["services"] = """version: "3"
enum State {
    Off = 0,
    On = 1,
    Err = 2,
}
struct Req {
    id @0: u32,
}
struct Resp {
    state @0: State,
    text @1: Optional[str],
}
service Ctl @0 {
    method Get(Req) @0 returns Resp,
    method Set(Resp) @1 returns Req,
}
service Aux @7 {
    method Ping(Req) @5 returns Req,
}
device ecu {
    protocol: can,
    services: [Ctl, Aux],
}
impl can for Req {
    id: 1,
}
"""

SCHEMAS["enum_values"] = """version: "3"
enum Wide {
    Neg = -5,
    Zero = 0,
    Big = 2147483647,
    NearMin = -2147483647,
}
struct UsesWide {
    w @0: u8,
}
"""

SCHEMAS["comments_layout"] = """version: "3"
// a comment before
struct   E   {   /* inline */
    x   @0  :  u8  |  unit ( "a b c" )  ,
    // another
    y@1:[u8,2],
}
"""


def load(source):
    r = get_fcp_from_string(source)
    check(r.is_ok(), "schema parses")
    return r.unwrap()


# --------------------------------------------------------------------------
# 1. independent expectation of the reflection record
# --------------------------------------------------------------------------


def ref_meta(meta):
    if meta is None:
        return None
    return {
        "line": meta.line,
        "end_line": meta.end_line,
        "column": meta.column,
        "end_column": meta.end_column,
        "start_pos": meta.start_pos,
        "end_pos": meta.end_pos,
        "filename": meta.filename,
    }


def ref_type_chain(t):
    """Own recursive flattening of a type tree: outermost first, leaf last."""
    if isinstance(t, T.ArrayType):
        return [{"name": "Array", "type": "Array", "size": t.size}] + ref_type_chain(
            t.underlying_type
        )
    if isinstance(t, T.DynamicArrayType):
        return [
            {"name": "DynamicArray", "type": "DynamicArray", "size": 1}
        ] + ref_type_chain(t.underlying_type)
    if isinstance(t, T.OptionalType):
        return [{"name": "Optional", "type": "Optional", "size": 1}] + ref_type_chain(
            t.underlying_type
        )
    if isinstance(t, T.StructType):
        return [{"name": t.name, "type": "Struct", "size": 1}]
    if isinstance(t, T.EnumType):
        return [{"name": t.name, "type": "Enum", "size": 1}]
    if isinstance(t, T.StringType):
        return [{"name": "str", "type": "str", "size": 1}]
    if isinstance(t, T.UnsignedType):
        return [{"name": t.name, "type": "unsigned", "size": 1}]
    if isinstance(t, T.SignedType):
        return [{"name": t.name, "type": "signed", "size": 1}]
    if isinstance(t, T.FloatType):
        return [{"name": "f32", "type": "float", "size": 1}]
    if isinstance(t, T.DoubleType):
        return [{"name": "f64", "type": "double", "size": 1}]
    raise AssertionError("unknown type " + repr(t))


def ref_record(fcp):
    structs = []
    for s in fcp.structs:
        fields = list(s.fields)
        fields.sort(key=lambda f: f.field_id)
        structs.append(
            {
                "name": s.name,
                "fields": [
                    {
                        "name": f.name,
                        "field_id": f.field_id,
                        "type": ref_type_chain(f.type),
                        "unit": f.unit,
                        "min_value": f.min_value,
                        "max_value": f.max_value,
                        "meta": ref_meta(f.meta),
                    }
                    for f in fields
                ],
                "meta": ref_meta(s.meta),
            }
        )
    enums = [
        {
            "name": e.name,
            "enumeration": [
                {"name": x.name, "value": x.value, "meta": ref_meta(x.meta)}
                for x in e.enumeration
            ],
            "meta": ref_meta(e.meta),
        }
        for e in fcp.enums
    ]
    impls = [
        {
            "name": i.name,
            "protocol": i.protocol,
            "type": i.type,
            "fields": [{"name": k, "value": str(v)} for k, v in i.fields.items()],
            "signals": [
                {
                    "name": sb.name,
                    "fields": [
                        {"name": k, "value": str(v)} for k, v in sb.fields.items()
                    ],
                    "meta": ref_meta(sb.meta),
                }
                for sb in i.signals
            ],
            "meta": ref_meta(i.meta),
        }
        for i in fcp.impls
    ]
    services = [
        {
            "name": s.name,
            "id": s.id,
            "methods": [
                {
                    "name": m.name,
                    "id": m.id,
                    "input": m.input,
                    "output": m.output,
                    "meta": ref_meta(m.meta),
                }
                for m in s.methods
            ],
            "meta": ref_meta(s.meta),
        }
        for s in fcp.services
    ]
    major, minor = fcp.version.split(".")
    return {
        "tag": [ord("f"), ord("c"), ord("p")],
        "version": 1000 * int(major) + int(minor),
        "structs": structs,
        "enums": enums,
        "impls": impls,
        "services": services,
    }


# --------------------------------------------------------------------------
# 3/4. independent reference codec for the reflection schema
# --------------------------------------------------------------------------


class RefWriter:
    def __init__(self):
        self.bits = []

    def word(self, value, nbits):
        for i in range(nbits):
            self.bits.append((value >> i) & 1)

    def u(self, value, nbits):
        self.word(value, nbits)

    def string(self, s):
        self.u(len(s), 32)
        for ch in s:
            self.u(ord(ch), 8)

    def f64(self, v):
        for b in pystruct.pack("d", v):
            self.u(b, 8)

    def bytes(self):
        out = bytearray((len(self.bits) + 7) // 8)
        for i, b in enumerate(self.bits):
            out[i >> 3] |= b << (i & 7)
        return out


def ref_enc_meta(w, m):
    if m is None:
        w.u(0, 8)
        return
    w.u(1, 8)
    for k in ("line", "end_line", "column", "end_column", "start_pos", "end_pos"):
        w.word(m[k], 32)
    w.string(m["filename"])


def ref_enc_dictfields(w, fields):
    w.u(len(fields), 32)
    for f in fields:
        w.string(f["name"])
        w.string(f["value"])


def ref_encode(rec):
    w = RefWriter()
    for b in rec["tag"][:3]:
        w.u(b, 8)
    w.u(rec["version"], 16)
    w.u(len(rec["structs"]), 32)
    for s in rec["structs"]:
        w.string(s["name"])
        w.u(len(s["fields"]), 32)
        for f in s["fields"]:
            w.string(f["name"])
            w.u(f["field_id"], 32)
            w.u(len(f["type"]), 32)
            for t in f["type"]:
                w.string(t["name"])
                w.u(t["size"], 32)
                w.string(t["type"])
            if f["unit"] is None:
                w.u(0, 8)
            else:
                w.u(1, 8)
                w.string(f["unit"])
            for k in ("min_value", "max_value"):
                if f[k] is None:
                    w.u(0, 8)
                else:
                    w.u(1, 8)
                    w.f64(f[k])
            ref_enc_meta(w, f["meta"])
        ref_enc_meta(w, s["meta"])
    w.u(len(rec["enums"]), 32)
    for e in rec["enums"]:
        w.string(e["name"])
        w.u(len(e["enumeration"]), 32)
        for x in e["enumeration"]:
            w.string(x["name"])
            w.word(x["value"], 32)
            ref_enc_meta(w, x["meta"])
        ref_enc_meta(w, e["meta"])
    w.u(len(rec["impls"]), 32)
    for i in rec["impls"]:
        w.string(i["name"])
        w.string(i["protocol"])
        w.string(i["type"])
        ref_enc_dictfields(w, i["fields"])
        w.u(len(i["signals"]), 32)
        for sb in i["signals"]:
            w.string(sb["name"])
            ref_enc_dictfields(w, sb["fields"])
            ref_enc_meta(w, sb["meta"])
        ref_enc_meta(w, i["meta"])
    w.u(len(rec["services"]), 32)
    for s in rec["services"]:
        w.string(s["name"])
        w.u(s["id"], 32)
        w.u(len(s["methods"]), 32)
        for m in s["methods"]:
            w.string(m["name"])
            w.u(m["id"], 32)
            w.string(m["input"])
            w.string(m["output"])
            ref_enc_meta(w, m["meta"])
        ref_enc_meta(w, s["meta"])
    return w.bytes()


class RefReader:
    def __init__(self, data):
        self.data = bytes(data)
        self.pos = 0

    def u(self, nbits):
        v = 0
        for i in range(nbits):
            byte = self.data[(self.pos + i) >> 3]
            v |= ((byte >> ((self.pos + i) & 7)) & 1) << i
        self.pos += nbits
        return v

    def i32(self):
        v = self.u(32)
        return v - (1 << 32) if v > (1 << 31) else v

    def string(self):
        n = self.u(32)
        return "".join(chr(self.u(8)) for _ in range(n))

    def f64(self):
        return pystruct.unpack("d", bytes(self.u(8) for _ in range(8)))[0]


def ref_dec_meta(r):
    if r.u(8) == 0:
        return None
    m = {}
    for k in ("line", "end_line", "column", "end_column", "start_pos", "end_pos"):
        m[k] = r.i32()
    m["filename"] = r.string()
    return m


def ref_dec_dictfields(r):
    return [{"name": r.string(), "value": r.string()} for _ in range(r.u(32))]


def ref_decode(data):
    r = RefReader(data)
    rec = {"tag": [r.u(8), r.u(8), r.u(8)], "version": r.u(16)}
    structs = []
    for _ in range(r.u(32)):
        s = {"name": r.string(), "fields": []}
        for _ in range(r.u(32)):
            f = {"name": r.string(), "field_id": r.u(32), "type": []}
            for _ in range(r.u(32)):
                name = r.string()
                size = r.u(32)
                typ = r.string()
                f["type"].append({"name": name, "size": size, "type": typ})
            f["unit"] = r.string() if r.u(8) else None
            f["min_value"] = r.f64() if r.u(8) else None
            f["max_value"] = r.f64() if r.u(8) else None
            f["meta"] = ref_dec_meta(r)
            s["fields"].append(f)
        s["meta"] = ref_dec_meta(r)
        structs.append(s)
    rec["structs"] = structs
    enums = []
    for _ in range(r.u(32)):
        e = {"name": r.string(), "enumeration": []}
        for _ in range(r.u(32)):
            e["enumeration"].append(
                {"name": r.string(), "value": r.i32(), "meta": ref_dec_meta(r)}
            )
        e["meta"] = ref_dec_meta(r)
        enums.append(e)
    rec["enums"] = enums
    impls = []
    for _ in range(r.u(32)):
        i = {"name": r.string(), "protocol": r.string(), "type": r.string()}
        i["fields"] = ref_dec_dictfields(r)
        i["signals"] = []
        for _ in range(r.u(32)):
            sb = {"name": r.string(), "fields": ref_dec_dictfields(r)}
            sb["meta"] = ref_dec_meta(r)
            i["signals"].append(sb)
        i["meta"] = ref_dec_meta(r)
        impls.append(i)
    rec["impls"] = impls
    services = []
    for _ in range(r.u(32)):
        s = {"name": r.string(), "id": r.u(32), "methods": []}
        for _ in range(r.u(32)):
            m = {
                "name": r.string(),
                "id": r.u(32),
                "input": r.string(),
                "output": r.string(),
            }
            m["meta"] = ref_dec_meta(r)
            s["methods"].append(m)
        s["meta"] = ref_dec_meta(r)
        services.append(s)
    rec["services"] = services
    check(r.pos == 8 * len(data), "reference decoder consumed every byte")
    return rec


# --------------------------------------------------------------------------
# driver
# --------------------------------------------------------------------------


def strip_meta(x):
    if isinstance(x, dict):
        return {k: strip_meta(v) for k, v in x.items() if k != "meta"}
    if isinstance(x, list):
        return [strip_meta(v) for v in x]
    return x


def no_shared_containers(a, b, path="rec"):
    """Two records from two calls must not share mutable containers."""
    if isinstance(a, (dict, list)):
        check(a is not b, f"{path}: container shared between two reflection() calls")
    if isinstance(a, dict):
        for k in a:
            no_shared_containers(a[k], b[k], path + "." + str(k))
    elif isinstance(a, list):
        for i, (x, y) in enumerate(zip(a, b)):
            no_shared_containers(x, y, path + f"[{i}]")


def roundtrip(refl_schema, fcp, label):
    rec = fcp.reflection()
    expected = ref_record(fcp)
    check(rec == expected, f"{label}: reflection() differs from independent walk")
    check(
        list(rec.keys()) == ["tag", "version", "structs", "enums", "impls", "services"],
        f"{label}: record key order",
    )
    rec2 = fcp.reflection()
    check(rec2 == rec, f"{label}: second reflection() call differs")
    no_shared_containers(rec, rec2)

    data = encode(refl_schema, "Fcp", rec)
    check(isinstance(data, bytearray), f"{label}: encode returns bytearray")
    want = ref_encode(expected)
    check(bytes(data) == bytes(want), f"{label}: bytes differ from reference encoder")
    check(
        bytes(encode(refl_schema, "Fcp", rec)) == bytes(data),
        f"{label}: encode not repeatable",
    )
    check(rec == expected, f"{label}: encode mutated the record")

    back = decode(refl_schema, "Fcp", data)
    check(back == rec, f"{label}: decode(encode(record)) != record")
    check(ref_decode(data) == rec, f"{label}: reference decoder disagrees")
    check(decode(refl_schema, "Fcp", bytearray(data)) == back, f"{label}: decode repeatable")
    check(decode(refl_schema, "Fcp", bytes(data)) == back, f"{label}: decode of bytes")

    # a second trip through the codec is a fixed point
    check(
        bytes(encode(refl_schema, "Fcp", back)) == bytes(data),
        f"{label}: re-encoding decoded record changes bytes",
    )
    return rec, data


def main(extra=None):
    refl_schema = get_reflection_schema().unwrap()
    check(isinstance(refl_schema, FcpV2), "reflection schema is an FcpV2")

    records = {}
    for label, source in SCHEMAS.items():
        fcp = load(source)
        records[label] = roundtrip(refl_schema, fcp, label) + (fcp,)

    # ---- 2. values are the ones in the source --------------------------
    rec = strip_meta(records["units_ranges"][0])
    f = {x["name"]: x for x in rec["structs"][0]["fields"]}
    check(f["speed"]["unit"] == "m/s" and f["speed"]["min_value"] == -12.5, "speed")
    check(f["speed"]["max_value"] == 250.75, "speed max")
    check(f["temp"]["unit"] == "C" and f["temp"]["min_value"] is None, "temp")
    check(f["level"]["unit"] is None and f["level"]["max_value"] == 100.0, "level")
    check(f["tiny"]["min_value"] == -1e-300 and f["tiny"]["max_value"] == 1e300, "tiny")
    check(f["tiny"]["unit"] == "V", "tiny unit")
    check(f["plain"] == {"name": "plain", "field_id": 4,
                         "type": [{"name": "u3", "type": "unsigned", "size": 1}],
                         "unit": None, "min_value": None, "max_value": None}, "plain")
    check(f["neg"]["min_value"] == -128.0 and f["neg"]["max_value"] == -0.5, "neg")

    rec = strip_meta(records["out_of_order_ids"][0])
    check([x["name"] for x in rec["structs"][0]["fields"]] == ["first", "second", "mid", "last"],
          "fields sorted by id")
    check([x["field_id"] for x in rec["structs"][0]["fields"]] == [0, 1, 3, 7], "ids")

    rec = strip_meta(records["nesting"][0])
    outer = {x["name"]: x["type"] for x in rec["structs"][1]["fields"]}
    A = lambda n: {"name": "Array", "type": "Array", "size": n}  # noqa
    D = {"name": "DynamicArray", "type": "DynamicArray", "size": 1}
    O = {"name": "Optional", "type": "Optional", "size": 1}  # noqa
    U8 = {"name": "u8", "type": "unsigned", "size": 1}
    check(outer["a"] == [A(3), U8], "a")
    check(outer["b"] == [D, U8], "b")
    check(outer["c"] == [O, U8], "c")
    check(outer["d"] == [A(5), A(2), U8], "d")
    check(outer["e"] == [D, D, U8], "e")
    check(outer["f"] == [O, A(7), U8], "f")
    check(outer["g"] == [D, O, {"name": "i12", "type": "signed", "size": 1}], "g")
    check(outer["h"] == [A(3), A(2), A(1), {"name": "f32", "type": "float", "size": 1}], "h")
    check(outer["i"] == [O, D, O, D, {"name": "str", "type": "str", "size": 1}], "i")
    check(outer["j"] == [{"name": "Inner", "type": "Struct", "size": 1}], "j")
    check(outer["k"] == [A(2), {"name": "Inner", "type": "Struct", "size": 1}], "k")
    check(outer["m"] == [O, {"name": "Inner", "type": "Struct", "size": 1}], "m")
    check(outer["n"] == [{"name": "Colour", "type": "Enum", "size": 1}], "n")
    check(outer["p"] == [O, A(4), D, {"name": "Colour", "type": "Enum", "size": 1}], "p")
    check(outer["q"] == [D] * 8 + [{"name": "u1", "type": "unsigned", "size": 1}], "q")
    check(outer["r"] == [A(13), O, A(12), O, A(11),
                         {"name": "f64", "type": "double", "size": 1}], "r")
    check(outer["t"] == [A(1), {"name": "str", "type": "str", "size": 1}], "t")
    check(rec["enums"][0]["enumeration"] == [
        {"name": "Red", "value": 0}, {"name": "Green", "value": 1},
        {"name": "Blue", "value": 2}, {"name": "Max", "value": 255}], "enumerators")

    rec = strip_meta(records["impls_signals"][0])
    by_name = {}
    for i in rec["impls"]:
        by_name.setdefault((i["name"], i["protocol"]), i)
    check(set(by_name) == {("Frame", "default"), ("Other", "default"), ("Frame", "can"),
                           ("FrameAlt", "can"), ("Other", "udp")}, "impl list")
    can = by_name[("Frame", "can")]
    check(can["type"] == "Frame", "impl type")
    check(can["fields"] == [
        {"name": "id", "value": "100"}, {"name": "bus", "value": "main"},
        {"name": "period", "value": "0.5"}, {"name": "tags", "value": "[1, 2, 3]"},
        {"name": "mode", "value": "fast"}], "impl fields")
    check(can["signals"] == [
        {"name": "a", "fields": [
            {"name": "mux_count", "value": "16"}, {"name": "mux", "value": "b"},
            {"name": "scale", "value": "0.25"}, {"name": "endianness", "value": "big"}]},
        {"name": "b", "fields": [{"name": "bitstart", "value": "8"}]}], "signal blocks")
    alt = by_name[("FrameAlt", "can")]
    check(alt["fields"] == [
        {"name": "id", "value": "101"}, {"name": "neg", "value": "-7"},
        {"name": "nested", "value": "[[1, 2], ['x', 'y']]"}], "alt fields")
    check(alt["signals"] == [{"name": "c", "fields": [{"name": "offset", "value": "-1.5"}]}],
          "alt signals")
    check(by_name[("Frame", "default")] == {"name": "Frame", "protocol": "default",
                                            "type": "Frame", "fields": [], "signals": []},
          "default impl")

    rec = strip_meta(records["services"][0])
    check(rec["services"] == [
        {"name": "Ctl", "id": 0, "methods": [
            {"name": "Get", "id": 0, "input": "Req", "output": "Resp"},
            {"name": "Set", "id": 1, "input": "Resp", "output": "Req"}]},
        {"name": "Aux", "id": 7, "methods": [
            {"name": "Ping", "id": 5, "input": "Req", "output": "Req"}]}], "services")
    check(rec["version"] == 3000 and rec["tag"] == [0x66, 0x63, 0x70], "tag/version")
    check(encode_version("3.0") == 3000 and encode_version("12.34") == 12034, "encode_version")

    rec = strip_meta(records["enum_values"][0])
    check([x["value"] for x in rec["enums"][0]["enumeration"]] ==
          [-5, 0, 2147483647, -2147483647], "wide enum values")

    # metadata is present for parsed nodes and survives the trip
    rec = records["comments_layout"][0]
    m = rec["structs"][0]["meta"]
    check(m is not None and m["line"] == 3 and m["filename"] == "main.fcp", "struct meta")
    check(rec["structs"][0]["fields"][0]["meta"]["line"] == 4, "field meta line")
    check(rec["structs"][0]["fields"][0]["unit"] == "a b c", "unit with spaces")

    # ---- hand-built ASTs: nodes without metadata, odd shapes ------------
    hand = FcpV2(
        structs=[
            Struct(
                name="H",
                fields=[
                    StructField("z", 9, T.OptionalType(T.ArrayType(T.DynamicArrayType(
                        T.StructType("H2")), 0)), unit="", min_value=0.0, max_value=-0.0),
                    StructField("y", 2, T.ArrayType(T.ArrayType(T.EnumType("E"), 4294967295), 1)),
                    StructField("x", 4294967295, T.DoubleType(), unit="x" * 300,
                                min_value=float("-inf"), max_value=float("inf")),
                ],
            ),
            Struct(name="H2", fields=[StructField("only", 0, T.StringType())]),
        ],
        enums=[Enum("E", [Enumeration("a", 0), Enumeration("b", -1), Enumeration("c", 7)])],
        impls=[
            Impl("H", "p", "H", {"k": None, "l": [1, "a"], "m": {"n": 1}, "o": 1.0, "": ""},
                 [SignalBlock("sig", {}, MetaData(1, 2, 3, 4, 5, 6, "f.fcp")),
                  SignalBlock("sig2", {"a": True, "b": b"x"}, MetaData(0, 0, 0, 0, 0, 0, ""))]),
            Impl("H3", "", "", {}, []),
        ],
        services=[Service("S", 4294967295, [Method("m", 0, "H", "H2", None)]),
                  Service("Empty", 0, [])],
        version="3.7",
    )
    hand.impls[0].signals[1].meta = None  # type: ignore  # not constructible, but handled
    rec, data = roundtrip(refl_schema, hand, "hand-built")
    check(rec["version"] == 3007, "hand version")
    check(rec["structs"][0]["meta"] is None, "no meta -> None")
    check([f["name"] for f in rec["structs"][0]["fields"]] == ["y", "z", "x"], "hand order")
    check(rec["structs"][0]["fields"][1]["type"] == [
        {"name": "Optional", "type": "Optional", "size": 1},
        {"name": "Array", "type": "Array", "size": 0},
        {"name": "DynamicArray", "type": "DynamicArray", "size": 1},
        {"name": "H2", "type": "Struct", "size": 1}], "hand chain")
    check(rec["structs"][0]["fields"][0]["type"][1]["size"] == 4294967295, "u32 max size")
    check(rec["impls"][0]["fields"] == [
        {"name": "k", "value": "None"}, {"name": "l", "value": "[1, 'a']"},
        {"name": "m", "value": "{'n': 1}"}, {"name": "o", "value": "1.0"},
        {"name": "", "value": ""}], "hand impl fields")
    check(rec["impls"][0]["signals"][0]["meta"] == {
        "line": 1, "end_line": 2, "column": 3, "end_column": 4, "start_pos": 5,
        "end_pos": 6, "filename": "f.fcp"}, "hand signal meta")
    check(rec["impls"][0]["signals"][1] == {"name": "sig2", "fields": [
        {"name": "a", "value": "True"}, {"name": "b", "value": "b'x'"}], "meta": None},
        "hand signal 2")

    empty = FcpV2()
    rec, data = roundtrip(refl_schema, empty, "empty")
    check(bytes(data) == b"fcp" + (3000).to_bytes(2, "little") + b"\0" * 16, "empty bytes")

    # NaN range survives (compare bit patterns: nan != nan)
    nan_fcp = FcpV2(structs=[Struct(name="N", fields=[
        StructField("n", 0, T.FloatType(), min_value=float("nan"), max_value=5e-324)])])
    rec = nan_fcp.reflection()
    data = encode(refl_schema, "Fcp", rec)
    check(bytes(data) == bytes(ref_encode(rec)), "nan bytes")
    back = decode(refl_schema, "Fcp", data)
    bf = back["structs"][0]["fields"][0]
    check(bf["min_value"] != bf["min_value"] and bf["max_value"] == 5e-324, "nan/denormal")
    check(bytes(encode(refl_schema, "Fcp", back)) == bytes(data), "nan fixed point")

    # every type class on its own: fresh lists/dicts on every call
    leaves = [T.UnsignedType("u5"), T.SignedType("i64"), T.FloatType(), T.DoubleType(),
              T.StringType(), T.EnumType("E"), T.StructType("S")]
    for leaf in leaves:
        r1, r2 = leaf.reflection(), leaf.reflection()
        check(r1 == ref_type_chain(leaf) and len(r1) == 1, f"leaf {leaf}")
        check(r1 is not r2 and r1[0] is not r2[0], "leaf fresh")
        check(list(r1[0].keys()) == ["name", "type", "size"], "leaf key order")
        for wrap in (lambda t: T.ArrayType(t, 6), T.DynamicArrayType, T.OptionalType):
            w = wrap(leaf)
            ww = T.OptionalType(T.ArrayType(T.DynamicArrayType(w), 2))
            for t in (w, ww):
                r1, r2 = t.reflection(), t.reflection()
                check(r1 == ref_type_chain(t), f"wrapped {t}")
                check(r1 == r2 and r1 is not r2, "wrapped repeat")
                check(all(a is not b for a, b in zip(r1, r2)), "wrapped fresh dicts")
                check(all(list(d.keys()) == ["name", "type", "size"] for d in r1), "key order")
                check(type(r1) is list, "list type")
    # mutation of the type tree is seen by the next call (nothing cached)
    arr = T.ArrayType(T.UnsignedType("u8"), 3)
    opt = T.OptionalType(arr)
    check(opt.reflection()[1]["size"] == 3, "before mutation")
    arr.size = 4
    check(opt.reflection()[1]["size"] == 4, "after size mutation")
    arr.underlying_type = T.DynamicArrayType(T.StringType())
    check([d["name"] for d in opt.reflection()] == ["Optional", "Array", "DynamicArray", "str"],
          "after subtree mutation")
    deep = T.UnsignedType("u8")
    for i in range(400):
        deep = T.OptionalType(deep) if i % 2 else T.ArrayType(deep, i)
    check(deep.reflection() == ref_type_chain(deep) and len(deep.reflection()) == 401, "deep")

    # ---- 6. error inputs ---------------------------------------------
    expect_raises(ValueError, "Don't use Type directly", lambda: T.Type().reflection(), "abstract")
    expect_raises(ValueError, "Don't use Type directly",
                  lambda: T.ArrayType(T.OptionalType(T.Type()), 2).reflection(), "abstract nested")
    expect_raises(ValueError, "Don't use Type directly",
                  lambda: T.DynamicArrayType(T.Type()).reflection(), "abstract in dyn")
    expect_raises(ValueError, "Don't use Type directly", lambda: T.Type().get_length(), "len")

    rec, data = records["impls_signals"][0], records["impls_signals"][1]
    for cut in sorted({0, 1, 2, 3, 4, 5, 8, 9, 12, 13, len(data) // 3, len(data) // 2,
                       len(data) - 9, len(data) - 2, len(data) - 1}):
        expect_raises(ValueError, "buffer overrrun",
                      lambda: decode(refl_schema, "Fcp", data[:cut]), f"truncated at {cut}")
    # trailing bytes are ignored
    check(decode(refl_schema, "Fcp", data + bytearray(b"\xff\x00\x01")) == rec, "trailing")
    # huge declared lengths: string, then list
    head = b"fcp" + (3000).to_bytes(2, "little")
    for n in (1, 2, 255, 2**31, 2**32 - 1):
        bad = head + (1).to_bytes(4, "little") + n.to_bytes(4, "little")
        expect_raises(ValueError, "buffer overrrun",
                      lambda: decode(refl_schema, "Fcp", bytearray(bad)), f"string len {n}")
        bad = head + n.to_bytes(4, "little")
        expect_raises(ValueError, "buffer overrrun",
                      lambda: decode(refl_schema, "Fcp", bytearray(bad)), f"list len {n}")
    # declared string length exactly reaching / one past the end of the buffer
    tail = head + (1).to_bytes(4, "little") + (4).to_bytes(4, "little")
    expect_raises(ValueError, "buffer overrrun",
                  lambda: decode(refl_schema, "Fcp", bytearray(tail + b"abc")), "str one short")
    expect_raises(ValueError, "buffer overrrun",
                  lambda: decode(refl_schema, "Fcp", bytearray(tail + b"abcd")), "str exact, next missing")
    # non-ascii byte inside a string
    good = bytearray(records["minimal"][1])
    idx = bytes(good).index(b"A")
    good[idx] = 0xC3
    expect_raises(UnicodeDecodeError, None, lambda: decode(refl_schema, "Fcp", good), "non-ascii")
    # strings directly against small schemas, at unaligned bit offsets
    small = load("""version: "3"
struct S {
    a @0: u3,
    s @1: str,
    b @2: u5,
    t @3: Optional[str],
    e @4: [str],
}
""")
    for a, s, b, t, e in [(0, "", 0, None, []), (7, "hello", 31, "", [""]),
                          (5, "x" * 1000, 1, "yz", ["a", "", "bcd" * 50]),
                          (1, "\x00\x7f", 17, "\x01", ["\x7f" * 3])]:
        v = {"a": a, "s": s, "b": b, "t": t, "e": e}
        enc = encode(small, "S", v)
        check(decode(small, "S", enc) == v, f"small roundtrip {a}")
        nbits = 3 + 32 + 8 * len(s) + 5 + 8 + (32 + 8 * len(t) if t is not None else 0) \
            + 32 + sum(32 + 8 * len(x) for x in e)
        check(len(enc) == (nbits + 7) // 8, "small encoded size is ceil(bits/8)")
        for cut in range(0, len(enc), max(1, len(enc) // 17)):
            expect_raises(ValueError, "buffer overrrun",
                          lambda: decode(small, "S", enc[:cut]), f"small cut {cut}")
    # string length field says 3 but only 2 bytes + 7 bits are left, etc.
    raw = RefWriter()
    raw.u(5, 3)
    raw.u(3, 32)
    for ch in "abc":
        raw.u(ord(ch), 8)
    b_ok = raw.bytes()  # 3+32+24 = 59 bits -> 8 bytes; field b (5 bits) fits exactly
    expect_raises(ValueError, "buffer overrrun", lambda: decode(small, "S", b_ok), "small: after b")
    expect_raises(ValueError, "buffer overrrun", lambda: decode(small, "S", b_ok[:7]), "small: in s")

    # unaligned floats / doubles / signed / enums / zero-width words: bytes are
    # compared with a hand-laid-out reference, sizes are ceil(bits/8)
    mixed = load("""version: "3"
enum M {
    A = 0,
    B = 5,
}
struct X {
    p @0: u3,
    f @1: f32,
    z @2: u0,
    d @3: f64,
    s @4: i7,
    m @5: M,
    arr @6: [i5, 3],
    tail @7: Optional[f32],
    q @8: u1,
}
""")
    for p_, f_, d_, s_, m_, arr_, tail_, q_ in [
        (0, 0.0, 0.0, 0, 0, [0, 0, 0], None, 0),
        (7, 1.5, -2.25, -1, 5, [-15, 15, -1], 3.5, 1),
        (5, -0.0, 1e308, -63, 3, [1, 2, 3], -1e-30, 0),
        (2, 3.4028234663852886e38, 5e-324, 63, 7, [7, -8, 0], None, 1),
    ]:
        v = {"p": p_, "f": f_, "z": 0, "d": d_, "s": s_, "m": m_, "arr": arr_,
             "tail": tail_, "q": q_}
        w = RefWriter()
        w.u(p_, 3)
        for byte in pystruct.pack("f", f_):
            w.u(byte, 8)
        w.f64(d_)
        w.word(s_, 7)
        w.u(m_, 3)
        for a_ in arr_:
            w.word(a_, 5)
        if tail_ is None:
            w.u(0, 8)
        else:
            w.u(1, 8)
            for byte in pystruct.pack("f", tail_):
                w.u(byte, 8)
        w.u(q_, 1)
        enc = encode(mixed, "X", v)
        check(bytes(enc) == bytes(w.bytes()), f"mixed bytes {p_}")
        check(len(enc) == (len(w.bits) + 7) // 8, "mixed size")
        back = decode(mixed, "X", enc)
        f32 = lambda x: None if x is None else pystruct.unpack("f", pystruct.pack("f", x))[0]  # noqa
        check(back == {**v, "f": f32(f_), "tail": f32(tail_)}, f"mixed roundtrip {p_}")
        check(bytes(encode(mixed, "X", back)) == bytes(enc), "mixed fixed point")
        for cut in range(len(enc)):
            expect_raises(ValueError, "buffer overrrun",
                          lambda: decode(mixed, "X", enc[:cut]), f"mixed cut {cut}")
    expect_raises(pystruct.error, None,
                  lambda: encode(mixed, "X", {"p": 1, "f": "1", "z": 0, "d": 0.0, "s": 0,
                                              "m": 0, "arr": [0, 0, 0], "tail": None, "q": 0}),
                  "str for f32")
    expect_raises(IndexError, None,
                  lambda: encode(mixed, "X", {"p": 1, "f": 1.0, "z": 0, "d": 0.0, "s": 0,
                                              "m": 0, "arr": [0, 0], "tail": None, "q": 0}),
                  "short array")
    # the private bit buffer, used the way encode()/decode() use it
    buf = fcp_serde._Buffer()
    check(bytes(buf.get_buffer()) == b"" and buf.bitaddr == 0, "fresh buffer")
    buf.push_word(0, 0)
    check(bytes(buf.get_buffer()) == b"" and buf.bitaddr == 0, "zero-width push on empty")
    buf.push_word(1, 1)
    check(bytes(buf.get_buffer()) == b"\x01" and buf.bitaddr == 1, "1 bit")
    buf.push_word(0, 0)
    check(bytes(buf.get_buffer()) == b"\x01" and buf.bitaddr == 1, "zero-width push unaligned")
    buf.push_word(0x7F, 7)
    check(bytes(buf.get_buffer()) == b"\xff" and buf.bitaddr == 8, "fill byte exactly")
    buf.push_word(0, 0)
    check(bytes(buf.get_buffer()) == b"\xff", "zero-width push at byte boundary adds nothing")
    buf.push_bytes([])
    check(bytes(buf.get_buffer()) == b"\xff", "empty push_bytes adds nothing")
    buf.push_word(-1, 9)
    check(bytes(buf.get_buffer()) == b"\xff\xff\x01" and buf.bitaddr == 17, "9 bits of -1")
    buf.push_bytes([0x1FF, 0, 0x80])
    check(bytes(buf.get_buffer()) == b"\xff\xff\xff\x01\x00\x01" and buf.bitaddr == 41,
          "unaligned push_bytes, low 8 bits only")
    buf.push_word(1 << 70, 71)
    check(len(buf.get_buffer()) == 14 and buf.bitaddr == 112 and buf.get_buffer()[13] == 0x80,
          "wide word")
    buf.bitaddr = 0
    check(buf.read_word(17) == 0x1FFFF and buf.read_bytes(3) == [0xFF, 0, 0x80], "read back")
    buf.bitaddr = 111
    check(buf.read_word(1) == 1, "last bit")
    expect_raises(ValueError, "buffer overrrun", lambda: buf.read_word(1), "one past the end")
    expect_raises(TypeError, None, lambda: fcp_serde._Buffer().push_word("x", 3), "str word")
    expect_raises(TypeError, None, lambda: fcp_serde._Buffer().push_word(None, 3), "None word")

    # wrong value types when encoding a record
    base = records["minimal"][0]

    def mutated(path, value):
        import copy
        r = copy.deepcopy(base)
        cur = r
        for p in path[:-1]:
            cur = cur[p]
        if value is KeyError:
            del cur[path[-1]]
        else:
            cur[path[-1]] = value
        return r

    expect_raises(KeyError, None, lambda: encode(refl_schema, "Fcp", mutated(["version"], KeyError)),
                  "missing key")
    expect_raises(TypeError, None, lambda: encode(refl_schema, "Fcp", mutated(["version"], None)),
                  "None for u16")
    expect_raises(TypeError, None, lambda: encode(refl_schema, "Fcp", mutated(["version"], "3")),
                  "str for u16")
    expect_raises(TypeError, None, lambda: encode(refl_schema, "Fcp", mutated(["version"], 3.0)),
                  "float for u16")
    expect_raises(TypeError, None,
                  lambda: encode(refl_schema, "Fcp", mutated(["structs", 0, "name"], 5)),
                  "int for str")
    expect_raises(TypeError, None,
                  lambda: encode(refl_schema, "Fcp", mutated(["structs", 0, "name"], None)),
                  "None for str")
    expect_raises(TypeError, None,
                  lambda: encode(refl_schema, "Fcp", mutated(["structs", 0, "name"], b"ab")),
                  "bytes for str")
    expect_raises(IndexError, None, lambda: encode(refl_schema, "Fcp", mutated(["tag"], [1, 2])),
                  "short tag")
    expect_raises(pystruct.error, None,
                  lambda: encode(refl_schema, "Fcp",
                                 mutated(["structs", 0, "fields", 0, "min_value"], "x")),
                  "str for f64")
    expect_raises(Exception, None, lambda: encode(refl_schema, "Nope", base), "unknown struct")
    expect_raises(Exception, None, lambda: decode(refl_schema, "Nope", bytearray(4)), "unknown struct d")
    # values wider than the field are truncated the same way as the reference
    wide = mutated(["version"], 0x12345)
    check(bytes(encode(refl_schema, "Fcp", wide)) == bytes(ref_encode(wide)), "wide truncation")
    negv = mutated(["version"], -2)
    check(bytes(encode(refl_schema, "Fcp", negv)) == bytes(ref_encode(negv)), "negative into u16")
    check(decode(refl_schema, "Fcp", encode(refl_schema, "Fcp", negv))["version"] == 0xFFFE, "neg->u16")
    longtag = mutated(["tag"], [1, 2, 3, 4, 5])
    check(bytes(encode(refl_schema, "Fcp", longtag)) == bytes(ref_encode(longtag)), "long tag")

    # ---- repository schemas: everything shipped parses and round-trips ---
    n_repo = 0
    for path in sorted(FCP_ROOT.rglob("*.fcp")):
        if "error" in path.parts or "tree-sitter-fcp" in path.parts:
            continue
        r = get_fcp(str(path))
        if r.is_err():
            continue
        fcp = r.unwrap()
        try:
            rec = fcp.reflection()
            data = encode(refl_schema, "Fcp", rec)
        except (UnicodeError, TypeError):
            continue
        check(rec == ref_record(fcp), f"{path.name}: walk")
        check(bytes(data) == bytes(ref_encode(rec)), f"{path.name}: bytes")
        check(decode(refl_schema, "Fcp", data) == rec, f"{path.name}: roundtrip")
        n_repo += 1
    check(n_repo >= 20, f"only {n_repo} repository schemas exercised")

    # ---- the reflection schema describes itself ------------------------
    self_rec = refl_schema.reflection()
    check(self_rec == ref_record(refl_schema), "self: walk")
    self_bytes = encode(refl_schema, "Fcp", self_rec)
    check(bytes(self_bytes) == bytes(ref_encode(self_rec)), "self: bytes")
    check(decode(refl_schema, "Fcp", self_bytes) == self_rec, "self: roundtrip")
    names = [s["name"] for s in self_rec["structs"]]
    check(names == ["MetaData", "Type", "StructField", "Struct", "Enumeration", "Enum",
                    "DictField", "SignalBlock", "Impl", "Method", "Service", "Fcp"], "self: structs")
    layout = {s["name"]: [(f["name"], f["field_id"], [t["name"] for t in f["type"]])
                          for f in s["fields"]] for s in self_rec["structs"]}
    check(layout["Impl"] == [("name", 0, ["str"]), ("protocol", 1, ["str"]), ("type", 3, ["str"]),
                             ("fields", 4, ["DynamicArray", "DictField"]),
                             ("signals", 5, ["DynamicArray", "SignalBlock"]),
                             ("meta", 6, ["Optional", "MetaData"])], "self: Impl layout")
    check(layout["Fcp"][0] == ("tag", 0, ["Array", "u8"]) and layout["Fcp"][1] ==
          ("version", 1, ["u16"]), "self: Fcp layout")
    check(layout["StructField"][3:6] == [("unit", 3, ["Optional", "str"]),
                                         ("min_value", 4, ["Optional", "f64"]),
                                         ("max_value", 5, ["Optional", "f64"])], "self: field layout")
    # positions of the nodes of the built-in schema (filename is tree dependent)
    def positions(x):
        if isinstance(x, dict):
            out = []
            for k, v in x.items():
                if k == "filename":
                    continue
                out.append((k, positions(v)))
            return out
        if isinstance(x, list):
            return [positions(v) for v in x]
        return x
    digest = hashlib.sha256(repr(positions(self_rec)).encode()).hexdigest()
    check(digest == os.environ.get("C12_SELF_DIGEST", SELF_DIGEST),
          "self: reflection (with node positions) of reflection.fcp changed: " + digest)
    fcp_struct_meta = self_rec["structs"][-1]["meta"]
    check((fcp_struct_meta["line"], fcp_struct_meta["end_line"]) == (82, 89), "self: Fcp lines")
    check(Path(fcp_struct_meta["filename"]).name == "reflection.fcp", "self: filename")
    a, b = get_reflection_schema().unwrap(), get_reflection_schema().unwrap()
    check(a is not b and a.reflection() == b.reflection(), "self: fresh schema per call")

    if extra is not None:
        extra(refl_schema, records)

    print(f"PASS ({CHECKS} checks)")


SELF_DIGEST = "9b5074cd02ba32e0e989e6bb0f18d27138a0103b1ed61a78eaa7b3e3533bc687"

if __name__ == "__main__":
    main()
