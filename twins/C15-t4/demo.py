#!/venv/bin/python
"""C15 differential demo: field ids, not declaration order, fix the wire order.

Every struct of a multi-struct schema is re-declared with its fields permuted
(ids kept).  For every permutation the output of every back end must be equal
to the output obtained from the ascending-id declaration:

  * packed CAN layout (fcp.encoding, arrays rolled and unrolled),
  * generated DBC text (fcp_dbc),
  * generated CAN C sources (fcp_can_c) - text and, compiled with gcc, frame bytes,
  * bytes/decoded dicts of the Python codec (fcp.serde),
  * the describe() picture (fcp.describe / fcp.type_visitor),
  * order of the reflected fields (what the C++ DynamicSchema walks),
  * order of the Encode/Decode statements in the generated C++ (fcp.h.j2) and,
    compiled with g++, the bytes of StaticSchema and DynamicSchema.

and on top of that the back ends must agree with each other (Python codec ==
packed layout == C frame == C++ static == C++ dynamic).

Run with PYTHONPATH pointing at the worktree (src + the plug-ins).  Set
C15_SKIP_NATIVE=1 to skip the gcc/g++ part.
"""

import itertools
import json
import os
import random
import re
import shutil
import subprocess
import sys
import tempfile

from fcp.parser import get_fcp_from_string
from fcp.encoding import make_encoder, PackedEncoderContext
from fcp.serde import encode, decode
from fcp.describe import describe, flatten, DescribeVisitor
from fcp.specs.type import StructType
from fcp.reflection import get_reflection_schema
from fcp_dbc.dbc_writer import write_dbc
import fcp_can_c
import fcp_cpp

JSON_INCLUDE = os.environ.get("JSON_INCLUDE", "/root/miniconda/include")

# --------------------------------------------------------------------------
# schema description: struct -> [(field name, id, type, suffix)] in ascending id
# --------------------------------------------------------------------------
PRELUDE = 'version: "3"\n\nenum E {\n    A = 0,\n    B = 1,\n    C = 5,\n}\n\n'

STRUCTS = {
    "Inner": [("x", 0, "u3", ""), ("y", 1, "i5", "")],
    "Foo": [
        ("a", 0, "u13", ' | unit("V")'),
        ("b", 1, "[i7, 2]", ""),
        ("c", 2, "E", ""),
        ("d", 3, "Inner", ""),
        ("e", 4, "u10", ""),
    ],
    "Mid": [("a", 0, "u5", ""), ("inn", 1, "Inner", ""), ("z", 2, "i9", "")],
    "Deep": [("h", 0, "u1", ""), ("i", 1, "Mid", ""), ("t", 2, "u2", "")],
    "Sparse": [
        ("d", 0, "u4", ""),
        ("b", 2, "u16", ""),
        ("a", 7, "u8", ""),
        ("c", 40, "i8", ""),
    ],
    "Big": [("p", 0, "u16", ""), ("q", 1, "u8", ""), ("r", 2, "i16", "")],
    "Flt": [("f", 0, "f32", ""), ("n", 1, "u7", ""), ("m", 2, "i25", "")],
    "Wide": [
        ("s", 0, "str", ""),
        ("o", 1, "Optional[u16]", ""),
        ("v", 2, "[u8]", ""),
        ("f", 3, "f32", ""),
        ("g", 4, "f64", ""),
        ("n", 5, "Inner", ""),
        ("m", 6, "[Inner, 2]", ""),
        ("k", 7, "i64", ""),
        ("e", 8, "E", ""),
        ("u", 9, "u64", ""),
    ],
    "Lone": [("only", 3, "u24", "")],
    "Al": [
        ("s", 0, "str", ""),
        ("o", 1, "Optional[u16]", ""),
        ("v", 2, "[u8]", ""),
        ("f", 3, "f32", ""),
        ("g", 4, "f64", ""),
        ("n", 5, "Big", ""),
        ("m", 6, "[u16, 2]", ""),
        ("k", 7, "i64", ""),
        ("u", 9, "u64", ""),
        ("w", 12, "[Big]", ""),
    ],
}

IMPLS = """
impl can for Foo {
    id: 10,
    device: "ecu",
}

impl can for Deep {
    id: 11,
    device: "ecu",
}

impl can for Sparse {
    id: 12,
    device: "other",
    bus: "bus2",
}

impl can for Big {
    id: 13,
    device: "other",
    endianess: "big",
}

impl can for Flt {
    id: 14,
    device: "muxdev",
    signal m {
        mux_count: 4,
        mux_signal: "n",
    },
}

impl can for Lone {
    id: 15,
}
"""

ORDER = ["Inner", "Foo", "Mid", "Deep", "Sparse", "Big", "Flt", "Wide", "Lone", "Al"]


def build_source(choice):
    """choice: struct name -> permutation (tuple of indices into STRUCTS[name])."""
    out = [PRELUDE]
    for name in ORDER:
        fields = STRUCTS[name]
        perm = choice.get(name, tuple(range(len(fields))))
        out.append("struct %s {\n" % name)
        for i in perm:
            fname, fid, ftype, suffix = fields[i]
            out.append("    %s @ %d: %s%s,\n" % (fname, fid, ftype, suffix))
        out.append("}\n\n")
    out.append(IMPLS)
    return "".join(out)


def identity():
    return {n: tuple(range(len(STRUCTS[n]))) for n in ORDER}


def reversed_all():
    return {n: tuple(reversed(range(len(STRUCTS[n])))) for n in ORDER}


def rotated(k):
    out = {}
    for n in ORDER:
        idx = list(range(len(STRUCTS[n])))
        r = k % len(idx)
        out[n] = tuple(idx[r:] + idx[:r])
    return out


def shuffled(rng):
    out = {}
    for n in ORDER:
        idx = list(range(len(STRUCTS[n])))
        rng.shuffle(idx)
        out[n] = tuple(idx)
    return out


# --------------------------------------------------------------------------
# data samples.  Enum values are written ("E", name, number): the Python codec
# and the static C++ take the number, the dynamic C++ schema takes the name.
# --------------------------------------------------------------------------
def EN(name):
    return ("E", name, {"A": 0, "B": 1, "C": 5}[name])


CASES = [
    ("Inner", {"x": 5, "y": -3}),
    ("Inner", {"x": 0, "y": 15}),
    ("Inner", {"x": 7, "y": -15}),
    ("Foo", {"a": 5000, "b": [-3, 63], "c": EN("C"), "d": {"x": 7, "y": -15}, "e": 1023}),
    ("Foo", {"a": 0, "b": [0, 0], "c": EN("A"), "d": {"x": 0, "y": 0}, "e": 0}),
    ("Foo", {"a": 8191, "b": [-63, 1], "c": EN("B"), "d": {"x": 1, "y": 1}, "e": 512}),
    ("Foo", {"a": 1, "b": [2, 3], "c": EN("C"), "d": {"x": 4, "y": 5}, "e": 6}),
    ("Mid", {"a": 31, "inn": {"x": 2, "y": -1}, "z": -255}),
    ("Mid", {"a": 1, "inn": {"x": 7, "y": 7}, "z": 255}),
    ("Deep", {"h": 1, "i": {"a": 17, "inn": {"x": 3, "y": -7}, "z": 100}, "t": 2}),
    ("Deep", {"h": 0, "i": {"a": 0, "inn": {"x": 0, "y": 0}, "z": -1}, "t": 3}),
    ("Sparse", {"a": 200, "b": 0xBEEF, "c": -100, "d": 9}),
    ("Sparse", {"a": 1, "b": 2, "c": 3, "d": 4}),
    ("Sparse", {"a": 255, "b": 65535, "c": -127, "d": 15}),
    ("Big", {"p": 0x1234, "q": 0x56, "r": -2}),
    ("Flt", {"f": 1.5, "n": 100, "m": -1234567}),
    ("Flt", {"f": -0.25, "n": 0, "m": 16777215}),
    (
        "Wide",
        {
            "s": "hello",
            "o": 513,
            "v": [1, 2, 3],
            "f": 0.5,
            "g": -2.25,
            "n": {"x": 1, "y": 2},
            "m": [{"x": 3, "y": -4}, {"x": 5, "y": 6}],
            "k": -5,
            "e": EN("B"),
            "u": 2**64 - 1,
        },
    ),
    (
        "Wide",
        {
            "s": "",
            "o": None,
            "v": [],
            "f": 0.0,
            "g": 1e300,
            "n": {"x": 0, "y": 0},
            "m": [{"x": 7, "y": 15}, {"x": 0, "y": -15}],
            "k": 2**62,
            "e": EN("C"),
            "u": 0,
        },
    ),
    ("Lone", {"only": 0xABCDEF}),
    (
        "Al",
        {
            "s": "wire",
            "o": 513,
            "v": [1, 2, 3],
            "f": 0.5,
            "g": -2.25,
            "n": {"p": 1, "q": 2, "r": -3},
            "m": [258, 772],
            "k": -5,
            "u": 2**63 + 5,
            "w": [{"p": 9, "q": 8, "r": 7}, {"p": 6, "q": 5, "r": -4}],
        },
    ),
    (
        "Al",
        {
            "s": "",
            "o": None,
            "v": [],
            "f": 0.0,
            "g": 1e300,
            "n": {"p": 65535, "q": 255, "r": -32767},
            "m": [0, 65535],
            "k": 2**62,
            "u": 0,
            "w": [],
        },
    ),
]

# flat field assignment for the generated CAN C structs (hand written on purpose)
C_CASES = [
    ("foo", "Foo", {"a": 5000, "b_0": -3, "b_1": 63, "c": 5, "d_x": 7, "d_y": -15, "e": 1023}, 0),
    ("foo", "Foo", {"a": 8191, "b_0": -63, "b_1": 1, "c": 1, "d_x": 1, "d_y": 1, "e": 512}, 1),
    ("deep", "Deep", {"h": 1, "i_a": 17, "i_inn_x": 3, "i_inn_y": -7, "i_z": 100, "t": 2}, 0),
    ("sparse", "Sparse", {"d": 9, "b": 0xBEEF, "a": 200, "c": -100}, 0),
    ("lone", "Lone", {"only": 0xABCDEF}, 0),
]
C_CASE_PY = {
    ("Foo", 0): CASES[3][1],
    ("Foo", 1): CASES[5][1],
    ("Deep", 0): CASES[9][1],
    ("Sparse", 0): CASES[11][1],
    ("Lone", 0): CASES[19][1],
}
DYNAMIC_OK = {"Big", "Lone", "Al"}
C_DEVICE = {"foo": "ecu", "deep": "ecu", "sparse": "other", "lone": "global"}


def conv(data, mode):
    if isinstance(data, tuple) and len(data) == 3 and data[0] == "E":
        return data[1] if mode == "dynamic" else data[2]
    if isinstance(data, dict):
        return {k: conv(v, mode) for k, v in data.items()}
    if isinstance(data, list):
        return [conv(v, mode) for v in data]
    return data


# --------------------------------------------------------------------------
# outputs of the Python-side back ends
# --------------------------------------------------------------------------
_HEADER_LINE = re.compile(r"^// Generated using fcp .*$", re.M)


def cpp_wire_orders(text):
    """struct name -> (decode order, encode order) as written in a generated fcp.h."""
    orders = {}
    for m in re.finditer(r"^struct (\w+) \{$(.*?)^\};$", text, re.M | re.S):
        name, body = m.group(1), m.group(2)
        if name == "StaticSchema":
            continue
        dec = re.search(r"static \w+ Decode\(Buffer& buffer.*?\n(.*?)return", body, re.S)
        enc = re.search(r"void Encode\(Buffer& buffer.*?\n(.*?)\n    \}", body, re.S)
        dec_order = re.findall(r"auto (\w+) = \w+Type::Decode\(buffer, endianess\);", dec.group(1))
        enc_order = re.findall(r"(\w+)_\.Encode\(buffer, endianess\);", enc.group(1))
        orders[name] = (dec_order, enc_order)
    return orders


def python_outputs(fcp):
    out = {}

    for unroll in (False, True):
        encoder = make_encoder("packed", fcp, PackedEncoderContext().with_unroll_arrays(unroll))
        for impl in fcp.get_matching_impls("can"):
            for rep in range(2):  # the encoder is reused: repeated calls must agree
                layout = [
                    (p.name, repr(p.type), p.bitstart, p.bitlength, p.endianess, p.unit)
                    for p in encoder.generate(impl)
                ]
                key = "layout/%s/unroll=%s" % (impl.name, unroll)
                if rep and out[key] != layout:
                    raise AssertionError("repeated generate() differs for " + key)
                out[key] = layout

    out["dbc"] = write_dbc(fcp).unwrap()

    for i, (name, data) in enumerate(CASES):
        raw = encode(fcp, name, conv(data, "python"))
        out["serde/%d/%s/bytes" % (i, name)] = bytes(raw).hex()
        # json.dumps keeps the key order of the decoded dict
        out["serde/%d/%s/decoded" % (i, name)] = json.dumps(decode(fcp, name, raw))

    for name in ORDER:
        out["describe-flat/" + name] = repr(flatten(DescribeVisitor(fcp).visit(StructType(name))))
        try:
            out["describe/" + name] = describe(fcp, StructType(name))
        except ValueError as e:  # describe() cannot draw str/optional/dynamic arrays
            out["describe/" + name] = "ValueError: %s" % e

    out["reflection-order"] = {
        s["name"]: [(f["name"], f["field_id"]) for f in s["fields"]]
        for s in fcp.reflection()["structs"]
    }

    tmp = tempfile.mkdtemp(prefix="c15-canc-")
    try:
        out["can_c"] = {
            os.path.basename(str(r["path"])): r["contents"]
            for r in fcp_can_c.Generator().generate(fcp, {"output": tmp})
        }
    finally:
        shutil.rmtree(tmp, ignore_errors=True)

    cpp = {
        os.path.basename(str(r["path"])): _HEADER_LINE.sub("", r["contents"])
        for r in fcp_cpp.Generator().generate(fcp, {"output": "/tmp/c15-unused"})
    }
    out["cpp-orders"] = {
        fname: cpp_wire_orders(cpp[fname]) for fname in ("fcp.h", "fcp_can.h", "fcp_default.h")
    }
    # files that do not depend on the user schema's struct bodies must be stable
    for fname in ("dynamic.h", "reflection.h", "buffer.h", "decoders.h"):
        out["cpp-file/" + fname] = cpp[fname]
    return out, cpp


def expected_id_order(name):
    return [f[0] for f in sorted(STRUCTS[name], key=lambda f: f[1])]


def check_internal_agreement(out):
    """The packed layout and the Python codec agree on where every scalar sits."""
    for name in ORDER:
        exp = expected_id_order(name)
        for fname, orders in out["cpp-orders"].items():
            if name in orders:
                dec, enc = orders[name]
                assert dec == exp, ("C++ Decode order", fname, name, dec, exp)
                assert enc == exp, ("C++ Encode order", fname, name, enc, exp)
        assert [f for f, _ in out["reflection-order"][name]] == exp, ("reflection", name)

    # layout vs codec: a one-hot value in each scalar lands at layout.bitstart
    def scalars(name, prefix=""):
        for fname, _, ftype, _ in sorted(STRUCTS[name], key=lambda f: f[1]):
            if ftype in STRUCTS:
                yield from scalars(ftype, prefix + fname + "::")
            else:
                yield prefix + fname

    for impl_name in ("Foo", "Deep", "Sparse", "Lone"):
        layout = out["layout/%s/unroll=True" % impl_name]
        names = [p[0] for p in layout]
        flat = []
        for s in scalars(impl_name):
            if s == "b" and impl_name == "Foo":
                flat += ["b_0", "b_1"]
            else:
                flat.append(s)
        assert names == flat, ("layout order", impl_name, names, flat)
        assert all(
            layout[i][2] + layout[i][3] == layout[i + 1][2] for i in range(len(layout) - 1)
        ), ("layout not contiguous", impl_name)
        assert layout[0][2] == 0


def lsb_probe(fcp):
    """Python codec bit position of every scalar of the CAN structs == packed layout."""
    encoder = make_encoder("packed", fcp, PackedEncoderContext().with_unroll_arrays(True))
    zero = {
        "Foo": {"a": 0, "b": [0, 0], "c": 0, "d": {"x": 0, "y": 0}, "e": 0},
        "Deep": {"h": 0, "i": {"a": 0, "inn": {"x": 0, "y": 0}, "z": 0}, "t": 0},
        "Sparse": {"a": 0, "b": 0, "c": 0, "d": 0},
        "Lone": {"only": 0},
    }

    def set_path(d, path, value):
        d = json.loads(json.dumps(d))
        cur = d
        for p in path[:-1]:
            cur = cur[p]
        cur[path[-1]] = value
        return d

    for impl in fcp.get_matching_impls("can"):
        if impl.name not in zero:
            continue
        for piece in encoder.generate(impl):
            path = []
            for part in piece.name.split("::"):
                m = re.fullmatch(r"(b)_(\d)", part) if impl.name == "Foo" else None
                if m:
                    path += [m.group(1), int(m.group(2))]
                else:
                    path.append(part)
            raw = encode(fcp, impl.name, set_path(zero[impl.name], path, 1))
            value = int.from_bytes(bytes(raw), "little")
            assert value == 1 << piece.bitstart, (impl.name, piece.name, value, piece.bitstart)


# --------------------------------------------------------------------------
# native part: compile the generated C and C++ and compare bytes
# --------------------------------------------------------------------------
CPP_MAIN = r"""
#include "fcp.h"
#include "dynamic.h"
#include <iostream>
#include <fstream>
#include <iomanip>
using json = nlohmann::json;
static std::string hex(const std::vector<std::uint8_t>& v) {
    std::stringstream ss;
    for (auto b : v) ss << std::hex << std::setw(2) << std::setfill('0') << static_cast<int>(b);
    return ss.str();
}
int main(int argc, char** argv) {
    if (argc < 3) return 2;
    std::ifstream f(argv[1]);
    json cases = json::parse(f);
    fcp::StaticSchema st;
    fcp::dynamic::DynamicSchema dy;
    dy.LoadBinarySchemaFromFile(argv[2]);
    for (auto& c : cases) {
        std::string name = c["name"];
        json line;
        line["name"] = name;
        try {
            auto se = st.EncodeJson(name, c["static"]);
            line["static_bytes"] = se ? hex(*se) : "none";
            if (se) { auto sd = st.DecodeJson(name, *se); line["static_decoded"] = sd ? sd->dump() : "none"; }
        } catch (std::exception& e) { line["static_exception"] = e.what(); }
        if (c["use_dynamic"].get<bool>()) {
            try {
                auto de = dy.EncodeJson(name, c["dynamic"]);
                line["dynamic_bytes"] = de ? hex(*de) : "none";
                if (de) { auto dd = dy.DecodeJson(name, *de); line["dynamic_decoded"] = dd ? dd->dump() : "none"; }
            } catch (std::exception& e) { line["dynamic_exception"] = e.what(); }
        }
        std::cout << line.dump() << std::endl;
    }
    return 0;
}
"""


def run(cmd, cwd):
    r = subprocess.run(cmd, cwd=cwd, capture_output=True, text=True)
    if r.returncode != 0:
        raise AssertionError("command failed: %s\n%s\n%s" % (" ".join(cmd), r.stdout[-3000:], r.stderr[-3000:]))
    return r.stdout


def native_cpp(fcp, cpp_files, workdir):
    os.makedirs(workdir)
    gen = fcp_cpp.Generator().generate(fcp, {"output": workdir})
    for r in gen:
        with open(os.path.join(workdir, os.path.basename(str(r["path"]))), "w") as f:
            f.write(r["contents"])
    with open(os.path.join(workdir, "main.cpp"), "w") as f:
        f.write(CPP_MAIN)
    with open(os.path.join(workdir, "output.bin"), "wb") as f:
        f.write(bytes(encode(get_reflection_schema().unwrap(), "Fcp", fcp.reflection())))
    with open(os.path.join(workdir, "cases.json"), "w") as f:
        json.dump(
            [
                {"name": n, "static": conv(d, "static"), "dynamic": conv(d, "dynamic"), "use_dynamic": n in DYNAMIC_OK}
                for n, d in CASES
            ],
            f,
        )
    run(
        ["g++", "--std=c++17", "-O0", "-w", "-isystem", JSON_INCLUDE, "-I.", "main.cpp", "-o", "main"],
        workdir,
    )
    lines = run(["./main", "cases.json", "output.bin"], workdir).strip().splitlines()
    return [json.loads(line) for line in lines]


def native_c(fcp, workdir):
    os.makedirs(workdir)
    srcs = []
    for r in fcp_can_c.Generator().generate(fcp, {"output": workdir}):
        path = os.path.join(workdir, os.path.basename(str(r["path"])))
        with open(path, "w") as f:
            f.write(r["contents"])
        # the multiplexed message lives on its own device, which is not compiled:
        # the generated scheduler for muxed messages does not build (known, unrelated)
        if path.endswith(".c") and not os.path.basename(path).startswith("muxdev"):
            srcs.append(os.path.basename(path))
    main = ['#include <stdio.h>', '#include "can_frame.h"']
    for dev in sorted(set(C_DEVICE.values())):
        main.append('#include "%s_can.h"' % dev)
    main.append("int main(void) {")
    for n, (snake, pascal, fields, idx) in enumerate(C_CASES):
        main.append("  {")
        main.append("    CanMsg%s m = {0};" % pascal)
        for k, v in fields.items():
            main.append("    m.%s = %d;" % (k, v))
        main.append("    CanFrame fr = can_encode_msg_%s(&m);" % snake)
        main.append('    printf("%s %d %%d ", (int)fr.dlc);' % (pascal, idx))
        main.append('    for (int i = 0; i < fr.dlc; i++) printf("%02x", fr.data[i]);')
        main.append("    CanMsg%s d = can_decode_msg_%s(&fr);" % (pascal, snake))
        for k in fields:
            main.append('    printf(" %s=%%lld", (long long)d.%s);' % (k, k))
        main.append('    printf("\\n");')
        main.append("  }")
    main.append("  return 0;")
    main.append("}")
    with open(os.path.join(workdir, "main.c"), "w") as f:
        f.write("\n".join(main) + "\n")
    run(["gcc", "-O0", "-w", "-I.", "main.c"] + srcs + ["-o", "main_c"], workdir)
    return run(["./main_c"], workdir).strip().splitlines()


def check_native(fcp, out, cpp_lines, c_lines, label):
    for i, ((name, _), line) in enumerate(zip(CASES, cpp_lines)):
        py = out["serde/%d/%s/bytes" % (i, name)]
        assert line["name"] == name
        assert line.get("static_bytes") == py, (label, "static C++ vs python", name, line, py)
        if name in DYNAMIC_OK:
            # the dynamic schema byte-aligns every field, so it is only comparable
            # with the packed codecs on structs made of whole-byte scalars
            assert line.get("dynamic_bytes") == py, (label, "dynamic C++ vs python", name, line, py)
            assert line.get("dynamic_decoded") == line.get("static_decoded"), (label, "dynamic decode", name, line)
    assert len(cpp_lines) == len(CASES)

    assert len(c_lines) == len(C_CASES)
    for (snake, pascal, fields, idx), line in zip(C_CASES, c_lines):
        parts = line.split()
        assert parts[0] == pascal and int(parts[1]) == idx
        dlc, hexdata = int(parts[2]), parts[3]
        py = bytes(encode(fcp, pascal, conv(C_CASE_PY[(pascal, idx)], "python"))).hex()
        assert dlc == len(py) // 2, (label, "C dlc", pascal, dlc, py)
        assert hexdata == py, (label, "C frame vs python", pascal, hexdata, py)
        decoded = dict(p.split("=") for p in parts[4:])
        assert {k: int(v) for k, v in decoded.items()} == fields, (label, "C decode", pascal, decoded, fields)


# --------------------------------------------------------------------------
def diff_keys(ref, cur):
    return [k for k in ref if ref[k] != cur.get(k)]


def main():
    import fcp

    print("code under test: %s, %s" % (os.path.dirname(fcp.__file__), os.path.dirname(fcp_cpp.__file__)))
    rng = random.Random(0xC15)
    choices = [("identity", identity()), ("reversed", reversed_all())]
    choices += [("rot%d" % k, rotated(k)) for k in (1, 2, 3)]
    choices += [("rnd%d" % i, shuffled(rng)) for i in range(24)]

    # exhaustive: all orders of the 4-field sparse struct x both orders of Inner,
    # and all orders of Mid x Deep
    for p in itertools.permutations(range(4)):
        for q in itertools.permutations(range(2)):
            c = identity()
            c["Sparse"], c["Inner"] = p, q
            choices.append(("sparse%s-inner%s" % ("".join(map(str, p)), "".join(map(str, q))), c))
    for p in itertools.permutations(range(3)):
        for q in itertools.permutations(range(3)):
            c = reversed_all()
            c["Mid"], c["Deep"] = p, q
            choices.append(("mid%s-deep%s" % ("".join(map(str, p)), "".join(map(str, q))), c))

    ref_fcp = get_fcp_from_string(build_source(identity())).unwrap()
    ref_out, _ = python_outputs(ref_fcp)
    check_internal_agreement(ref_out)
    lsb_probe(ref_fcp)

    failures = 0
    parsed = {}
    for label, choice in choices:
        fcp = get_fcp_from_string(build_source(choice)).unwrap()
        parsed[label] = fcp
        # sanity: the permutation really reached the AST
        for name in ORDER:
            declared = [f.name for f in fcp.get_struct(name).unwrap().fields]
            assert declared == [STRUCTS[name][i][0] for i in choice[name]], (label, name, declared)
        try:
            out, cpp = python_outputs(fcp)
        except Exception as e:  # noqa: BLE001 - a back end choking on a permutation is a failure
            failures += 1
            print("FAIL %s: %s: %s" % (label, type(e).__name__, e))
            continue
        # no back end may reorder the AST in place while producing its output
        for name in ORDER:
            declared = [f.name for f in fcp.get_struct(name).unwrap().fields]
            assert declared == [STRUCTS[name][i][0] for i in choice[name]], (label, name, "AST reordered")
        bad = diff_keys(ref_out, out)
        if bad:
            failures += 1
            print("FAIL %s: differs from ascending-id declaration in %s" % (label, bad[:6]))
            continue
        check_internal_agreement(out)
        lsb_probe(fcp)
        # a second pass over the same AST (no hidden state between calls)
        if len(parsed) > 8:
            continue
        out2, _ = python_outputs(fcp)
        if diff_keys(out, out2):
            failures += 1
            print("FAIL %s: second pass differs %s" % (label, diff_keys(out, out2)[:6]))
    print("python back ends: %d declaration orders checked, %d failures" % (len(choices), failures))

    # an unknown struct is still an error, whatever the order
    for label in ("identity", "reversed"):
        for fn in (lambda f: encode(f, "Nope", {}), lambda f: decode(f, "Nope", bytearray(4))):
            try:
                fn(parsed[label])
            except Exception as e:  # noqa: BLE001
                kind = type(e).__name__
            else:
                kind = None
            assert kind is not None, "encode/decode of unknown struct did not fail"
        try:
            encode(parsed[label], "Inner", {"x": 1})
        except KeyError as e:
            assert e.args == ("y",), e.args
        else:
            raise AssertionError("missing field accepted")
        try:
            decode(parsed[label], "Sparse", bytearray([1, 2]))
        except ValueError:
            pass
        else:
            raise AssertionError("short buffer accepted")

    if os.environ.get("C15_SKIP_NATIVE") != "1":
        work = tempfile.mkdtemp(prefix="c15-native-")
        try:
            native_ref = None
            for label in ("identity", "reversed", "rnd3"):
                fcp = parsed[label]
                out, cpp = python_outputs(fcp)
                cpp_lines = native_cpp(fcp, cpp, os.path.join(work, label + "-cpp"))
                c_lines = native_c(fcp, os.path.join(work, label + "-c"))
                try:
                    check_native(fcp, out, cpp_lines, c_lines, label)
                except AssertionError as e:
                    failures += 1
                    print("FAIL native %s: %s" % (label, e))
                    continue
                if native_ref is None:
                    native_ref = (cpp_lines, c_lines)
                elif native_ref != (cpp_lines, c_lines):
                    failures += 1
                    print("FAIL native %s: output differs from ascending-id declaration" % label)
                print("native back ends (%s): %d C++ cases, %d C cases agree with the Python codec" % (label, len(cpp_lines), len(c_lines)))
        finally:
            shutil.rmtree(work, ignore_errors=True)

    if failures:
        print("FAIL (%d)" % failures)
        return 1
    print("PASS")
    return 0


if __name__ == "__main__":
    sys.exit(main())
