#!/usr/bin/env python
"""C15 differential demo: field ids, not declaration order, fix the wire order.

Focus of this demo: the Python codec (src/fcp/serde.py), cross-checked against
the packed encoder, the type visitor and describe.

The declaration order of the fields of every struct of a schema family is
permuted (ids kept).  For every permutation the bytes produced by
fcp.serde.encode and the values produced by fcp.serde.decode (including the
order of the keys of the decoded dicts) must be those of the reference
declaration order.  Structs are reached many times within one call (arrays of
structs, dynamic arrays of structs, a linked list through Optional), the codec is
called repeatedly, on schemas that are modified between two calls, and on
erroneous inputs.

Run with PYTHONPATH pointing at the worktree, e.g.
  PYTHONPATH=$R/src:$R/plugins/fcp_dbc:$R/plugins/fcp_can_c:$R/plugins/fcp_cpp:$R/plugins/fcp_nop \
      python demo.py
Exits 0 and prints PASS when the property holds.
"""

import itertools
import os
import random
import struct as pystruct
import sys

from fcp.parser import get_fcp_from_string
from fcp.encoding import PackedEncoder, PackedEncoderContext
from fcp.serde import encode, decode
from fcp.describe import describe
from fcp.type_visitor import TypeVisitor
from fcp.specs.type import StructType, OptionalType, UnsignedType, SignedType, ArrayType
from fcp.specs.struct import Struct
from fcp.specs.struct_field import StructField
from fcp.specs.impl import Impl
from fcp.specs.v2 import FcpV2

FAILURES = []


def check(cond, what):
    if not cond:
        FAILURES.append(what)
        print("FAIL:", what)


def outcome(f):
    try:
        return ("ok", f())
    except Exception as e:  # noqa: BLE001
        return (type(e).__name__, str(e))


# --------------------------------------------------------------------------
# schema family (text) : every kind of type the codec knows
# --------------------------------------------------------------------------

ENUMS = """
enum E { A = 0, B = 1, C = 5, }
enum F { X = 0, Y = 1, }
"""

STRUCTS = {
    "P": ["x @0: i4", "y @1: f32", "k @2: E"],
    "Q": ["ps @3: [P, 2]", "u @-1: u1", "tag @8: str"],
    "W": [
        "s @0: str",
        "o @1: Optional[u9]",
        "d @2: [i12]",
        "f @3: f32",
        "g @4: f64",
        "ps @5: [P, 3]",
        "dq @6: [Q]",
        "e @7: F",
        "oo @9: Optional[[u3]]",
        "bit @20: u1",
        "op @21: Optional[P]",
        "last @64: u64",
    ],
    # static only: can be cross-checked against the packed encoder
    "M": ["a @0: u7", "p @1: P", "arr @2: [u4, 3]", "s @4: i13", "grid @5: [[u2, 2], 2]", "g @6: u9"],
}


def make_source(orders):
    out = ['version: "3"', ENUMS]
    for name, decls in STRUCTS.items():
        order = orders.get(name, range(len(decls)))
        out.append("struct %s {" % name)
        for i in order:
            out.append("    %s," % decls[i])
        out.append("}")
    return "\n".join(out)


def parse(orders):
    return get_fcp_from_string(make_source(orders)).unwrap()


def p(x, y, k):
    return dict(x=x, y=y, k=k)


def q(u, tag, ps):
    return dict(ps=ps, u=u, tag=tag)


W_VALUES = [
    dict(s="", o=None, d=[], f=0.0, g=0.0, ps=[p(0, 0.0, 0)] * 3, dq=[], e=0, oo=None,
         bit=0, op=None, last=0),
    dict(s="hi there", o=511, d=[-2047, 2047, -1, 0], f=1.5, g=-2.25,
         ps=[p(-7, 0.5, 5), p(7, -1.0, 1), p(-1, 3.0, 0)],
         dq=[q(1, "a", [p(1, 2.0, 5), p(2, 4.0, 1)]), q(0, "", [p(-3, 8.0, 0), p(4, 16.0, 5)]),
             q(1, "zz", [p(5, -0.5, 1), p(-6, 0.25, 1)])],
         e=1, oo=[1, 2, 7, 0], bit=1, op=p(-5, 1e10, 5), last=2**64 - 1),
    dict(s="x", o=0, d=[5], f=-0.0, g=1e-300, ps=[p(1, 1.0, 1), p(2, 2.0, 5), p(3, 3.0, 0)],
         dq=[q(0, "only", [p(0, 0.0, 0), p(7, 7.0, 5)])], e=0, oo=[], bit=1, op=None, last=2**63),
]

M_VALUES = [
    dict(a=0, p=p(0, 0.0, 0), arr=[0, 0, 0], s=0, grid=[[0, 0], [0, 0]], g=0),
    dict(a=127, p=p(-7, 1.5, 5), arr=[15, 0, 15], s=-4095, grid=[[3, 0], [1, 2]], g=511),
    dict(a=85, p=p(7, -2.0, 1), arr=[1, 2, 4], s=4095, grid=[[1, 1], [2, 3]], g=256),
]


def key_order(value):
    """Order of the keys of all dicts of a decoded value."""
    if isinstance(value, dict):
        return [(k, key_order(v)) for k, v in value.items()]
    if isinstance(value, list):
        return [key_order(v) for v in value]
    return None


class Names(TypeVisitor):
    def struct(self, t, fields, name):
        return [name, fields]

    def enum(self, t, name):
        return name

    unsigned = signed = float = double = string = enum

    def array(self, t, inner, name):
        return [name, t.size, inner]

    def dynamic_array(self, t, inner, name):
        return [name, inner]

    optional = dynamic_array


def lookup(value, path):
    for part in path.split("::"):
        name, *indices = part.split("_")
        value = value[name]
        for i in indices:
            value = value[int(i)]
    return value


def pack_by_layout(fcp, name, value):
    """Bits placed where the packed encoder says, LSB first."""
    impl = Impl(name=name, protocol="can", type=name, fields={}, signals=[])
    pieces = PackedEncoder(fcp, PackedEncoderContext(unroll_arrays=True)).generate(impl)
    word = 0
    total = 0
    for piece in pieces:
        leaf = lookup(value, piece.name)
        if isinstance(leaf, float):
            leaf = int.from_bytes(pystruct.pack("f", leaf), "little")
        word |= (leaf & ((1 << piece.bitlength) - 1)) << piece.bitstart
        total = max(total, piece.bitstart + piece.bitlength)
    return list(word.to_bytes((total + 7) // 8, "little"))


def observe(fcp):
    obs = {"bytes": {}, "keys": {}}
    for name, values in (("W", W_VALUES), ("M", M_VALUES)):
        obs["bytes"][name] = []
        obs["keys"][name] = []
        for v in values:
            b = encode(fcp, name, v)
            check(isinstance(b, bytearray), "encode returns a bytearray")
            check(encode(fcp, name, v) == b, "second encode of the same value differs")
            back = decode(fcp, name, b)
            check(back == v, "round trip of %s: %r -> %r" % (name, v, back))
            check(decode(fcp, name, bytearray(b)) == back, "second decode differs")
            obs["bytes"][name].append(list(b))
            obs["keys"][name].append(key_order(back))
    for v, b in zip(M_VALUES, obs["bytes"]["M"]):
        packed = pack_by_layout(fcp, "M", v)
        check(packed == b, "codec %r != packed layout %r" % (b, packed))
    obs["visitor"] = {n: Names(fcp).visit(StructType(n), n) for n in STRUCTS}
    obs["describe"] = describe(fcp, StructType("M"))
    # a nested struct on its own, and errors
    obs["P"] = list(encode(fcp, "P", p(-8, 0.1, 5)))
    obs["errors"] = [
        outcome(lambda: encode(fcp, "W", {k: v for k, v in W_VALUES[1].items() if k != "dq"})),
        outcome(lambda: encode(fcp, "Q", q(1, "t", [p(1, 1.0, 1)])))[0],  # array too short
        outcome(lambda: encode(fcp, "Nope", {}))[0],
        outcome(lambda: decode(fcp, "Nope", bytearray(4)))[0],
        outcome(lambda: decode(fcp, "W", bytearray(obs["bytes"]["W"][1][:-1]))),
        outcome(lambda: decode(fcp, "W", bytearray())),
        outcome(lambda: encode(fcp, "M", dict(M_VALUES[1], p=None))),
    ]
    return obs


def test_permutations():
    rng = random.Random(1501)
    reference = observe(parse({}))

    # wire order of the reference itself: ascending ids, negative id first
    check(reference["keys"]["W"][1][0][0] == "s" and [k for k, _ in reference["keys"]["W"][1]]
          == ["s", "o", "d", "f", "g", "ps", "dq", "e", "oo", "bit", "op", "last"], "W key order")
    check([k for k, _ in reference["keys"]["W"][1][6][1][0]] == ["u", "ps", "tag"], "Q key order")
    check(reference["P"] == [0xD8, 0xCC, 0xCC, 0xDC, 0x53], "P bytes %r" % reference["P"])
    check(reference["errors"][0] == ("KeyError", "'dq'"), "missing key %r" % (reference["errors"][0],))
    check(reference["errors"][4] == ("ValueError", "buffer overrrun"), "truncated input")

    perms = {n: list(itertools.permutations(range(len(d)))) if len(d) <= 6 else None
             for n, d in STRUCTS.items()}
    count = 0
    for i in range(26):
        orders = {}
        for n, d in STRUCTS.items():
            if i == 0:
                orders[n] = list(reversed(range(len(d))))
            elif perms[n] is not None:
                orders[n] = perms[n][(7 * i + 1) % len(perms[n])]
            else:
                orders[n] = rng.sample(range(len(d)), len(d))
        obs = observe(parse(orders))
        for key in reference:
            check(obs[key] == reference[key], "%s changed under permutation %r" % (key, orders))
        count += 1
    return count


# --------------------------------------------------------------------------
# hand built ASTs
# --------------------------------------------------------------------------


def test_linked_list():
    """A struct reached again and again, at growing depth, within one call."""
    decls = [
        StructField("next", 1, OptionalType(StructType("Node"))),
        StructField("v", 0, UnsignedType("u5")),
        StructField("w", 2, SignedType("i3")),
    ]
    value = None
    for i in range(60):
        value = {"v": i % 32, "next": value, "w": (i % 7) - 3}
    expected = None
    for perm in itertools.permutations(range(3)):
        node = Struct(name="Node", fields=[decls[i] for i in perm])
        holder = Struct(
            name="Holder",
            fields=[
                StructField("b", 1, ArrayType(StructType("Node"), 2)),
                StructField("a", 0, StructType("Node")),
            ],
        )
        fcp = FcpV2(structs=[holder, node])
        data = {"a": value, "b": [value["next"], {"v": 1, "next": None, "w": -1}]}
        got = list(encode(fcp, "Holder", data))
        back = decode(fcp, "Holder", bytearray(got))
        check(back == data, "linked list round trip")
        check(list(back) == ["a", "b"] and list(back["a"]) == ["v", "next", "w"]
              and list(back["a"]["next"]["next"]) == ["v", "next", "w"], "linked list key order")
        if expected is None:
            expected = got
            # head of the list: v=27 (5 bits), has_value=1 (8 bits), then the next node
            check(got[0] == (59 % 32) | ((1 & 0x7) << 5), "first byte %r" % got[0])
        check(got == expected, "linked list bytes changed under permutation %r" % (perm,))


def test_schema_changes_between_calls():
    """Every call sees the schema as it is when the call is made."""
    a = StructField("a", 0, UnsignedType("u4"))
    b = StructField("b", 1, UnsignedType("u12"))
    c = StructField("c", 2, UnsignedType("u8"))
    s = Struct(name="S", fields=[c, a, b])
    outer = Struct(name="O", fields=[StructField("l", 0, ArrayType(StructType("S"), 2))])
    fcp = FcpV2(structs=[outer, s])
    one = {"a": 0xA, "b": 0xBCD, "c": 0xEF}
    data = {"l": [one, one]}

    check(list(encode(fcp, "O", data)) == [0xDA, 0xBC, 0xEF] * 2, "ids 0,1,2")
    a.field_id, c.field_id = 2, 0
    check(list(encode(fcp, "O", data)) == [0xEF, 0xCD, 0xAB] * 2, "ids swapped: c, b, a")
    check(list(decode(fcp, "S", bytearray([0xEF, 0xCD, 0xAB]))) == ["c", "b", "a"], "decode c, b, a")
    a.field_id, c.field_id = 0, 2
    check(list(encode(fcp, "S", one)) == [0xDA, 0xBC, 0xEF], "ids swapped back")
    s.fields.remove(b)
    check(list(encode(fcp, "S", one)) == [0xFA, 0x0E], "field removed")
    check(decode(fcp, "S", bytearray([0xFA, 0x0E])) == {"a": 0xA, "c": 0xEF}, "decode without b")
    s.fields.insert(0, b)
    check(list(encode(fcp, "O", data)) == [0xDA, 0xBC, 0xEF] * 2, "field added back in front")
    # a second struct with the same name: the first one declared is the one used
    fcp.structs.append(Struct(name="S", fields=[StructField("a", 0, UnsignedType("u8"))]))
    check(list(encode(fcp, "S", one)) == [0xDA, 0xBC, 0xEF], "first struct of that name")
    # another schema object with another order of ids under the same struct name
    other = FcpV2(structs=[Struct(name="S", fields=[
        StructField("a", 5, UnsignedType("u4")),
        StructField("b", 4, UnsignedType("u12")),
        StructField("c", 3, UnsignedType("u8")),
    ])])
    check(list(encode(other, "S", one)) == [0xEF, 0xCD, 0xAB], "other schema: c, b, a")
    check(list(encode(fcp, "S", one)) == [0xDA, 0xBC, 0xEF], "first schema again")


def test_ties_and_empty():
    for first, second in (("m", "n"), ("n", "m")):
        tie = Struct(
            name="Tie",
            fields=[
                StructField("z", 5, UnsignedType("u4")),
                StructField(first, 2, UnsignedType("u4")),
                StructField(second, 2, UnsignedType("u4")),
                StructField("k", 0, UnsignedType("u4")),
            ],
        )
        fcp = FcpV2(structs=[tie])
        value = {"z": 1, first: 2, second: 3, "k": 4}
        check(list(encode(fcp, "Tie", value)) == [0x24, 0x13], "equal ids keep declaration order")
        check(list(decode(fcp, "Tie", bytearray([0x24, 0x13]))) == ["k", first, second, "z"], "tie keys")
        check(Names(fcp).visit(StructType("Tie"), "")[1] == ["k", first, second, "z"], "visitor tie")

    empty = FcpV2(structs=[Struct(name="Empty", fields=[]),
                           Struct(name="Two", fields=[StructField("e", 1, ArrayType(StructType("Empty"), 3)),
                                                      StructField("x", 0, UnsignedType("u8"))])])
    check(list(encode(empty, "Two", {"x": 9, "e": [{}, {}, {}]})) == [9], "empty struct")
    check(decode(empty, "Two", bytearray([9])) == {"x": 9, "e": [{}, {}, {}]}, "empty struct decode")
    check(list(encode(empty, "Empty", {"ignored": 1})) == [], "empty struct alone")


def main():
    n = test_permutations()
    test_linked_list()
    test_schema_changes_between_calls()
    test_ties_and_empty()
    if FAILURES:
        print("%d check(s) failed" % len(FAILURES))
        return 1
    print("checked %d declaration orders on %s" % (n, os.environ.get("FCP_ROOT", "/tmp/twin3-C15")))
    print("PASS")
    return 0


if __name__ == "__main__":
    sys.exit(main())
